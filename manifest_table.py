HOOK_COMMITS = ["3a5194c", "1c65365", "5e0ddb3", "369aa74"]
NOTES = "All checks: bounded exhaustive exploration driving the real mscript CLI built from /repo's working tree (dev profile, --cfg mscript_verif). Exit 0 = held, 1 = VIOLATION lines, 2 = machinery problem. Known findings: /verif/known_findings.json."
NOT_CLAIMED = {}
SERVED = []
ENGINES = [
 {"name": "mcheck", "path": "/verif/mcheck", "serves_properties": SERVED, "kind_free_text": "Python bounded-exhaustive / explicit-state explorer over the real CLI: E-prog (program-space enumeration against the reference interpreter mcheck/lang/refint.py), E-hist (BFS over operation histories with model-state de-duplication, mcheck/core/ehist.py), E-cfg (abstract machine over emitted bytecode, mcheck/lang/bcmodel.py), E-matrix (input matrices); layers, caps, replay directories, known findings"},
 {"name": "ffiprobe", "path": "/verif/ffiprobe", "serves_properties": ["C19"], "kind_free_text": "Rust dylib with the documented FFI signature, built against /repo/bytecode in the checks' cargo target dir"},
]
CHECKS["C20"] = dict(
 category="exploration",
 technique="bounded exhaustive enumeration of directory-tree configurations (explicit-state, every cell executed on the real CLI)",
 text="Every directory tree with <=3 (quick) / <=4 (thorough) top-level entries from an 11-name alphabet x 5 entry kinds, plus all-names trees and 4 invocation forms, is built on tmpfs, `mscript clean` is run on it and the complete before/after snapshot is compared: only top-level non-directory entries with extension mmm may disappear, nothing else may change; on exit 0 all of them are gone and the reported count is exact.",
 note="Linux tmpfs semantics only; names outside the 11-name alphabet and trees with more than 4 freely chosen top-level entries (beyond the 8/11-entry rotating trees) are not explored.",
 design_ref="DESIGN.md section 4, C20")

CHECKS["C19"] = dict(
 category="exploration",
 technique="bounded exhaustive enumeration of argument vectors x return forms x faults (every cell executed: hand-assembled bytecode calling a probe dylib through the real interpreter)",
 text="All argument vectors of length 0..4 (quick) / 0..6 (thorough) over int, bigint, float, byte, bool, str x probe functions echo (renders kinds+values it received, in order), last (returns its last argument: kind-preserving result push, checked with hook H2), nothing, fail (raise_error!), missing library, missing symbol, and two chained foreign calls. Oracle: exact rendering / value / sentinel line; for faults exit 1 with banner, message carried, sentinel never printed.",
 note="Probe is a Rust dylib built against /repo/bytecode in the same target dir. Values owning GC memory are outside the alphabet; one or two values per kind.",
 design_ref="DESIGN.md section 4, C19")

CHECKS["C04"] = dict(
 category="exploration",
 technique="bounded exhaustive enumeration of string literals (all strings <= 3/4 over the format-special alphabet x 6 syntactic positions) + corpus, differential execution of both CLI paths with instruction-stream comparison",
 text="Every string of length <=3 (quick) / <=4 (thorough) over {quote, backslash, space, tab, LF, CR, n, r, t, e-acute, a} as a literal in print/list/map-key/imported-module/dead-code/function-body position, every example program of the repository and generated programs of the other generators: `run` vs `compile`+`execute` must agree on stdout and success, the instruction streams loaded on both paths (hook H3) must be identical instruction by instruction, and the text printed must be the text the literal denotes.",
 note="Trusts hook H3 to dump what the interpreter loaded. Strings longer than 4 and characters outside the alphabet (incl. NUL) are not explored; map output is compared order-insensitively; object addresses are masked.",
 design_ref="DESIGN.md section 4, C04")
CHECKS["C18"] = dict(
 category="exploration",
 technique="bounded exhaustive enumeration of instruction-argument strings + corpus + full opcode-name table, differential execution of the raw-text/transpile/execute pipeline against run",
 text="Every string of length <=3 (quick) / <=4 (thorough) over the format-special alphabet in 5 positions of a single-module program, every single-module example, generated programs, and each of the 63 opcode names through a one-instruction text file: compile --output-format raw-text -> transpile -> execute must print and succeed exactly like `run`, and the instruction streams loaded (hook H3) must be identical.",
 note="Single-module programs only (as the property states). Trusts hook H3. Strings longer than 4 / other characters not explored.",
 design_ref="DESIGN.md section 4, C18")

CHECKS["C05"] = dict(
 category="exploration",
 technique="bounded exhaustive enumeration of the operator x kind-pair x boundary-value matrix, every cell executed on the real interpreter against an exact-arithmetic oracle",
 text="All 16 binary numeric operators x 16 (left kind, right kind) pairs x all pairs from per-kind boundary sets (8 values per kind quick, 9-13 thorough: extremes, neighbours, powers of two, -0.0, 1e300, 1e-300, 2^53+1), plus unary minus and `!`. Operands reach the operator through run-time variables and are themselves verified in the output. Oracle: Python exact integers / IEEE doubles; result kind observed through hook H2; failure expected exactly for unrepresentable results, out-of-range shift amounts and zero divisors of any kind.",
 note="Dev profile (overflow checks on). Any non-zero exit counts as failure here (panic vs error is C17). Shifts are read as bit shifts of the result kind. Values outside the boundary sets are not explored.",
 design_ref="DESIGN.md section 4, C05")

CHECKS["C06"] = dict(
 category="exploration",
 technique="bounded exhaustive enumeration of literal expression trees (depth <= 2 quick, <= 3 thorough), each executed folded and unfolded; differential oracle",
 text="Every tree (leaf op leaf) over 33 literals of the four numeric kinds (boundary values, incl. the int literal that does not fit 32 bits) x 10 foldable operators, unary minus (also doubled), `!`, `get`, `or` with nil/present, list nesting; depth-2 trees (T op L), (L op T), -(T) over 8 leaves (quick: every 16th; thorough: all 105k); depth-3 trees of two shapes over 4 leaves (512k). Folded (literals) and unfolded (same tree over variables) programs must print the same value, the same run-time kind (hook H2) and the same `typeof`, and the compiler must reject the literal form exactly when the run-time evaluation fails.",
 note="Dev profile. When both renderings are accepted and both die of the same dynamic type error (e.g. unary minus on a byte) the case is attributed to C02, not C06. Float digits compared by value.",
 design_ref="DESIGN.md section 4, C06")

CHECKS["C10"] = dict(
 category="fault_enumeration",
 technique="exhaustive fault enumeration over (declaration context, write form, write context, constant type) with paired positive controls, every triple compiled and run by the real CLI",
 text="All expressible triples: const declared at module level / in a function / in a block, class names, imported module names and exported members (const and non-const, scalar, list, function) x 16 write forms (=, typed =, += -= *= /= %=, ?= as statement / if / while condition, modify, typed modify, index =, index +=, loop-counter reuse, unpacking) x 9 write contexts (same scope, block, nested block, else, while body, from body, nested function, function in function, method) x 3 (quick) / 6 (thorough) constant types. The compiler must reject; if it accepts, the program is run and the constant observed. Every case has a positive control (same write, non-const) that must compile, so a compiler that rejects everything cannot pass.",
 note="A plain (non-modify) assignment inside a nested function declares a local by the language's rules; there acceptance is allowed provided the constant still holds its initializer.",
 design_ref="DESIGN.md section 4, C10")

CHECKS["C01"] = dict(
 category="model_checking",
 technique="bounded exhaustive enumeration of control-flow skeletons (deviation-bounded parameters), each program = one reference-model trace replayed on the real CLI and compared line by line",
 text="Every control-flow skeleton over {assignment, call, break, continue, return, assert / zero-divisor / index faults, if, if/else, else-if chains, while, from-loops with to/through, step, anonymous / fresh / colliding counter}: quick = all shapes of depth <=2 with default parameters (function, module-level and one-level-recursion variants), all spines of nesting depth <=5, every single parameter deviation at depth <=2 (6 conditions, 4 iteration counts, 4 bound pairs, to/through, 3 steps, 3 counter kinds, 3 fault kinds), all ordered pairs of depth-1 compounds in a function and in a loop body; thorough adds depth 3 and 4, double deviations, depth-3 single deviations and long (>=80 statement) sequences. Every block is framed by probes printing a site id and all live counters, so stdout is the path; each function is called with p = 0, 1, 2. Oracle: the reference interpreter's exact lines and success / failure point.",
 note="The reference interpreter (mcheck/lang/refint.py) is the semantics; it is validated on the unchanged tree by this check itself (tens of thousands of agreeing traces). Any non-zero exit counts as the prescribed failure. Shapes follow rule 1 of DESIGN 3.4 (one arbitrary child per compound).",
 design_ref="DESIGN.md section 4, C01")

CHECKS["C12"] = dict(
 category="model_checking",
 technique="bounded exhaustive enumeration of optional-handling programs (payload x carrier x nil/present x construct x position), each one a reference-model trace replayed on the real CLI",
 text="All combinations of payload type {int, str, [int...], class}, carrier {variable, parameter, function result, list element, field, built-in result, literal}, nil | present, construct {== nil in both operand orders, != nil, get, (x) or y with a logging fallback, chained or, ?= as statement / expression value / if condition / while condition, present == plain in both orders}, position {declaring block, nested block, else block, doubly nested block, loop body, nested function} and ?= target declared in the same or the enclosing block (about 4 800 expressible programs). Oracle: reference interpreter (exact stdout, success/failure); a failing `get` must be a run-time error naming file and line of that `get` with a column inside it; the `or` fallback must not be evaluated when the value is present.",
 note="Objects are observed through a field. Programs the type checker rejects (e.g. chained `or`, list == fixed-list literal) are counted as rejected, not explored.",
 design_ref="DESIGN.md section 4, C12")

CHECKS["C15"] = dict(
 category="model_checking",
 technique="bounded exhaustive enumeration of typed expression trees over logging leaves; the log of each program (one reference-model trace) is compared with the real CLI's",
 text="Expression trees over logging leaves t(i) / r(i) (recursive leaf that re-enters the same code one frame deeper) / b(i) / o(i) and nodes E-E, E*E, string concatenation, E<E, f2..f4(E,..), obj.m(E,E), list literals, list literal + index, map literals, &&, ||, !, (O) or E: all trees of depth <=1 in six statement contexts (print, assignment, if / while condition, call argument, return); depth 2 by rule 1 with all leaf combinations, and with both children arbitrary for the roots -, &&, ||, or, !; depth-3 spines; thorough adds full binary depth 2 in two contexts, depth-3 rule 1 (1.17 M trees, capped) and depth-4 spines. Oracle: reference interpreter - the exact sequence of log lines (each leaf exactly once unless short-circuited) and the final value; disagreements are classified as order / evaluation-count / value.",
 note="Leaf values are kept small so no overflow occurs; a map literal is observed through its length only.",
 design_ref="DESIGN.md section 4, C15")

CHECKS["C17"] = dict(
 category="exploration",
 technique="bounded exhaustive enumeration of (failure kind x call chain over 5 frame kinds x failing-statement position), each program executed by the real CLI with merged stdout/stderr",
 text="19 failure kinds (assert, get of nil, field of nil, list/string index, remove, zero divisor of int/bigint/float/byte, % by 0, overflow in + * unary -, shift range, failed to_byte/to_int, substring range, missing map key) x all call chains of length 0..3 (quick) / 0..4 plus 5..6 over {function, method, callback} (thorough) over {plain function, closure, method, map callback, function of an imported module} x failing statement plain / in if / else / while / from. Oracle: exit status 1 (never 101/134), the fatal-run-time-error banner after all earlier output (observed through one merged pipe), no later statement executed, the printed trace (block pseudo-frames dropped) listing exactly the active functions innermost first down to the module, with labels learnt from the loaded bytecode (hook H3); a failed assert names file:line:col of that assert.",
 note="Labels are learnt from make_function/store pairs and method names, not guessed. An imported-module frame can only be followed by a function or closure frame in the chain.",
 design_ref="DESIGN.md section 4, C17")

CHECKS["C13"] = dict(
 category="model_checking",
 technique="explicit-state breadth-first search over operation histories with de-duplication on the canonical model heap; every transition replayed on the real CLI",
 text="Five container templates (int lists with an alias and an independent list; string lists; lists of optionals; nested lists sharing an inner list; maps with an alias and an independent map) x the full operation alphabet of the property (push, remove / read / index assignment / op-assignment at indices -1, 0, len-1, len, reverse, clear, clone, re-aliasing, join, map, filter, index_of, len, ==, to_str; map literal, read, assignment, op-assignment, replace, remove, contains_key, len, keys, values, pairs, clear, clone). BFS to depth 4 (quick: ~5 000 model states, ~35 000 transitions) / depth 7 (thorough) with state de-duplication; each transition is executed on the real CLI along the shortest history to its source state, every step printing its result and all containers; thorough also replays transitions along a second witness history reaching the same model state.",
 note="Python list/dict model with explicit aliasing. Values in {0,1,2}, list length capped at 3 by the alphabet. Map-derived output compared as sorted multisets. Out-of-range accesses must stop the program (any non-zero exit).",
 design_ref="DESIGN.md section 4, C13")

CHECKS["C07"] = dict(
 category="model_checking",
 technique="explicit-state breadth-first search over call/assignment histories on closure templates (model = reference interpreter with explicit cells, states de-duplicated on observer values, every transition replayed on the real CLI) plus an exhaustive capture-site matrix",
 text="Five closure templates (a module variable captured by several closures incl. modify, plain local assignment and passing a closure as argument; a counter factory with two instances, re-creation and closure aliasing; three nesting levels with a closure created by a closure; closures created in a method, stored in a list and passed as arguments; the shadowing family) explored breadth-first over histories of up to 9 (quick) / 14 (thorough) operations or to the fix-point, each transition executed on the real CLI. In addition a capture-site matrix: the captured variable is used only inside one of 33 AST node kinds (operands, call / method arguments, list / map literals, index, if / else-if / while conditions, from start / bound / step, or primary / fallback, ?= source, nested closures, modify in blocks and loops, local shadow ...) with the closure created 1-3 levels below the owner (module, function, method) and the owner assigning after creation.",
 note="Functions are never printed; is_closure() is part of the alphabet. The model's capture rule (free variables of the body that are visible at creation) is validated by the check itself.",
 design_ref="DESIGN.md section 4, C07")

CHECKS["C08"] = dict(
 category="model_checking",
 technique="explicit-state breadth-first search over construction / aliasing / method-call / field-access histories on class graphs (model = reference interpreter with records of cells, states de-duplicated on observer expressions, every transition replayed on the real CLI)",
 text="Two class graphs: Node/Leaf (scalar, list, self-referential optional and class-typed fields; constructor with parameter; methods with parameters and results, a method returning Self, chained calls, a method calling another method) and Pair/Leaf (object-valued constructor parameters, swapping, fresh sub-objects). Alphabet: construct, alias, pass to a function, return from a function, store in / read from a list, call each method on each reference, read and write fields (incl. through a sub-object and sharing a sub-object between two owners), `is` on every pair of references. BFS to depth 3 (quick, ~850 states / 4 700 transitions) / depth 5 (thorough); state de-duplication on 27 (resp. 22) observer expressions exposing every field, every identity relation and the link structure.",
 note="Objects are never printed. == on objects is rejected by the compiler and is not part of the alphabet.",
 design_ref="DESIGN.md section 4, C08")

CHECKS["C11"] = dict(
 category="model_checking",
 technique="exhaustive enumeration of import DAGs x per-edge parameters (deviation-bounded), each project one trace of a reference loader model replayed on the real CLI through both execution paths",
 text="All import DAGs over up to 4 (quick) / 5 (thorough) modules with every module reachable from the entry (1, 1, 3, 21, 315 graphs), per edge: import form {import m, import a,b from m, the latter also importing the mutable variable}, path spelling {m, m.ms, ./m}, placement of the import {before, between, after} the importer's side-effecting statements; all combinations for n <= 2 and <= 2 deviating edges for n = 3 (quick; all combinations for n <= 3 thorough), <= 1 / 2 deviating edges for n = 4, n = 5 thorough; variants with leaf modules in a sub-directory; six negative cases x three spellings (non-exported name through the module / by name, assignment to exported and const members, rebinding the module, unknown member). Each module prints init / mid / done lines, exports a counter with bump/peek closures, a list and a const; importers bump, peek, push and print. Every project is executed by `run` and by `compile`+`execute`; the reference loader model prescribes the exact trace (each init once, in import order, shared state).",
 note="Modules in a sub-directory are leaves. The `..` path component never parses (ordered choice in the grammar) and is not part of the alphabet.",
 design_ref="DESIGN.md section 4, C11")

CHECKS["C14"] = dict(
 category="exploration",
 technique="bounded exhaustive enumeration of the method x receiver x argument matrix, every cell executed on the real interpreter against a per-method reference implementation",
 text="Every string method (len, character index, substring, contains, index_of, reverse, insert, replace, delete, split, chars, parse_int / _radix, parse_bigint / _radix, parse_float, parse_bool, parse_byte, * repetition, + concatenation) x 25 receivers (empty, length 1, ASCII and multi-byte text, blanks, sign / digit / 0x / 0b / hex / exponent forms, extreme decimal strings) x byte offsets {-1, 0, 1, 2, len-1, len, len+1} in all pairs, 7 patterns, radices {1, 2, 10, 16, 36, 37}; every number method (to_int, to_bigint, to_byte, to_float, abs, pow, powf, sqrt, floor, ceil, round, ipart, fpart, to_str, to_ascii) x 12-22 boundary values of each kind x exponents {-1, 0, 1, 2, 31, 40, 127} and {0.5, 2.0, -1.0, 0.0}. In the domain the exact value with the declared kind (hook H2) is required; outside the domain the program must stop with a failure.",
 note="Offsets are UTF-8 byte offsets (s[i] is by character), as the repository's tests document; conversions are in-domain iff the exact truncated value is representable; pow/powf compared to 1e-13 relative (not correctly-rounded operations); IEEE inf / NaN are defined float results.",
 design_ref="DESIGN.md section 4, C14")

CHECKS["C02"] = dict(
 category="exploration",
 technique="bounded exhaustive enumeration of the typing tables (operator x type x type cells, expected x supplied x position cells, return-path skeletons); every program the real compiler accepts is executed and judged",
 text="(a) every cell of the operator table: 20 binary operators, 5 op-assignments, ?= and 4 unary operators x 16 x 16 type representatives (int, bigint, float, byte, bool, str, open list, fixed-shape list, map, int? present / nil / boxed, str?, function, class, alias); (b) every (expected, supplied) type pair x 8 typed positions (annotated initialiser, re-assignment, argument, return value, pushed element, map value, field assignment, or-fallback); (c) every function-body skeleton of depth 1 (and depth 2: every 9th quick / all thorough) over {if, if/else, else-if, while, from} with return / no-return leaves, each accepted skeleton called with all condition vectors and its result stored and printed. The compiler's own verdict partitions the space; for each accepted program execution must not end in a dynamic type error (anything outside the defined failure classes) and the run-time kind (hook H2) of each printed value must fit the `typeof` text of the same expression (nil exempt).",
 note="Failure classification per DESIGN Appendix A. When an operand of the cell is nil the failure is the defined use-of-nil whatever its wording.",
 design_ref="DESIGN.md section 4, C02")

CHECKS["C16"] = dict(
 category="exploration",
 technique="bounded exhaustive enumeration of inputs: deviation-bounded derivations of the project's own grammar.pest, exhaustive single-token mutation of a corpus, nesting towers; every input compiled by the real CLI",
 text="(a) grammar.pest is parsed at check time; every derivation that departs from the minimal one in <= 3 (quick) / <= 4 (thorough) decision points (alternative, repetition count, optional) for 15 roots (declaration, value in 4 embeddings, type in 2, class, import, function, reassignment, number_loop, if_statement, list, map) x 6 host contexts x preludes declaring the identifier with 3 (quick) / 8 (thorough) different types; (b) every single-token mutation (delete, duplicate, swap, replace by / insert each token of a 24- / 53-token alphabet) at every token position of the 6 smallest (quick) / all (thorough, capped) single-module corpus files; (c) nesting towers of 13 nestable constructs up to 4 kB. Oracle: `mscript compile` ends within 10 s with exit 0 or exit 1 + diagnostic; panic / abort / timeout is a violation, keyed by panic site and message.",
 note="Thorough tier explored 6.6 M inputs in 30 min on the pinned tree (12 distinct crash sites, all listed as known findings). Arbitrary byte soup is not covered.",
 design_ref="DESIGN.md section 4, C16")

CHECKS["C03"] = dict(
 category="fault_enumeration",
 technique="exhaustive fault enumeration: every (host context, fault of a fixed catalogue) pair compiled by the real CLI, with positive controls per host",
 text="10 host contexts (module level, function body, closure body, class method, constructor, else-if arm, while body, from body, doubly nested block, imported module) x 77 type-breaking edits (wrong-typed annotated initialiser incl. alias / class / optional / function types, re-assignment with another type of a variable / field / list element / map value / through an op-assignment, wrong argument type and count for functions / methods / constructors / built-ins, wrong / missing / superfluous return value, optional returned as plain, non-boolean conditions in if / else-if / while / assert / ! / &&, unknown name / type / field / method, call of a non-callable, index of a non-indexable, non-index index, wrong map key type, operators on unsupported kinds, optional misuse, from-loop bound / step of the wrong type, break / continue outside a loop). The first statement prints a marker. Oracle: `mscript run` exits 1 with 'Did not compile', never a panic; the marker is not printed; a diagnostic names the file containing the edited statement and a line inside it. Each host is also run without a fault (must compile and print the marker).",
 note="The catalogue is fixed; faults are single-statement edits on hosts that declare one variable of each type.",
 design_ref="DESIGN.md section 4, C03")

CHECKS["C09"] = dict(
 category="model_checking",
 technique="explicit-state exploration of an abstract machine whose transition relation is the bytecode the real compiler emitted (all branch outcomes), invariants on every state, plus conformance of real per-instruction traces (hook H1) to the explored model",
 text="For every function of every program of the corpus (control-flow skeletons shared with C01: depth <= 2 shapes, module / recursion variants, pairs of compounds, single deviations of all loop shapes with break / continue, spines to nesting depth 4 quick / all C01 layers thorough; the repository's examples; generated programs of the other checks) the instruction list loaded by the interpreter (hook H3) is explored as the machine (ip, stack of open block frames, set of possible operand-stack depths) with both outcomes of every conditional instruction (if, while_loop, jmp_not_nil, store_skip). Invariants: jump targets inside the function; done / jmp_pop never pop more block frames than are open; the frame stack at an instruction is the same on every path (no accumulation across loop iterations); some operand shape satisfies every instruction; ret_mod and fall-through leave no block frame open. Every program is also executed and its trace (function, ip, opcode, frame depth, operand depth per instruction) must be a path of the explored model with depths inside the model's sets; the exit-time stack check must agree. Quick: ~11 000 programs, ~7 M model states, ~11 M traced instructions validated.",
 note="Opcode semantics table transcribed once from bytecode/src/instruction.rs and validated by the traces on the unchanged tree (a trace outside the model on the unchanged tree would be a machinery error). A call yields 0 or 1 operand (result arity is not tracked).",
 design_ref="DESIGN.md section 4, C09")

# ---- additions made after round-2 seeding (kept as appended sentences so that the original descriptions stay readable) ----
CHECKS["C01"]["text"] += (" Conditions range over 15 forms (comparisons, !, &&, ||, >=, !=, string ==, a logging call, and two mixed &&/|| forms whose grouping"
                          " is left to the precedence table); loop steps over constant / variable / expression / call; leaves include a path store as the first"
                          " statement of its block and a function defined and called inside the block; all single deviations of depth-<=1 shapes (thorough: depth <= 2)"
                          " are also rendered with minimal parentheses.")
CHECKS["C02"]["text"] += (" 18 type representatives incl. two function types whose value is called in every typed position; (d) a catalogue of boundary cases of"
                          " typing rules (element pointers in list literals, boxed optionals from built-ins as operands, fixed-shape lists, from-loop counters of every kind).")
CHECKS["C03"]["text"] += (" The catalogue now has 101 edits plus three systematic families: unknown name = {fresh identifier, every identifier-shaped word of grammar.pest}"
                          " x 12 expression positions; non-index = 4 container kinds x 13 wrong-kind index expressions (literal / variable / non-constant) x read / store /"
                          " op-assignment; function-type, fixed-list-shape, unpack, class-member and out-of-range-literal edits.")
CHECKS["C04"]["text"] += (" The alphabet also holds NBSP, VT and a 4-byte scalar; 10 directory spellings for the path given on the command line; and a stale-output layer:"
                          " 7 programs of different compiled lengths (with / without an imported module), every revision compiled or run in a directory that already holds the"
                          " outputs of every other revision (4 command sequences), compared with a fresh directory.")
CHECKS["C06"]["text"] += (" Also 34 alternative literal spellings (hexadecimal, digit separators, leading zeros, f suffix, B-prefixed hexadecimal) alone, negated, in a list and as"
                          " either operand of every operator - folded in that spelling, unfolded over variables holding the canonical literal; and the most negative int / bigint"
                          " values (-(MAX) - 1) against 14 partners on both sides of every operator, plus all negative-negative pairs.")
CHECKS["C07"]["text"] += (" The site matrix is repeated with the site preceded, inside the closure, by a shadowing local / a plain self-assignment / a modify / a block-local shadow of"
                          " the captured name; a third family has the closure return an inner closure (read / modify / created in a block / two levels) that is called only after its"
                          " creator returned, from two executions, interleaved. After every history the implementation's state is read back through the template's observer expressions.")
CHECKS["C08"]["text"] += (" List-valued field stores (share another object's list, fresh empty list, clone of itself) are part of the alphabet; state identity includes model-side"
                          " container identity; after every history the implementation's state is read back through all observer expressions.")
CHECKS["C11"]["text"] += (" Further import forms `import type T from m` and `import type T, a, b from m` (every module exports a type alias) and leaf modules that export nothing.")
CHECKS["C14"]["text"] += (" Repetition counts: int and bigint on either side of `*`, negative, and bigint counts around 2^64, 2^65, +-2^127. parse_int / parse_bigint read decimal"
                          " digits or, after 0x, hexadecimal digits.")
CHECKS["C15"]["text"] += (" Binary nodes cover every binary operator of the grammar. Variable-leaf layers: bare reads of a module variable (int / bool) next to logging calls that modify"
                          " and return it, at every operand position (depth 1 all contexts, depth 2 rule 1, thorough depth-3 spines). Precedence layers: every ordered pair (thorough:"
                          " triple) of directly nested operator-syntax nodes rendered with minimal parentheses. Eight trees share one program run; a group that differs is re-run tree by tree.")
CHECKS["C16"]["text"] += (" (d) lexical boundaries: ~125 spellings at the limits of every literal rule (decimal / hexadecimal / B / binary / float / string / identifier; widths 8, 32, 64, 128"
                          " bits and beyond, malformed separators, escapes, stray characters) x 39 positions that treat a literal specially; quick tier also all k <= 4 derivations of"
                          " `value` inside a method.")
CHECKS["C16"]["note"] = ("Crash sites found on the pinned tree were repaired (see known_findings.json, fixed entries); four remain listed as known findings (stack depth, exponential"
                         " nested list type, two panic sites seen only in the thorough tier). Arbitrary byte soup is not covered.")
CHECKS["C19"]["text"] += (" All sequences of 2 (thorough 3) foreign calls over {library A, library B with the same symbols, missing library} x 5 functions; every call position {last"
                          " instruction of the entry function, tail of a helper, helper storing the result, helper called twice, map callback, filter callback, result popped, result"
                          " stored} x {echo, last, fail, missing library, missing symbol}.")

# ---- additions made after round-3 and round-4 seeding ----
CHECKS["C01"]["text"] += (" Further layers: void functions (no return type, value-less `return`, shape followed by statements or last in the function) for all depth-<=2 shapes;"
                          " identifier spellings (12 roles x every identifier-shaped word of the grammar used as prefix of a longer identifier); ~23 statement forms (value-less"
                          " returns, comments, CRLF, typed assignments); corpus-wide lexical transformations (CRLF line ends, comments between statements, extra blanks) under which"
                          " the output must not change (thorough: also over the repository examples).")
CHECKS["C02"]["text"] += (" Every compatibility cell is also run inside a function body, incl. re-assignment from a nested block of that function; depth-2 expression trees over 10"
                          " leaves x 12 operators compare `typeof` at run time with the statically annotated kind (quick: every 11th); calls through function-typed fields.")
CHECKS["C03"]["text"] += (" Hosts also in CRLF and commented renderings; an edit that is rejected as a SYNTAX error instead of a type error counts as a machinery error (guard against vacuous rejections).")
CHECKS["C05"]["text"] += (" Operands also reach the operator through 7 carriers (list element, object field, parameter, captured variable, call result, map value, unwrapped optional).")
CHECKS["C07"]["text"] += (" 51 capture sites (captured list / str / bool / function values, from-loop bounds, interpolations, ...); a fourth family of recursive closures (read / modify a"
                          " capture after `self(..)`, recursion creating inner closures) at nesting 1-3 under all four owner kinds; every E-hist template is also explored with all of its"
                          " operations performed inside a function body.")
CHECKS["C08"]["text"] += (" Three class graphs (the third lets `self` escape from the constructor into a partner's field); `-> Self` chains returning another object; every"
                          " op-assignment operator through a field path; a recursive method.")
CHECKS["C09"]["text"] += (" Void-function variants of every depth-<=1 (thorough <=2) shape; minimal-parentheses renderings as in C01.")
CHECKS["C10"]["text"] += (" Class-name constants are also written from inside the class (own constructor, own method, closure in own method; `modify` with a value of the same type);"
                          " every special declaration has a positive control (the same program without the write must run).")
CHECKS["C11"]["text"] += (" Every module also exports a class that importers instantiate; sub-directory modules that import each other; 12 kinds of negative cases (plain / op-assignment"
                          " to a member, const member, member element, from inside a function, `?=` into a member).")
CHECKS["C12"]["text"] += (" Position `escaped` (closure called after the function that made it returned; carrier and fallback are that function's locals) and construct `(x) or v` with a variable fallback.")
CHECKS["C13"]["text"] += (" Op-assignment operators -= *= /= %= through list and map indices; eight rendering variants of the templates (literal list indices, int-keyed maps, every"
                          " operation performed inside a closure over the containers) explored to their own depth bounds.")
CHECKS["C14"]["text"] += (" Literal index into string variables (plain, assigned in a block, op-assigned, const, longer-first) with static rejection judged against the index domain;"
                          " every cell is also run inside a function body.")
CHECKS["C15"]["text"] += (" Constant leaves (true, false, 2, 0) beside logging siblings; identical-leaf layer (one and the same counter call at every leaf); five callee forms (immediately"
                          " invoked literal, method of a field, function-typed field, list element, call result).")
CHECKS["C17"]["text"] += (" Six statement contexts for the failing expression (print, list literal, if / while condition, assert, interpolated string); a failure raised by a built-in must"
                          " show `<native code>` as innermost trace line, every other failure must not.")
CHECKS["C18"]["text"] += (" Stale-output layer as in C04 (transpiling over the longer .mmm of another revision).")
CHECKS["C19"]["text"] += (" Library-file-name layer: 10 names (other / no extension, versioned soname, sub-directory, blank in the name) each beside a differently answering decoy, 7"
                          " missing names beside an existing look-alike; list arguments (the probe renders vectors and optionals).")
CHECKS["C20"]["text"] = CHECKS["C20"]["text"].replace("x 5 entry kinds", "x 6 entry kinds (file, non-empty directory, empty directory, symlink to file / to directory / dangling)")

# ---- additions made in round 5 / the neutral round (N1) ----
NOTES += (" Oracles compare what the properties name (values, kinds, order, positions, labels, exit classes); what merely identifies those things in the tool's"
          " output - the closing line of a failed compilation, the banner and layout of the run-time report, the wording of failure messages - is learnt by"
          " calibration from the binary under test (mcheck/core/driver.py), see DESIGN.md section 14.")
CHECKS["C01"]["text"] += (" Conditions now range over 19 forms: four have a bare list element or object field (a reference into its container) as the condition or as an operand of ! / &&.")
CHECKS["C02"]["text"] += (" (e) fixed-shape lists (4 asymmetric shapes) x every list method (17 call forms): the method is refused or every position keeps a value of its declared kind;"
                          " (f) consumer positions x carriers: the 57 syntactic positions of C07's site catalogue fed with an int / bool operand that reaches them through a list element (variable or"
                          " literal index), an object field, an element of a nested list, an unwrapped optional or a plain variable, inside a closure and inside one function, each program being one"
                          " trace of the reference interpreter; plus 18 snapshot programs (a number / bool read out of a container keeps its value when the container is changed afterwards).")
CHECKS["C02"]["note"] = (CHECKS["C02"].get("note", "") + " A run-time failure counts as a dynamic type error when it belongs to none of the defined failure classes; the classes are recognised by"
                         " patterns learnt from 39 canonical failing programs of the binary under test plus the literal wording of the pinned tree.").strip()
CHECKS["C05"]["text"] += (" An eighth carrier writes both operands as literals in place (the compiler then evaluates the operator; a refusal is right exactly when the operation fails);"
                          " unary minus and `!` are also taken through every carrier, the element / field being read again afterwards (the operator works on a copy).")
CHECKS["C06"]["text"] += (" Optional trees: every nesting of two `or`s over nil / present literals, alone, under `get`, compared with nil, in arithmetic - judged against the meaning of"
                          " or / get / == nil itself, because the unfolded rendering of some is ill-typed by the language's own rules.")
CHECKS["C07"]["text"] += (" Sites whose captured name occurs only in an expression statement (callee, argument, receiver) and seven bool consumer sites.")
CHECKS["C10"]["text"] += (" Names brought in by `import a, b from m` are written through every form (rebinding forms are judged on the module's own view of the member, as the repository's test"
                          " not_import_const_bypass prescribes; element stores through such a name are a known finding). Const objects and const nested lists are written THROUGH by 11 path forms"
                          " (field, field op-assignment, nested index, parenthesised inner step, element / field-list replacement).")
CHECKS["C11"]["text"] += (" Visibility matrix: modules = all sequences of <= 2 (thorough 3) declarations over {variable, function, class, type alias} x {exported, hidden}; the importer reaches for"
                          " every declaration through `m.x` and `import x from m`: exported ones must work, hidden ones must be refused at compile time.")
CHECKS["C14"]["text"] += (" Float receivers include the doubles at and next to every conversion bound (2^31, 2^63, 2^64, 2^127 and their neighbours, both signs).")
CHECKS["C15"]["text"] += (" Carrier leaves: silent reads of a list element (variable index) or an object field, int and bool, and optionals produced by a built-in (present, nil, held in a variable),"
                          " at depth 1 in all contexts and depth 2 by rule 1.")
CHECKS["C16"]["text"] += (" (e) import statements: 47 path spellings (existing / missing file, directory, `.`, `..`, trailing separators, self import, odd extensions, odd characters) x 7 import forms"
                          " x 10 syntactic hosts, compiled in a directory that holds a module, a sub-directory, an empty file and a stray .mmm file.")
CHECKS["C17"]["text"] += (" The report is located by markers learnt from the binary; the trace is the sequence of frame lines (a label `<file>.mmm#<function>` / `<native code>#<built-in>` plus"
                          " decoration), the assert position may stand anywhere in the report, the wording of messages is recorded, not judged.")
CHECKS["C20"]["text"] += (" `clean` must succeed on every explored tree (none contains anything it cannot handle); the reported count is any integer on a stdout line that names no path.")
CHECKS["C09"]["note"] = (CHECKS["C09"].get("note", "") + " The abstract machine has one transfer function per opcode (63, transcribed from bytecode/src/instruction.rs; opcode numbers are read from"
                         " /repo at run time). A tree that adds an opcode makes the check stop with exit status 2 (machinery: opcode without abstract semantics), never with a verdict.").strip()

# ---- additions made in round 7 ----
CHECKS["C01"]["text"] += (" Three further condition forms whose two operands both log their evaluation (`g(0)<g(1)`, `g(K)-g(0)==K`, `bf(2)==bf(K)`), and the EMPTY block as a leaf and as"
                          " the sibling arm of every if/else (shared with C09).")
CHECKS["C02"]["text"] += (" (g) from-loops over every combination of numeric kinds: start x end x step (absent or of a kind) x counter (fresh, or an existing variable of a kind), observed in the"
                          " first iteration, after a break in it and after an empty range (typeof vs kind of the counter inside and after the loop).")
CHECKS["C03"]["text"] += (" Self-reference family: the name being declared used in the initialiser of its own declaration (untyped, typed, const, const typed) in 17 places of the initialiser,"
                          " and four use-before-declaration faults, in every host.")
CHECKS["C05"]["text"] += (" + - * / % also as OP-ASSIGNMENT onto a variable, a list element, an object field, a map entry and a captured variable (8 values per kind; the cells whose promoted"
                          " kind is the kind of the target).")
CHECKS["C06"]["text"] += (" Sequences: for 3 digit pairs x 10 operators the 16 kind combinations of the same digits (and the negations) are evaluated one after the other in ONE compilation, in"
                          " every rotation and reversed, against the same sequence over variables (what the compiler keeps between two evaluations must not leak).")
CHECKS["C07"]["text"] += (" Captured variables of 8 declared types (int, int? nil / present, str?, an object type?, an alias of int, a function type, [int...]) written by `modify` - directly, in a block,"
                          " in a loop, from an inner closure - with a value of a compatible but not identical type; `modify` with a value read out of a container (element, field, map entry, nested"
                          " element, function returning an element) followed by a write to that slot (in the closure, by the owner, through a third closure after the owner returned) or to the variable.")
CHECKS["C08"]["text"] += (" Before the search: two declarations of a class with the SAME NAME in different scopes of one file (two functions, the arms of an if, a nested function, a loop body, next to a"
                          " module-level class) x 3 class shapes x 6 orders of exercising them (756 programs; part of them also in the corpus of C04 / C18 / C09).")
CHECKS["C10"]["text"] += (" The const may also be declared OVER AN EARLIER BINDING of its name in the same scope (ordinary / typed variable, parameter, loop counter, variable or const of an earlier"
                          " sibling block): whether that declaration is accepted is the compiler's business, the name is const from there on (11 write forms x 4 contexts x 3 declaration sites).")
CHECKS["C12"]["text"] += (" Compositions: `get` applied directly to an `or` form whose fallback is a plain value / an optional variable (nil, present) / an optional result (nil, present), and such an"
                          " `or` form compared with nil; cases refused by the type checker are counted separately.")
CHECKS["C13"]["text"] += (" A sixth template TRANSFERS values between two lists and a map by every form (map literal, list literal, index assignment, push, replace, map() with the identity and with a"
                          " callback that returns a read out of a container, filter with such a callback, through a function returning an element, out of a map entry) and then writes the slot they came from.")
CHECKS["C15"]["text"] += (" Zero-argument calls as operands: a recursive self() of a parameterless function (bounded by a captured counter) and a parameterless logging function under && || ^ == ! at"
                          " depth <= 2, in return / if / assignment position, for both values at the recursion bound.")
CHECKS["C16"]["text"] += (" (f) token soup: EVERY sequence of <= 2 (thorough 3) tokens over a 59-token alphabet (each lexical class, bracket, keyword) and of <= 3 (4) tokens over its 16 structural members,"
                          " at module level, inside a function body, a class body and an unclosed nested block; (g) assignment flags: every sequence of <= 2 of {modify, const, export} x 11 assignment"
                          " forms x 13 hosts (blocks, nested blocks, functions whose local / parameter is the target, nested functions, methods) x 6 declarations of the target.")
CHECKS["C17"]["text"] += (" 21 further failure kinds: overflow / zero divisor / shift / conversion whose operand is a present optional handed out by a built-in (parse_int, parse_bigint, parse_byte,"
                          " index_of), a list element, an object field or a map entry, and the op-assignment forms of the same; the quick tier runs chains up to length 4.")
CHECKS["C19"]["text"] += (" Symbol names: the probes export 17 functions whose names (1 .. 300 bytes) are prefixes of one another and return their own name; every exported length must reach exactly that"
                          " function, 14 lengths in between are missing symbols, in both libraries.")
NOTES += (" Differential comparisons of programs that take keys() / values() / pairs() of a map compare the output as a multiset of lines, each line a multiset of tokens (HashMap order).")

# ---- additions made in round 8 ----
CHECKS["C01"]["text"] += (" From-loop bounds may be PLAIN VARIABLES that the first statements of the loop body change (growing / shrinking): the bounds were read once, before the first iteration.")
CHECKS["C03"]["text"] += (" Five hosts in which the fault stands BEHIND a point where its block has returned on every path (after a return, after an all-returning if/else or else-if chain,"
                          " after a return in a loop body / else arm); a parameter of a sibling method / constructor used as if it were a variable of this method.")
CHECKS["C04"]["text"] += (" Two literals in one program: every string of length 2 (thorough 3) cut in two - two prints, two functions, map key + value, concatenation.")
CHECKS["C18"]["text"] += (" Two literals in one program (every string of length 2 cut in two, as in C04).")
CHECKS["C05"]["text"] += (" Op-assignment also as an EXPRESSION (its value printed next to the target's new value) for variable / element / field / map entry; pairs: two cells of one operator on the"
                          " same digits but other operand kinds, one after the other in one program.")
CHECKS["C08"]["text"] += (" The two same-named classes may also differ in shape (only one has a constructor / fields).")
CHECKS["C10"]["text"] += (" Further write contexts: a method of a class whose sibling method (earlier / later) or constructor has a PARAMETER with the constant's name.")
CHECKS["C11"]["text"] += (" Import statements that are executed more than once (in a function / method called several times, a loop body, both arms of an if, a nested function, a function and"
                          " the module level in either order, two functions; 4 import forms / spellings): one initialisation, one shared instance. Module names that are suffixes / prefixes of one"
                          " another and of `main` (four naming schemes over the graphs with n <= 4).")
CHECKS["C12"]["text"] += (" Carrier `map lookup` (present / absent key).")
CHECKS["C13"]["text"] += (" join also with its result bound to a name (one more alias of the receiver) and with a call chained onto its result.")
CHECKS["C14"]["text"] += (" Pairs: neighbouring cells of the tables evaluated one after the other in ONE program (each in its own function); the second must print and end as it does alone.")
CHECKS["C16"]["text"] += (" (h) type x use: a variable of each of 16 types, declared directly and through a `type` alias, in 40 uses (index with every literal / variable kind, index stores, call,"
                          " field, operators, or / get, loop bound and step, condition, literals, methods).")
CHECKS["C17"]["text"] += (" Failures raised WHILE AN IMPORTED MODULE RUNS ITS TOP LEVEL: 5 kinds x 0..2 functions below the module's top level x import form x import statement at module level /"
                          " in a block / in a function x 1 or 2 modules between entry and failing module; the trace lists those functions, each module's top level and the function holding the import.")
CHECKS["C19"]["text"] += (" Argument vectors of different lengths (0 .. 3) in sequences of 2 and 3 calls, alternating between the two libraries, the first call returning a value or none.")

# ---- additions made in rounds 9 to 11 ----
CHECKS["C01"]["text"] += (" Two loops one after the other at DIFFERENT block depths (7 wrappings), every counter kind (anonymous / fresh / colliding), to / through, stepped, both orders, in a function and at module level"
                          " (2 940 programs): what one loop leaves behind meets the names the next loop makes for itself.")
CHECKS["C09"]["text"] += (" The loop-sequence layer of C01 (two loops at different block depths) is part of the quick corpus.")
CHECKS["C02"]["text"] += (" Return paths that hinge on literal conditions. The catalogue gained 30 entries: single-name unpacking, writes to a character of a string, a function held in a field called through an alias"
                          " of the class (alias of alias, parameter of alias type, optional of the class), wide integer literals as operands next to a variable, unary minus through an alias, and present optionals handed out by"
                          " built-ins as right operand of an op-assignment (variable / element / field target), as receiver of a method call and as operand of && / || / ^.")
CHECKS["C05"]["text"] += (" The non-finite doubles inf, -inf and NaN (no literal denotes them: they are built at run time) against one another and against three values of every kind under all 16 operators; the most"
                          " negative values also as literal expressions.")
CHECKS["C06"]["text"] += (" HALF-FOLDED rendering: one operand of the operator is a variable, the other stays a literal (both sides), over every second leaf plus five wide integer literals (thorough: all leaves);"
                          " it must behave as the rendering over two variables.")
CHECKS["C07"]["text"] += (" Names of its own that equal a captured name: a loop counter (before / after an inner closure, inside a block, followed by modify), a block local, a typed local, a parameter (read, modify in a nested"
                          " block) and a local assigned from an inner closure that reads the captured variable - 13 bodies x owner alive / escaped / module, the captured variable observed through a second closure.")
CHECKS["C08"]["text"] += (" A field named like a variable of the enclosing scope: 8 member forms (method reads / modifies the bare name, has a local or a parameter of that name, a closure in a method, a sibling method, the"
                          " constructor) x owner module / function / escaped, two objects; the Self-chain shape of the same-named-classes family is rendered through a variable (it used to be refused by the compiler: vacuity guards per shape).")
CHECKS["C10"]["text"] += (" Optional constants written through `get` / `or` (five path forms), a module reached through a second name (`ma = mod; ma.x = ..`), a class alias declared with the constant's name, `modify` after a"
                          " local shadow in a nested block, unpacking onto several existing names (two constants, swapped, with a fresh name, constant + variable), a constant bound twice by one unpacking declaration.")
CHECKS["C11"]["text"] += (" Importer variables named like the module's state.")
CHECKS["C12"]["text"] += (" `?=` onto a target that holds a present value; payload bool (the present value is false); a refused `T? == T` for int / str / bool is a violation.")
CHECKS["C13"]["text"] += (" map / filter with callbacks that clear / shorten / extend the list being iterated; index_of(nil), nil == element; elements in the BOXED form a built-in hands out (a hidden state component: histories"
                          " that store the boxed form are not merged with those that store the plain value); map keys read out of a list (`m[kl[0]] = v`, op=, read); seven scenarios of writes through references into the same container.")
CHECKS["C14"]["text"] += (" Conversions and abs of the non-finite doubles; bigint indices into a string (in range, at the length, +-2^64 and neighbours).")
CHECKS["C16"]["text"] += (" The type x use matrix has 52 uses: 12 more put the value (plain, negated, not-ed, indexed, unwrapped) as a LATER argument of a call / later element of a list or map literal.")
CHECKS["C17"]["text"] += (" Further kinds: MIN / -1 (int, bigint, op-assignment, element), abs of the minimum, radix outside 2 ..= 36 (both parsers, below and above), negative repetition count; loops nested in if arms in the history.")
CHECKS["C02"]["text"] += (" Results of the built-in methods: typeof of the call vs the kind of the value for 563 in-domain cells of C14's tables (every numeric method on three receivers per kind, every string method on four"
                          " receivers); `==` between optionals of types that have no `==`.")
CHECKS["C03"]["text"] += (" A from-loop counter that reuses a variable of another kind (wider step, wider start, str / bool variable).")
CHECKS["C06"]["text"] += (" The half-folded layer also has the negated wide literals -2147483648, -2147483649, -2^40.")
CHECKS["C07"]["text"] += (" `modify` with a value equal to the held one but another entity (second closure of the same function, list with the same elements, empty list, object with equal fields, the same scalar).")
CHECKS["C12"]["text"] += (" Present optionals in the BOXED form of eight built-ins (bool, str, int, float, byte, bigint payloads) compared with themselves, with another box, with plain values on either side, with nil, in a"
                          " condition, through variables of optional type and through `or`.")
CHECKS["C13"]["text"] += (" Boxed string elements / map values must print like plain ones.")
CHECKS["C16"]["text"] += (" Unclosed towers (list, parenthesis, call, map, index; 3 .. 40 levels) followed by two values without a separator: a failing parse must not retry every enclosing level.")
CHECKS["C16"]["text"] += (" Since the repair of `value` in grammar.pest the quick tier takes every 6th / 8th derivation of its two largest grammar layers (k <= 3 at module level + rotating host; k <= 4 expressions in a method); the thorough tier enumerates all of them.")
CHECKS["C16"]["text"] += (" The type x use matrix now has 19 types: three fixed-shape lists (empty, pair, nested empty) declared const without an annotation.")
