HOOK_COMMITS = []
NOTES = "All checks: bounded exhaustive exploration driving the real mscript CLI built from /repo's working tree (dev profile, --cfg mscript_verif). Exit 0 = held, 1 = VIOLATION lines, 2 = machinery problem. Known findings: /verif/known_findings.json."
NOT_CLAIMED = {}
ENGINES = [
 {"name": "mcheck", "path": "/verif/mcheck", "serves_properties": ["C20"], "kind_free_text": "Python explicit-state / bounded-exhaustive explorer over the real CLI (layers, dedup, replay, known findings)"},
]
CHECKS["C20"] = dict(
 category="exploration",
 technique="bounded exhaustive enumeration of directory-tree configurations (explicit-state, every cell executed on the real CLI)",
 text="Every directory tree with <=3 (quick) / <=4 (thorough) top-level entries from an 11-name alphabet x 5 entry kinds, plus all-names trees and 4 invocation forms, is built on tmpfs, `mscript clean` is run on it and the complete before/after snapshot is compared: only top-level non-directory entries with extension mmm may disappear, nothing else may change; on exit 0 all of them are gone and the reported count is exact.",
 note="Linux tmpfs semantics only; names outside the 11-name alphabet and trees with more than 4 freely chosen top-level entries (beyond the 8/11-entry rotating trees) are not explored.",
 design_ref="DESIGN.md section 4, C20")
