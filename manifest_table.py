HOOK_COMMITS = ["3a5194c", "1c65365", "5e0ddb3"]
NOTES = "All checks: bounded exhaustive exploration driving the real mscript CLI built from /repo's working tree (dev profile, --cfg mscript_verif). Exit 0 = held, 1 = VIOLATION lines, 2 = machinery problem. Known findings: /verif/known_findings.json."
NOT_CLAIMED = {}
SERVED = []
ENGINES = [
 {"name": "mcheck", "path": "/verif/mcheck", "serves_properties": SERVED, "kind_free_text": "Python explicit-state / bounded-exhaustive explorer over the real CLI (layers, dedup, replay, known findings)"},
]
CHECKS["C20"] = dict(
 category="exploration",
 technique="bounded exhaustive enumeration of directory-tree configurations (explicit-state, every cell executed on the real CLI)",
 text="Every directory tree with <=3 (quick) / <=4 (thorough) top-level entries from an 11-name alphabet x 5 entry kinds, plus all-names trees and 4 invocation forms, is built on tmpfs, `mscript clean` is run on it and the complete before/after snapshot is compared: only top-level non-directory entries with extension mmm may disappear, nothing else may change; on exit 0 all of them are gone and the reported count is exact.",
 note="Linux tmpfs semantics only; names outside the 11-name alphabet and trees with more than 4 freely chosen top-level entries (beyond the 8/11-entry rotating trees) are not explored.",
 design_ref="DESIGN.md section 4, C20")

CHECKS["C19"] = dict(
 category="exploration",
 technique="bounded exhaustive enumeration of argument vectors x return forms x faults (every cell executed: hand-assembled bytecode calling a probe dylib through the real interpreter)",
 text="All argument vectors of length 0..4 (quick) / 0..6 (thorough) over int, bigint, float, byte, bool, str x probe functions echo (renders kinds+values it received, in order), last (returns its last argument: kind-preserving result push, checked with hook H2), nothing, fail (raise_error!), missing library, missing symbol, and two chained foreign calls. Oracle: exact rendering / value / sentinel line; for faults exit 1 with banner, message carried, sentinel never printed.",
 note="Probe is a Rust dylib built against /repo/bytecode in the same target dir. Values owning GC memory are outside the alphabet; one or two values per kind.",
 design_ref="DESIGN.md section 4, C19")
