#!/bin/sh
# setup_cmd: first build of /repo (hooks on) and of the FFI probe into /verif/.build; offline.
cd "$(dirname "$0")" || exit 2
export CARGO_NET_OFFLINE=true
exec /usr/bin/env python3 - <<'PY'
import sys
sys.path.insert(0, '.')
from mcheck.core import build
import os
build.build(probe=os.path.isdir(build.PROBE_DIR), quiet=False)
print("setup ok")
PY
