//! Probe library A for property C19.
const TAG: &str = "";
include!("body.rs");
