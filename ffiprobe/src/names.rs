// generated: functions whose names are prefixes of one another (lengths 1, 2, 15, 16, 17, 31, 32, 33, 63, 64, 65, 127, 128, 129, 255, 256, 300); each returns its own name,
// so a lookup that truncates or extends the name it was asked for calls an observably different function
macro_rules! named { ($($n:ident)*) => { $( #[no_mangle] pub fn $n(_args: &[P]) -> FFIReturnValue { FFIReturnValue::Value(P::Str(format!("{}{}", TAG, stringify!($n)))) } )* } }
named! {
    s
    sa
    sabcdefghijabcd
    sabcdefghijabcde
    sabcdefghijabcdef
    sabcdefghijabcdefghijabcdefghij
    sabcdefghijabcdefghijabcdefghija
    sabcdefghijabcdefghijabcdefghijab
    sabcdefghijabcdefghijabcdefghijabcdefghijabcdefghijabcdefghijab
    sabcdefghijabcdefghijabcdefghijabcdefghijabcdefghijabcdefghijabc
    sabcdefghijabcdefghijabcdefghijabcdefghijabcdefghijabcdefghijabcd
    sabcdefghijabcdefghijabcdefghijabcdefghijabcdefghijabcdefghijabcdefghijabcdefghijabcdefghijabcdefghijabcdefghijabcdefghijabcdef
    sabcdefghijabcdefghijabcdefghijabcdefghijabcdefghijabcdefghijabcdefghijabcdefghijabcdefghijabcdefghijabcdefghijabcdefghijabcdefg
    sabcdefghijabcdefghijabcdefghijabcdefghijabcdefghijabcdefghijabcdefghijabcdefghijabcdefghijabcdefghijabcdefghijabcdefghijabcdefgh
    sabcdefghijabcdefghijabcdefghijabcdefghijabcdefghijabcdefghijabcdefghijabcdefghijabcdefghijabcdefghijabcdefghijabcdefghijabcdefghijabcdefghijabcdefghijabcdefghijabcdefghijabcdefghijabcdefghijabcdefghijabcdefghijabcdefghijabcdefghijabcdefghijabcdefghijabcd
    sabcdefghijabcdefghijabcdefghijabcdefghijabcdefghijabcdefghijabcdefghijabcdefghijabcdefghijabcdefghijabcdefghijabcdefghijabcdefghijabcdefghijabcdefghijabcdefghijabcdefghijabcdefghijabcdefghijabcdefghijabcdefghijabcdefghijabcdefghijabcdefghijabcdefghijabcde
    sabcdefghijabcdefghijabcdefghijabcdefghijabcdefghijabcdefghijabcdefghijabcdefghijabcdefghijabcdefghijabcdefghijabcdefghijabcdefghijabcdefghijabcdefghijabcdefghijabcdefghijabcdefghijabcdefghijabcdefghijabcdefghijabcdefghijabcdefghijabcdefghijabcdefghijabcdefghijabcdefghijabcdefghijabcdefghijabcdefghi
}
