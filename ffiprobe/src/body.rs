// Probe functions for property C19 (documented FFI signature); included by probe libraries A and B.
use bytecode::BytecodePrimitive as P;
use bytecode::FFIReturnValue;
use bytecode::raise_error;

fn render(p: &P) -> String {
    match p {
        P::Int(x) => format!("int:{x}"),
        P::BigInt(x) => format!("bigint:{x}"),
        P::Float(x) => format!("float:{x:?}"),
        P::Byte(x) => format!("byte:{x}"),
        P::Bool(x) => format!("bool:{x}"),
        P::Str(x) => format!("str:{x:?}"),
        P::Vector(_) => format!("list:{p}"),
        P::Optional(_) => format!("optional:{p}"),
        _ => format!("other:{p}"),
    }
}

/// Returns a string rendering of the kinds and values received, in order.
#[no_mangle]
pub fn echo(args: &[P]) -> FFIReturnValue {
    let parts: Vec<String> = args.iter().map(render).collect();
    FFIReturnValue::Value(P::Str(format!("{}[{}]", TAG, parts.join(";"))))
}

/// Returns its last argument unchanged (kind-preserving result push).
#[no_mangle]
pub fn last(args: &[P]) -> FFIReturnValue {
    match args.last() {
        Some(x) => FFIReturnValue::Value(x.clone()),
        None => FFIReturnValue::Value(P::Int(-1)),
    }
}

/// Returns no value.
#[no_mangle]
pub fn nothing(args: &[P]) -> FFIReturnValue {
    let _ = args;
    FFIReturnValue::NoValue
}

/// Raises an error carrying a message that names the argument count.
#[no_mangle]
pub fn fail(args: &[P]) -> FFIReturnValue {
    if args.len() > 100 {
        return FFIReturnValue::NoValue;
    }
    raise_error!("probe-raised-error")
}

/// Raises an error whose message is its first argument (a string; anything else gives the empty message).
#[no_mangle]
pub fn fail_with(args: &[P]) -> FFIReturnValue {
    let m: String = match args.first() {
        Some(P::Str(s)) => s.clone(),
        _ => String::new(),
    };
    raise_error!(m)
}

include!("names.rs");
