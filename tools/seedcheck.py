#!/usr/bin/env python3
"""Validate a seeded change produced by a sub-agent and run checks against it.
usage: seedcheck.py <worktree> <seed-id> <Cxx> [<Cxx> ...]   (add --keep to store it under /verif/seeded/<seed-id>)
Steps: copy <worktree>/_seed; apply patch.diff to /repo; run the 193-test baseline; build hooks-on binary; run demo.sh against
mutated and (after revert) unmutated binary; run the listed checks (quick) on the mutated tree; revert /repo; restore evidence."""
import json, os, shutil, subprocess, sys
import fcntl as _fcntl
_lockf = open("/dev/shm/mscript-verif-repo.lock", "a+")
_fcntl.flock(_lockf, _fcntl.LOCK_EX)      # held until this tool exits: /repo is patched in between
import os as _os
_os.environ["MSCRIPT_VERIF_LOCK_HELD"] = "1"
args = [a for a in sys.argv[1:] if not a.startswith("--")]
keep = "--keep" in sys.argv
thorough = "--thorough" in sys.argv
wt, sid, checks = args[0], args[1], args[2:]
seed = os.path.join(wt, "_seed")
tmp = f"/tmp/seed-{sid}"
shutil.rmtree(tmp, ignore_errors=True)
shutil.copytree(seed, tmp)
patch = os.path.join(tmp, "patch.diff")
def sh(cmd, **kw):
    return subprocess.run(cmd, shell=True, capture_output=True, text=True, **kw)
assert sh("git -C /repo status --porcelain").stdout.strip() == "", "repo dirty"
BIN = "/verif/.build/repo/debug/mscript"
out = {"seed": sid, "checks": {}}
r = sh(f"git -C /repo apply --whitespace=nowarn {patch}")
if r.returncode != 0:
    print("PATCH DOES NOT APPLY:", r.stderr); sys.exit(2)
try:
    r = sh("cd /repo && cargo test --workspace --no-fail-fast --offline 2>&1 | grep -E '^test result' ")
    passed = sum(int(l.split("ok. ")[1].split(" passed")[0]) for l in r.stdout.splitlines() if "ok. " in l)
    failed = "FAILED" in r.stdout or "failed;" in r.stdout and any(" 0 failed" not in l for l in r.stdout.splitlines())
    out["baseline"] = f"{passed} passed" + (" SOME FAILED" if failed else "")
    print("baseline:", out["baseline"])
    b = sh("cd /verif && python3 -c \"from mcheck.core import build; build.build(probe=True)\"")
    if b.returncode != 0:
        print("BUILD FAILED", b.stdout[-2000:]); raise SystemExit(2)
    d = sh(f"cd {tmp} && RUST_BACKTRACE=0 sh ./demo.sh {BIN}")
    out["demo_mutated_exit"] = d.returncode
    print("demo on mutated binary: exit", d.returncode)
    for c in checks:
        tier = "thorough" if thorough else "quick"
        r = subprocess.run(["./check", c, tier], cwd="/verif", capture_output=True, text=True)
        v = [l for l in r.stdout.splitlines() if l.startswith("VIOLATION")]
        out["checks"][c] = {"exit": r.returncode, "violation_lines": len(v), "first": [x[:400] for x in v[:3]], "summary": r.stdout.strip().splitlines()[-1][:400]}
        print(f"{c}: exit={r.returncode} violations={len(v)}")
        for l in v[:2]:
            print("    ", l[:330])
finally:
    sh("git -C /repo checkout -- . && git -C /repo clean -fdq")
    sh("git -C /verif checkout -- evidence")
b = sh("cd /verif && python3 -c \"from mcheck.core import build; build.build(probe=True)\"")
d = sh(f"cd {tmp} && RUST_BACKTRACE=0 sh ./demo.sh {BIN}")
out["demo_unmutated_exit"] = d.returncode
print("demo on unmutated binary: exit", d.returncode)
if keep:
    dst = f"/verif/seeded/{sid}"
    shutil.rmtree(dst, ignore_errors=True)
    os.makedirs(os.path.dirname(dst), exist_ok=True)
    shutil.copytree(tmp, dst)
    meta = {}
    try:
        meta = json.load(open(os.path.join(dst, "meta.json")))
    except Exception as e:
        meta = {"note": f"agent meta unreadable: {e}"}
    meta["validation"] = out
    json.dump(meta, open(os.path.join(dst, "meta.json"), "w"), indent=1)
    print("kept in", dst)
shutil.rmtree(tmp, ignore_errors=True)
