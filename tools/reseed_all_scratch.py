#!/usr/bin/env python3
"""Regression suite for the checks themselves, run against scratch copies of the repository (tools/scratchcheck.py) so that /repo stays free:
replay every validated seeded change against the checks recorded in seeded/CATCHERS.json and report any seed a check no longer catches.
usage: reseed_all_scratch.py <slot> [--shard i/n] [seed-id-prefix ...]     exit 0 = every seed still caught"""
import json, os, subprocess, sys
args = [a for a in sys.argv[1:] if not a.startswith("--")]
slot, want = args[0], args[1:]
shard = (0, 1)
if "--shard" in sys.argv:
    a, b = sys.argv[sys.argv.index("--shard") + 1].split("/")
    shard = (int(a), int(b))
    want = [w for w in want if "/" not in w]
catchers = json.load(open("/verif/seeded/CATCHERS.json"))
escaped = []
todo = [(sid, ch) for k, (sid, ch) in enumerate(sorted(catchers.items())) if k % shard[1] == shard[0] and (not want or any(sid.startswith(w) for w in want))]
for sid, checks in todo:
    res = f"/tmp/scr-{slot}-reseed.json"
    if os.path.exists(res):
        os.unlink(res)
    subprocess.run([sys.executable, "/verif/tools/scratchcheck.py", slot, f"/verif/seeded/{sid}/patch.diff", res] + checks, capture_output=True, text=True)
    try:
        out = json.load(open(res))
    except Exception:
        out = {"applies": False}
    if out.get("applies") is False:
        print(f"{sid}: PATCH NO LONGER APPLIES ({(out.get('error') or '')[:100]})", flush=True)
        escaped.append((sid, "patch"))
        continue
    for c in checks:
        r = out["checks"].get(c, {})
        ok = r.get("exit") == 1 and r.get("violation_lines", 0) > 0
        print(f"{sid}: {c} exit={r.get('exit')} violations={r.get('violation_lines')} {'caught' if ok else 'ESCAPED'}", flush=True)
        if not ok:
            escaped.append((sid, c))
print(f"seeds={len(todo)} escaped={escaped}")
sys.exit(1 if escaped else 0)
