#!/usr/bin/env python3
"""Validate a seeded change produced by a sub-agent in a SCRATCH SLOT (tools/scratchcheck.py), leaving /repo and /verif/evidence alone.
usage: seedcheck_scratch.py <slot> <agent-worktree> <seed-id> [--keep] [--tier quick|thorough] <Cxx> [<Cxx> ...]
Steps: copy <agent-worktree>/_seed; scratchcheck (patch applies to HEAD, 193-test baseline with the patch, hooks-on build of the patched tree, the
listed checks against it); demo.sh against the patched binary of the slot and against the unpatched binary of /verif/.build; with --keep the
seed is stored under /verif/seeded/<seed-id> with the validation record in meta.json."""
import json, os, shutil, subprocess, sys

args = [a for a in sys.argv[1:] if not a.startswith("--")]
keep = "--keep" in sys.argv
tier = "quick"
if "--tier" in sys.argv:
    tier = sys.argv[sys.argv.index("--tier") + 1]
    args = [a for a in args if a != tier]
slot, wt, sid, checks = args[0], args[1], args[2], args[3:]
tmp = f"/tmp/seed-{sid}"
shutil.rmtree(tmp, ignore_errors=True)
shutil.copytree(os.path.join(wt, "_seed"), tmp, ignore=shutil.ignore_patterns("target", "*.so", "*.rlib", "*.rmeta", "*.d", "*.o"), symlinks=True)
patch = os.path.join(tmp, "patch.diff")
res = f"/tmp/scr-{slot}-seed.json"
if os.path.exists(res):
    os.unlink(res)
subprocess.run([sys.executable, "/verif/tools/scratchcheck.py", slot, patch, res, "--baseline", "--tier", tier] + checks)
out = json.load(open(res)) if os.path.exists(res) else {"applies": False}
out["seed"] = sid
if out.get("applies") is False:
    print("PATCH DOES NOT APPLY"); sys.exit(2)
mut = f"/tmp/scr-{slot}-build/repo/debug/mscript"
clean = "/verif/.build/repo/debug/mscript"
env = dict(os.environ, RUST_BACKTRACE="0")
for name, b in (("demo_mutated_exit", mut), ("demo_unmutated_exit", clean)):
    shutil.rmtree(tmp + "-run", ignore_errors=True)
    shutil.copytree(tmp, tmp + "-run", symlinks=True)
    d = subprocess.run(["sh", "./demo.sh", b], cwd=tmp + "-run", capture_output=True, text=True, env=env)
    out[name] = d.returncode
    print(f"{sid}: {name} = {d.returncode}", flush=True)
shutil.rmtree(tmp + "-run", ignore_errors=True)
caught = [c for c in checks if out["checks"].get(c, {}).get("exit") == 1]
print(f"{sid}: baseline {out.get('baseline')}; caught by {caught or 'NONE'}", flush=True)
if keep:
    dst = f"/verif/seeded/{sid}"
    shutil.rmtree(dst, ignore_errors=True)
    shutil.copytree(tmp, dst, symlinks=True)
    try:
        meta = json.load(open(os.path.join(dst, "meta.json")))
    except Exception as e:
        meta = {"note": f"agent meta unreadable: {e}"}
    meta["validation"] = out
    json.dump(meta, open(os.path.join(dst, "meta.json"), "w"), indent=1)
    print("kept in", dst)
shutil.rmtree(tmp, ignore_errors=True)
