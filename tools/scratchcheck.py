#!/usr/bin/env python3
"""Run checks against a PATCHED SCRATCH COPY of the repository, leaving /repo and /verif/evidence alone (so that several patches can be
examined in the background while /repo is being worked on).
usage: scratchcheck.py <slot> <patch.diff> <result.json> [--baseline] [--tier quick|thorough] <Cxx> [<Cxx> ...]
The slot is a git worktree of /repo's HEAD at /tmp/scr-<slot> (created on first use, reset to HEAD every time) with its own cargo target
directories; MSCRIPT_REPO / MSCRIPT_VERIF_BUILD / MSCRIPT_VERIF_OUT point the checks at it."""
import json, os, subprocess, sys, time

args = [a for a in sys.argv[1:] if not a.startswith("--")]
slot, patch, result = args[0], args[1], args[2]
checks = args[3:]
tier = "quick"
if "--tier" in sys.argv:
    tier = sys.argv[sys.argv.index("--tier") + 1]
    checks = [c for c in checks if c != tier]
wt = f"/tmp/scr-{slot}"


def sh(cmd, **kw):
    return subprocess.run(cmd, shell=True, capture_output=True, text=True, **kw)


if not os.path.isdir(wt):
    r = sh(f"git -C /repo worktree add -q --detach {wt} HEAD")
    assert r.returncode == 0, r.stderr
else:
    head = sh("git -C /repo rev-parse HEAD").stdout.strip()
    sh(f"git -C {wt} checkout -q -- . && git -C {wt} clean -fdq -e target && git -C {wt} checkout -q --detach {head}")
out = {"patch": patch, "checks": {}, "tier": tier}
r = sh(f"git -C {wt} apply --whitespace=nowarn {patch}")
if r.returncode != 0:
    out["applies"] = False
    out["error"] = r.stderr[:400]
    json.dump(out, open(result, "w"), indent=1)
    print(f"{slot}: PATCH DOES NOT APPLY: {r.stderr[:200]}")
    sys.exit(2)
env = dict(os.environ, MSCRIPT_REPO=wt, MSCRIPT_VERIF_BUILD=f"/tmp/scr-{slot}-build", MSCRIPT_VERIF_OUT=f"/tmp/scr-{slot}-out", CARGO_NET_OFFLINE="true")
try:
    if "--baseline" in sys.argv:
        r = sh(f"cd {wt} && cargo test --workspace --no-fail-fast --offline 2>&1 | grep -E '^test result' ", env=dict(os.environ, CARGO_NET_OFFLINE="true"))
        passed = sum(int(l.split("ok. ")[1].split(" passed")[0]) for l in r.stdout.splitlines() if "ok. " in l)
        failed = sum(int(l.split("; ")[1].split(" failed")[0]) for l in r.stdout.splitlines() if " failed" in l)
        out["baseline"] = f"{passed} passed, {failed} failed"
        print(f"{slot}: baseline {out['baseline']}", flush=True)
    for c in checks:
        t0 = time.time()
        r = subprocess.run(["./check", c, tier], cwd="/verif", capture_output=True, text=True, env=env)
        v = [l for l in r.stdout.splitlines() if l.startswith("VIOLATION")]
        mach = [l for l in r.stdout.splitlines() if l.startswith("MACHINERY")]
        out["checks"][c] = {"exit": r.returncode, "violation_lines": len(v), "first": [x[:500] for x in v[:4]], "machinery": mach[:3],
                            "summary": (r.stdout.strip().splitlines() or [""])[-1][:400], "wall_s": round(time.time() - t0, 1)}
        flag = "" if r.returncode == 0 else "   <<<<<< ALARM"
        print(f"{slot}: {os.path.basename(os.path.dirname(patch)) or patch}: {c} exit={r.returncode} violations={len(v)}{flag}", flush=True)
        for l in (v + mach)[:2]:
            print("      ", l[:300], flush=True)
finally:
    sh(f"git -C {wt} checkout -q -- . && git -C {wt} clean -fdq -e target")
    json.dump(out, open(result, "w"), indent=1)
