#!/bin/sh
# Source-coverage survey of the alphabets: builds /repo with hooks on AND -C instrument-coverage (nightly toolchain, own target dir),
# runs the quick tier of the listed checks against that binary (evidence and replays go to a scratch directory) and writes per-file
# line coverage plus the list of never-executed functions.  A survey tool only - it decides nothing and no registered check uses it.
# usage: tools/coverage.sh <outdir> [Cxx ...]
out=${1:-/tmp/cov}; shift
checks=${*:-C01 C02 C03 C04 C05 C06 C07 C08 C09 C10 C11 C12 C13 C14 C15 C17 C18 C19 C20}
cd "$(dirname "$0")/.." || exit 2
mkdir -p "$out" /dev/shm/covprof
export MSCRIPT_VERIF_BUILD=$out/build MSCRIPT_VERIF_OUT=$out/out RUSTUP_TOOLCHAIN=nightly
export MSCRIPT_VERIF_EXTRA_RUSTFLAGS="-C instrument-coverage"
export MSCRIPT_VERIF_COV_PROFILE=/dev/shm/covprof/m-%8m.profraw
export LLVM_PROFILE_FILE=$out/buildprof/%p.profraw      # build scripts and proc macros of the instrumented build write theirs here, not into /repo
for c in $checks; do
  ./check $c quick > "$out/$c.log" 2>&1; echo "$c exit=$?"
done
T=$(dirname "$(rustup which --toolchain nightly rustc)")/../lib/rustlib/x86_64-unknown-linux-gnu/bin
"$T/llvm-profdata" merge -sparse /dev/shm/covprof/*.profraw -o "$out/all.profdata" || exit 2
"$T/llvm-cov" report "$out/build/repo/debug/mscript" -instr-profile="$out/all.profdata" --ignore-filename-regex='/.cargo/|/rustc/' > "$out/report.txt"
"$T/llvm-cov" show "$out/build/repo/debug/mscript" -instr-profile="$out/all.profdata" --ignore-filename-regex='/.cargo/|/rustc/' --show-line-counts-or-regions > "$out/show.txt"
tail -3 "$out/report.txt"
