#!/usr/bin/env python3
"""Regression suite for the checks themselves: replay every validated seeded change against the checks that are recorded
(seeded/CATCHERS.json) as catching it in the quick tier, and report any seed that a check no longer catches.
usage: reseed_all.py [seed-id-prefix ...]      exit 0 = every seed still caught, 1 = some seed escaped
/repo is patched and restored for each seed; the tool holds the repo lock for its whole run."""
import fcntl, json, os, subprocess, sys, time

lockf = open("/dev/shm/mscript-verif-repo.lock", "a+")
os.environ["MSCRIPT_VERIF_LOCK_HELD"] = "1"      # the lock is taken per seed (below), so that a background sweep can build in between


def sh(cmd):
    return subprocess.run(cmd, shell=True, capture_output=True, text=True)


catchers = json.load(open("/verif/seeded/CATCHERS.json"))
want = sys.argv[1:]
escaped, t0 = [], time.time()
assert sh("git -C /repo status --porcelain").stdout.strip() == "", "repo dirty"
for sid, checks in sorted(catchers.items()):
    if want and not any(sid.startswith(w) for w in want):
        continue
    patch = f"/verif/seeded/{sid}/patch.diff"
    fcntl.flock(lockf, fcntl.LOCK_EX)
    r = sh(f"git -C /repo apply --whitespace=nowarn {patch}")
    if r.returncode != 0:
        print(f"{sid}: PATCH NO LONGER APPLIES ({r.stderr.strip()[:120]})", flush=True)
        escaped.append((sid, "patch"))
        fcntl.flock(lockf, fcntl.LOCK_UN)
        continue
    try:
        for c in checks:
            r = subprocess.run(["./check", c, "quick"], cwd="/verif", capture_output=True, text=True)
            n = sum(1 for l in r.stdout.splitlines() if l.startswith("VIOLATION"))
            ok = r.returncode == 1 and n > 0
            print(f"{sid}: {c} exit={r.returncode} violations={n} {'caught' if ok else 'ESCAPED'}", flush=True)
            if not ok:
                escaped.append((sid, c))
    finally:
        sh("git -C /repo checkout -- . && git -C /repo clean -fdq")
        fcntl.flock(lockf, fcntl.LOCK_UN)
sh("git -C /verif checkout -- evidence")
sh("cd /verif && python3 -c \"from mcheck.core import build; build.build(probe=True)\"")
print(f"done in {time.time() - t0:.0f}s; escaped: {escaped}")
sys.exit(1 if escaped else 0)
