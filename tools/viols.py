#!/usr/bin/env python3
"""Run a check's cases directly (no confirmation / findings) and print every violation signature grouped.
usage: viols.py <Cxx> <tier> [key1,key2,...]"""
import sys, collections, json, multiprocessing as mp, os
sys.path.insert(0, '/verif')
from mcheck.core import explore, build, driver
from mcheck.main import get_check
c = get_check(sys.argv[1]); tier = sys.argv[2]
keys = sys.argv[3].split(',') if len(sys.argv) > 3 else None
build.build(probe=c.need_probe)
explore._CHECK = c
os.environ["VERIF_TIER_"] = tier
tab = collections.Counter(); ex = {}
with mp.get_context('fork').Pool(16) as p:
    for name, cases in c.layers(tier):
        for case, r in p.imap_unordered(explore._worker, cases, chunksize=16):
            for v in r.get('viol') or []:
                s = v['sig']
                k = tuple((kk, s.get(kk)) for kk in (keys or sorted(s)))
                tab[k] += 1
                ex.setdefault(k, v['what'][:200])
for k, n in sorted(tab.items(), key=lambda kv: -kv[1]):
    print(n, dict(k), '|', ex[k])
driver.cleanup_all()
