#!/usr/bin/env python3
"""Prepare a scratch worktree and a prompt file for a seeding sub-agent.
usage: mkseedprompt.py <Cxx> <round> [<flavour>] [--strict]  -> /tmp/wt-<Cxx>r<round>, /tmp/agent_prompt_<Cxx>r<round>.txt"""
import json, os, subprocess, sys, glob
pid, rnd = sys.argv[1], sys.argv[2]
wt = f"/tmp/wt-{pid}r{rnd}"
subprocess.run(["git", "-C", "/repo", "worktree", "add", "-q", wt, "HEAD"], check=True)
t = open(os.path.join(os.path.dirname(os.path.abspath(__file__)), 'agent_prompt_template.txt')).read()
prop = None
for l in open('/verif/properties.jsonl'):
    p = json.loads(l)
    if p['id'] == pid:
        prop = f"{p['id']} — {p['title']}\n\nSTATEMENT: {p['statement']}\n\nQUANTIFIER: {p['quantifier']['text']}\n\nWHY EXISTING TESTS CANNOT SETTLE IT: {p['why_tests_cant']}\n\nCODE ANCHORS: {', '.join(p['anchors']['files'])}\n"
prior = []
for d in sorted(glob.glob(f'/verif/seeded/{pid}-*')):
    try:
        m = json.load(open(os.path.join(d, 'meta.json')))
        prior.append(f"- {m.get('summary', '')} (needs: {m.get('needs', '')}; files: {m.get('files_changed', '')})")
    except Exception:
        pass
extra = ""
STRICT = "--strict" in sys.argv   # round 9 on: the agent gets the property text and its worktree only, nothing that comes out of /verif
if STRICT:
    sys.argv.remove("--strict")
    prior = []
if prior:
    extra = ("\n\nEARLIER CHANGES OF THIS KIND ALREADY EXIST - produce something DIFFERENT (another file, another mechanism, another part of the "
             "property's statement, other constructs / inputs needed to manifest):\n" + "\n".join(prior) + "\n")
if pid == "C16":
    extra += "\nNOTE: the unchanged compiler already has some crash sites reachable from odd inputs (they are known); your change must introduce a NEW way to crash or hang the compiler on an input that the unchanged compiler handles with a normal diagnostic or success."
if pid == "C19":
    extra += f"\nNOTE: a probe dynamic library is needed to exercise `call_lib`; see the repository's `ffi/` crate for the calling convention; build your own dylib crate inside {wt}/_seed/probe (bytecode = {{ path = \"../../bytecode\" }}, crate-type dylib) with CARGO_TARGET_DIR={wt}/target so that it links the same `bytecode` build as the binary. Bytecode can be written in the human-readable form and run with `mscript execute --transpile x.transpiled.mmm`."
FLAV = {
 "sites": "PREFERRED KIND OF BUG FOR THIS ROUND: two cooperating sites that each look fine alone - e.g. a producer and a consumer of some intermediate datum (an offset, a flag, a register name, a cache key, a length) that silently disagree for one particular combination.",
 "sequence": "PREFERRED KIND OF BUG FOR THIS ROUND: one that needs a MULTI-STEP SEQUENCE to manifest - state left behind by an earlier operation / statement / call / compilation changes what a later one does; a single isolated use must still behave correctly.",
 "boundary": "PREFERRED KIND OF BUG FOR THIS ROUND: one that needs an UNUSUAL INPUT OR BOUNDARY VALUE to manifest (a particular magnitude, sign, length, emptiness, character class, count or position), all ordinary values behaving correctly.",
 "nesting": "PREFERRED KIND OF BUG FOR THIS ROUND: one that needs a PARTICULAR NESTING OR COMBINATION OF CONSTRUCTS (construct A inside / next to construct B, in a particular position of a particular enclosing form) to manifest, each construct on its own behaving correctly.",
}
if len(sys.argv) > 3:
    extra += "\n" + FLAV[sys.argv[3]] + "\n"
open(f"/tmp/agent_prompt_{pid}r{rnd}.txt", "w").write(t.replace('{WT}', wt).replace('{PROP}', prop + extra))
print(wt)
