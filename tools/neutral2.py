#!/usr/bin/env python3
"""Round N2: run checks against the property-preserving changes of one sub-agent in a scratch slot (tools/scratchcheck.py).
usage: neutral2.py <slot> <Cxx> [--all]      reads /tmp/wt-<Cxx>n2/_neutral/{A,B}.diff, stores /verif/neutral/<Cxx>n2-<A|B>/{patch.diff,meta.json}
Checks run: the property's own check and a fixed set of checks that are sensitive to incidental changes of compiler / interpreter / CLI
(C01 C02 C04 C09 C15 C16 C17), or all twenty with --all."""
import json, os, shutil, subprocess, sys
slot, pid = sys.argv[1], sys.argv[2]
RND = os.environ.get("NEUTRAL_ROUND", "2")
wt = f"/tmp/wt-{pid}n{RND}"
sent = ["C01", "C02", "C04", "C09", "C15", "C16", "C17"]
checks = [f"C{i:02d}" for i in range(1, 21)] if "--all" in sys.argv else [pid] + [c for c in sent if c != pid]
try:
    agent = json.load(open(os.path.join(wt, "_neutral", "meta.json")))
except Exception as e:
    agent = {"note": f"agent meta unreadable: {e}"}
for w in ("A", "B"):
    src = os.path.join(wt, "_neutral", f"{w}.diff")
    if not os.path.exists(src):
        print(f"{pid}n{RND}-{w}: no patch"); continue
    dst = f"/verif/neutral/{pid}n{RND}-{w}"
    os.makedirs(dst, exist_ok=True)
    shutil.copy(src, os.path.join(dst, "patch.diff"))
    res = f"/tmp/scr-{slot}-result.json"
    subprocess.run([sys.executable, "/verif/tools/scratchcheck.py", slot, os.path.join(dst, "patch.diff"), res, "--baseline"] + checks)
    out = json.load(open(res)) if os.path.exists(res) else {}
    out["id"] = f"{pid}n{RND}-{w}"; out["property"] = pid; out["agent"] = agent.get(w)
    json.dump(out, open(os.path.join(dst, "meta.json"), "w"), indent=1)
