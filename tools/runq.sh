#!/bin/sh
# usage: runq.sh <queue-file> : runs the command lines of the file one after the other (cwd /verif)
cd /verif || exit 2
while read -r line; do
  [ -z "$line" ] && continue
  eval "$line"
done < "$1"
