#!/usr/bin/env python3
"""Apply one textual mutation to /repo (file, old, new), run checks (quick), optionally the baseline suite, revert.
usage: trymut.py <file> <old> <new> [--tests] <Cxx> [<Cxx> ...]
Never leaves /repo modified."""
import subprocess, sys, os
import fcntl as _fcntl
_lockf = open("/dev/shm/mscript-verif-repo.lock", "a+")
_fcntl.flock(_lockf, _fcntl.LOCK_EX)      # held until this tool exits: /repo is patched in between
import os as _os
_os.environ["MSCRIPT_VERIF_LOCK_HELD"] = "1"
args = sys.argv[1:]
f, old, new = args[0], args[1], args[2]
rest = args[3:]
tests = "--tests" in rest
checks = [a for a in rest if a != "--tests"]
p = os.path.join("/repo", f)
s = open(p).read()
if s.count(old) != 1:
    print(f"pattern occurs {s.count(old)} times in {f}"); sys.exit(2)
assert subprocess.run(["git", "-C", "/repo", "status", "--porcelain"], capture_output=True, text=True).stdout.strip() == "", "repo dirty"
try:
    open(p, "w").write(s.replace(old, new))
    if tests:
        r = subprocess.run("cd /repo && cargo test --workspace --no-fail-fast --offline 2>&1 | grep -E '^test result|FAILED|failed|error' | head -8", shell=True, capture_output=True, text=True)
        print("BASELINE:", r.stdout.strip().replace("\n", " | "))
    for c in checks:
        r = subprocess.run(["./check", c, "quick"], cwd="/verif", capture_output=True, text=True)
        lines = r.stdout.strip().split("\n")
        v = [l for l in lines if l.startswith("VIOLATION")]
        print(f"{c}: exit={r.returncode} violations={len(v)}")
        for l in v[:3]:
            print("   ", l[:300])
        print("   ", lines[-1][:300])
finally:
    subprocess.run(["git", "-C", "/repo", "checkout", "--", "."])
    # evidence files were rewritten by mutated runs: restore them from git
    subprocess.run(["git", "-C", "/verif", "checkout", "--", "evidence"], capture_output=True)
