#!/bin/sh
# run every thorough tier once, sequentially; summary lines only
cd "$(dirname "$0")/.." || exit 2
for c in C20 C19 C10 C03 C02 C14 C17 C05 C12 C07 C11 C06 C04 C18 C13 C08 C15 C01 C09 C16; do
  echo "=== $c thorough $(date +%H:%M:%S)"
  out=$(./check $c thorough 2>&1); rc=$?
  printf '%s\n' "$out" | grep -A14 -E "^\[C|VIOLATION|MACHINERY|KNOWN|NOTE" | cut -c1-400
  echo "exit=$rc"
done
