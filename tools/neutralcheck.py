#!/usr/bin/env python3
"""Run the checks against a property-PRESERVING change produced by a sub-agent (false-alarm test of the machinery).
usage: neutralcheck.py <worktree> <id> [A|B ...] [--checks C01,C02,...]
For each of <worktree>/_neutral/{A,B}.diff: apply to /repo, run the 193-test baseline, run the quick tier of every check (or the
listed ones), revert /repo, restore evidence/.  Results and the patch are stored under /verif/neutral/<id>-<A|B>/."""
import json, os, shutil, subprocess, sys, time
import fcntl
lockf = open("/dev/shm/mscript-verif-repo.lock", "a+")
fcntl.flock(lockf, fcntl.LOCK_EX)
os.environ["MSCRIPT_VERIF_LOCK_HELD"] = "1"
args = [a for a in sys.argv[1:] if not a.startswith("--")]
wt, nid = args[0], args[1]
which = args[2:] or ["A", "B"]
checks = [f"C{i:02d}" for i in range(1, 21)]
for i, a in enumerate(sys.argv):
    if a == "--checks":
        checks = sys.argv[i + 1].split(",")
which = [w for w in which if w in ("A", "B")]


def sh(cmd):
    return subprocess.run(cmd, shell=True, capture_output=True, text=True)


assert sh("git -C /repo status --porcelain").stdout.strip() == "", "repo dirty"
try:
    agent_meta = json.load(open(os.path.join(wt, "_neutral", "meta.json")))
except Exception as e:
    agent_meta = {"note": f"agent meta unreadable: {e}"}
for w in which:
    src = os.path.join(wt, "_neutral", f"{w}.diff")
    dst = f"/verif/neutral/{nid}-{w}"
    os.makedirs(dst, exist_ok=True)
    shutil.copy(src, os.path.join(dst, "patch.diff"))
    out = {"id": f"{nid}-{w}", "property": agent_meta.get("property"), "agent": agent_meta.get(w), "checks": {}}
    if "--merge" in sys.argv and os.path.exists(os.path.join(dst, "meta.json")):
        out = json.load(open(os.path.join(dst, "meta.json")))          # re-run of some checks after a correction of the machinery
    r = sh(f"git -C /repo apply --whitespace=nowarn {dst}/patch.diff")
    if r.returncode != 0:
        print(f"{nid}-{w}: PATCH DOES NOT APPLY: {r.stderr[:300]}")
        out["applies"] = False
        json.dump(out, open(os.path.join(dst, "meta.json"), "w"), indent=1)
        continue
    t0 = time.time()
    try:
        if "--merge" not in sys.argv:
            r = sh("cd /repo && cargo test --workspace --no-fail-fast --offline 2>&1 | grep -E '^test result' ")
            passed = sum(int(l.split("ok. ")[1].split(" passed")[0]) for l in r.stdout.splitlines() if "ok. " in l)
            failed = sum(int(l.split("; ")[1].split(" failed")[0]) for l in r.stdout.splitlines() if " failed" in l)
            out["baseline"] = f"{passed} passed, {failed} failed"
            print(f"{nid}-{w}: baseline {out['baseline']}", flush=True)
        for c in checks:
            r = subprocess.run(["./check", c, "quick"], cwd="/verif", capture_output=True, text=True)
            v = [l for l in r.stdout.splitlines() if l.startswith("VIOLATION")]
            mach = [l for l in r.stdout.splitlines() if l.startswith("MACHINERY")]
            out["checks"][c] = {"exit": r.returncode, "violation_lines": len(v), "first": [x[:500] for x in v[:4]], "machinery": mach[:3],
                                "summary": (r.stdout.strip().splitlines() or [""])[-1][:400]}
            flag = "" if r.returncode == 0 else "   <<<<<< ALARM"
            print(f"{nid}-{w}: {c} exit={r.returncode} violations={len(v)}{flag}", flush=True)
            for l in (v + mach)[:2]:
                print("      ", l[:300])
    finally:
        sh("git -C /repo checkout -- . && git -C /repo clean -fdq")
        sh("git -C /verif checkout -- evidence")
    out["wall_s"] = round(time.time() - t0)
    out["alarms"] = sorted(c for c, r in out["checks"].items() if r["exit"] != 0)
    json.dump(out, open(os.path.join(dst, "meta.json"), "w"), indent=1)
    print(f"{nid}-{w}: alarms={out['alarms']} wall={out['wall_s']}s", flush=True)
sh("cd /verif && python3 -c \"from mcheck.core import build; build.build(probe=True)\"")
