#!/usr/bin/env python3
"""Prepare a scratch worktree and a prompt file for a sub-agent that produces property-PRESERVING changes.
usage: mkneutralprompt.py <Cxx> <round>   -> /tmp/wt-<Cxx>n<round>, /tmp/agent_prompt_<Cxx>n<round>.txt"""
import json, os, subprocess, sys
pid, rnd = sys.argv[1], sys.argv[2]
wt = f"/tmp/wt-{pid}n{rnd}"
subprocess.run(["git", "-C", "/repo", "worktree", "add", "-q", wt, "HEAD"], check=True)
t = open(os.path.join(os.path.dirname(os.path.abspath(__file__)), 'neutral_prompt_template2.txt' if rnd >= '2' else 'neutral_prompt_template.txt')).read()
prop = None
for l in open('/verif/properties.jsonl'):
    p = json.loads(l)
    if p['id'] == pid:
        prop = (f"{p['id']} — {p['title']}\n\nSTATEMENT: {p['statement']}\n\nQUANTIFIER: {p['quantifier']['text']}\n\n"
                f"CODE ANCHORS: {', '.join(p['anchors']['files'])}\n\nMECHANISMS: " + "; ".join(f"{m['name']} ({m['where']})" for m in p['anchors']['mechanism']) + "\n")
extra = ""
if pid == "C19":
    extra = f"\nNOTE: a probe dynamic library is needed to exercise `call_lib`; see the repository's `ffi/` crate for the calling convention; if you want to try it, build your own dylib crate inside {wt}/_neutral/probe (bytecode = {{ path = \"../../bytecode\" }}, crate-type dylib) with CARGO_TARGET_DIR={wt}/target. The public API used by such libraries (the `ffi` crate, `raise_error!`, `BytecodePrimitive`, the function signature) must stay source-compatible."
open(f"/tmp/agent_prompt_{pid}n{rnd}.txt", "w").write(t.replace('{WT}', wt).replace('{PROP}', prop + extra))
print(wt)
