#!/usr/bin/env python3
"""Re-run checks against an already validated seeded change.
usage: reseed.py <seed-id> <Cxx> [<Cxx> ...] [--thorough]
Applies /verif/seeded/<seed-id>/patch.diff to /repo, runs the listed checks, reverts /repo, restores evidence/, and records the
result under meta.json["revalidation"]."""
import json, os, subprocess, sys
import fcntl as _fcntl
_lockf = open("/dev/shm/mscript-verif-repo.lock", "a+")
_fcntl.flock(_lockf, _fcntl.LOCK_EX)      # held until this tool exits: /repo is patched in between
import os as _os
_os.environ["MSCRIPT_VERIF_LOCK_HELD"] = "1"
args = [a for a in sys.argv[1:] if not a.startswith("--")]
tier = "thorough" if "--thorough" in sys.argv else "quick"
sid, checks = args[0], args[1:]
d = f"/verif/seeded/{sid}"
def sh(cmd):
    return subprocess.run(cmd, shell=True, capture_output=True, text=True)
assert sh("git -C /repo status --porcelain").stdout.strip() == "", "repo dirty"
r = sh(f"git -C /repo apply --whitespace=nowarn {d}/patch.diff")
if r.returncode != 0:
    print("PATCH DOES NOT APPLY:", r.stderr); sys.exit(2)
res = {}
try:
    for c in checks:
        r = subprocess.run(["./check", c, tier], cwd="/verif", capture_output=True, text=True)
        v = [l for l in r.stdout.splitlines() if l.startswith("VIOLATION")]
        res[c] = {"tier": tier, "exit": r.returncode, "violation_lines": len(v), "first": [x[:400] for x in v[:3]],
                  "summary": r.stdout.strip().splitlines()[-1][:400]}
        print(f"{c}: exit={r.returncode} violations={len(v)}")
        for l in v[:2]:
            print("    ", l[:330])
finally:
    sh("git -C /repo checkout -- . && git -C /repo clean -fdq")
    sh("git -C /verif checkout -- evidence")
    sh("cd /verif && python3 -c \"from mcheck.core import build; build.build(probe=True)\"")
mp = os.path.join(d, "meta.json")
meta = json.load(open(mp))
meta.setdefault("revalidation", {}).update(res)
json.dump(meta, open(mp, "w"), indent=1)
