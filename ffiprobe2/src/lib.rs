//! Probe library B for property C19: same symbols as library A, every rendering carries the tag "B".
const TAG: &str = "B";
include!("../../ffiprobe/src/body.rs");
