"""Build step: every check rebuilds the real `mscript` binary from /repo's working tree
with the verification hooks compiled in (`--cfg mscript_verif`).  A build failure is a
machinery exit (status 2), never a verdict."""
import os
import subprocess
import sys
import time

REPO = os.environ.get("MSCRIPT_REPO", "/repo")
VERIF = os.path.dirname(os.path.dirname(os.path.dirname(os.path.abspath(__file__))))
BUILD_ROOT = os.environ.get("MSCRIPT_VERIF_BUILD", os.path.join(VERIF, ".build"))
TARGET = os.path.join(BUILD_ROOT, "repo")
GUARD = "--cfg mscript_verif"
BIN = os.path.join(TARGET, "debug", "mscript")


def cargo_env():
    env = dict(os.environ)
    env["CARGO_NET_OFFLINE"] = "true"
    env["CARGO_TARGET_DIR"] = TARGET
    env["RUSTFLAGS"] = GUARD + (" " + os.environ["MSCRIPT_VERIF_EXTRA_RUSTFLAGS"] if os.environ.get("MSCRIPT_VERIF_EXTRA_RUSTFLAGS") else "")
    env.pop("RUST_BACKTRACE", None)
    return env


class repo_lock:
    """Advisory lock on the state of /repo's working tree: builds take it shared; tools that patch /repo temporarily (seedcheck,
    reseed, trymut) take it exclusively, so that a check running in the background never builds a deliberately broken tree."""
    PATH = "/dev/shm/mscript-verif-repo.lock"

    def __init__(self, exclusive):
        self.exclusive = exclusive

    def __enter__(self):
        import fcntl
        self.f = open(self.PATH, "a+")
        if os.environ.get("MSCRIPT_VERIF_LOCK_HELD") != "1" and REPO == "/repo":      # a tool that holds the exclusive lock runs the checks itself; a scratch copy of the repository (MSCRIPT_REPO) needs no lock
            fcntl.flock(self.f, fcntl.LOCK_EX if self.exclusive else fcntl.LOCK_SH)
        return self

    def __exit__(self, *a):
        import fcntl
        fcntl.flock(self.f, fcntl.LOCK_UN)
        self.f.close()


def machinery_exit(msg, code=2):
    print(f"MACHINERY-ERROR: {msg}", flush=True)
    sys.exit(code)


def build(probe=False, quiet=True):
    """Build /repo (dev profile, hooks on).  Returns path of the binary."""
    t0 = time.time()
    os.makedirs(BUILD_ROOT, exist_ok=True)
    cmd = ["cargo", "build", "--offline", "--bin", "mscript"]
    with repo_lock(exclusive=False):
        p = subprocess.run(cmd, cwd=REPO, env=cargo_env(), stdout=subprocess.PIPE,
                           stderr=subprocess.STDOUT, text=True)
    if p.returncode != 0 or not os.path.exists(BIN):
        sys.stdout.write(p.stdout[-6000:])
        machinery_exit("BUILD-FAILED (cargo build of /repo with hooks on)")
    if probe:
        build_probe()
    if not quiet:
        print(f"[build] ok in {time.time()-t0:.1f}s -> {BIN}", flush=True)
    return BIN


PROBE_DIR = os.path.join(VERIF, "ffiprobe")
PROBE_LIB = os.path.join(TARGET, "debug", "libffiprobe.so")
PROBE2_DIR = os.path.join(VERIF, "ffiprobe2")
PROBE2_LIB = os.path.join(TARGET, "debug", "libffiprobe2.so")


def _probe_src(pdir):
    """the probe crates name /repo/bytecode; against a scratch copy of the repository (MSCRIPT_REPO) they are copied next to the build
    output with the path rewritten, so that probe and binary are built from the same `bytecode` sources"""
    if REPO == "/repo":
        return pdir
    import shutil
    dst = os.path.join(BUILD_ROOT, "probes", os.path.basename(pdir))
    shutil.copytree(pdir, dst, dirs_exist_ok=True, ignore=shutil.ignore_patterns("target"))
    ct = os.path.join(dst, "Cargo.toml")
    with open(ct) as f:
        t = f.read()
    with open(ct, "w") as f:
        f.write(t.replace('"/repo/bytecode"', '"' + os.path.join(REPO, "bytecode") + '"'))
    return dst


def build_probe():
    for pdir, plib in ((PROBE_DIR, PROBE_LIB), (PROBE2_DIR, PROBE2_LIB)):
        pdir = _probe_src(pdir)
        cmd = ["cargo", "build", "--offline"]
        p = subprocess.run(cmd, cwd=pdir, env=cargo_env(), stdout=subprocess.PIPE,
                           stderr=subprocess.STDOUT, text=True)
        if p.returncode != 0 or not os.path.exists(plib):
            sys.stdout.write(p.stdout[-6000:])
            machinery_exit(f"BUILD-FAILED ({os.path.basename(pdir)})")
    return PROBE_LIB
