"""E-hist: explicit-state breadth-first search over operation histories.

State = canonical form of the *reference-model* state; transition = one operation of a small alphabet.
Every transition (s, op) is executed on the implementation: the shortest history reaching s followed by
op is compiled into one program in which every step prints its observation; the printed sequence must
equal the model's.  Operations are therefore also tried from non-initial states, and (thorough tier)
each transition is replayed along a second witness history reaching the same model state."""
from .explore import Check
from . import driver


class Model:
    """Interface of a reference model for E-hist."""
    name = "model"

    def templates(self, tier):
        """-> list of template ids (each template is an independent sub-model)"""
        return [0]

    def init(self, tpl):
        """-> mutable model state"""
        raise NotImplementedError

    def clone(self, st):
        import copy
        return copy.deepcopy(st)

    def canon(self, tpl, st):
        """-> hashable canonical form (heap entities renamed by first reachability, unordered collections sorted)"""
        raise NotImplementedError

    def ops(self, tpl, st):
        """-> list of enabled operations (python literals)"""
        raise NotImplementedError

    def apply(self, tpl, st, op):
        """mutates st; -> (list of observation lines, failed: bool).  After a failure the state is dead."""
        raise NotImplementedError

    def prelude(self, tpl):
        """source text establishing the initial state (may print)"""
        raise NotImplementedError

    def prelude_obs(self, tpl):
        return []

    def op_src(self, tpl, op, k):
        """source text of the k-th step performing op and printing its observation"""
        raise NotImplementedError

    def files(self, tpl):
        return {}

    def canon_out(self, lines):
        """normalise implementation output lines (e.g. sort map renderings)"""
        return lines


class EHistCheck(Check):
    level = "model_checking"
    min_distinct_outcomes = 1       # the vacuity guard of an E-hist check is on model states, see finish()
    model = None
    quick_depth = 5
    thorough_depth = 12
    max_transitions_per_layer = None

    def bfs(self, tier):
        """-> list of layers; each layer is a list of cases (tpl, history tuple) where the last op of the history is the
        transition under test.  Also fills self.stats_model."""
        m = self.model
        depth = self.quick_depth if tier == "quick" else self.thorough_depth
        layers = [[] for _ in range(depth)]
        nstates = 0
        ntrans = 0
        fixpoint = True
        witness2 = []
        for tpl in m.templates(tier):
            st0 = m.init(tpl)
            seen = {m.canon(tpl, st0): ()}
            last = {}
            frontier = [((), st0)]
            nstates += 1
            for d in range(m.depth_of(tpl, depth) if hasattr(m, "depth_of") else depth):
                nxt = []
                for hist, st in frontier:
                    for op in m.ops(tpl, st):
                        st2 = m.clone(st)
                        obs, failed = m.apply(tpl, st2, op)
                        ntrans += 1
                        h2 = hist + (op,)
                        layers[d].append((tpl, h2))
                        if failed:
                            continue
                        c = m.canon(tpl, st2)
                        if c not in seen:
                            seen[c] = h2
                            nstates += 1
                            nxt.append((h2, st2))
                        elif seen[c] != h2:
                            last[c] = h2
                frontier = nxt
                if not frontier:
                    break
            if frontier:
                fixpoint = False
            if tier == "thorough":
                # second witness: replay one transition from each state reached by two different histories
                for c, h2 in last.items():
                    st = self.replay_model(tpl, h2)[0]
                    for op in m.ops(tpl, st)[:3]:
                        witness2.append((tpl, h2 + (op,)))
        self.stats_model = {"states": nstates, "transitions": ntrans, "fixpoint_reached": fixpoint, "depth_bound": depth,
                            "second_witness_replays": len(witness2)}
        out = [(f"depth-{d + 1}", l) for d, l in enumerate(layers) if l]
        if witness2:
            out.append(("second-witness-histories", witness2))
        return out

    def replay_model(self, tpl, hist):
        m = self.model
        st = m.init(tpl)
        lines = list(m.prelude_obs(tpl))
        failed = False
        for op in hist:
            obs, failed = m.apply(tpl, st, op)
            lines += obs
            if failed:
                break
        return st, lines, failed

    def layers(self, tier):
        return self.bfs(tier)

    def describe(self, case):
        tpl, hist = case
        return {"template": tpl, "history": [repr(o) for o in hist]}

    def source(self, tpl, hist):
        m = self.model
        return m.prelude(tpl) + "".join(m.op_src(tpl, op, k) for k, op in enumerate(hist))

    def run_case(self, case):
        tpl, hist = case
        m = self.model
        st, exp, failed = self.replay_model(tpl, hist)
        src = self.source(tpl, hist)
        nfinal = 0
        if not failed and hasattr(m, "final_observation"):
            # the state reached by the implementation is read back through the model's observer expressions (the same ones that
            # define state identity in the search), so a silent operation with a wrong effect is seen at once
            fsrc, fexp = m.final_observation(tpl, st)
            src += fsrc
            exp = exp + list(fexp)
            nfinal = len(fexp)
        if hasattr(m, "epilogue"):
            src += m.epilogue(tpl)
        files = {"x.ms": src}
        files.update(m.files(tpl))
        d = driver.fresh_dir()
        driver.write_files(d, files)
        res = driver.run(["run", "x.ms", "-q"], d)
        lines = m.canon_out(res.lines())
        exp = m.canon_out(exp)
        viol = []
        detail = {"files": files, "res": res.brief(), "expected_lines": exp[-30:], "history": [repr(o) for o in hist]}
        op = hist[-1] if hist else None
        opname = op[0] if isinstance(op, tuple) else (m.op_name(tpl, op) if hasattr(m, "op_name") and op is not None else str(op))

        def bad(kind, what):
            viol.append({"sig": {"kind": kind, "template": str(tpl), "op": opname, "opdetail": repr(op)},
                         "what": f"after {[repr(o) for o in hist[:-1]]}: {op!r}: {what}", "detail": detail})

        if driver.compile_rejected(res):
            return {"outcome": "rejected", "nontrivial": False, "tags": ["rejected", f"rej-{opname}"], "show": res.out[-300:]}
        if failed:
            if res.exit == 0:
                bad("missing-failure", f"the model prescribes a failure; the program continued and printed {lines[len(exp) - 1:][:4]}")
            elif lines[:len(exp)] != exp or len(lines) > len(exp):
                bad("stdout-before-failure", f"expected {exp[-4:]} then a failure; got {lines[-4:]}")
        else:
            if res.exit != 0:
                bad("unexpected-failure", f"exit {res.exit} ({driver.classify_failure(res)}): "
                                          f"{(driver.panic_message(res) or res.err[-200:])[:200]}")
            elif lines != exp:
                i = next((j for j, (a, b) in enumerate(zip(lines, exp)) if a != b), min(len(lines), len(exp)))
                where = f"final observer {i - (len(exp) - nfinal)}" if nfinal and i >= len(exp) - nfinal else f"line {i}"
                bad("observation", f"{where}: expected {exp[i] if i < len(exp) else '<end>'!r} got {lines[i] if i < len(lines) else '<end>'!r}")
        return {"outcome": ("fail" if failed else "ok") + ("-DIFF" if viol else ""), "viol": viol, "nontrivial": len(hist) >= 1,
                "tags": [f"op-{opname}", f"tpl-{tpl}"]}

    def finish(self, stats, tier):
        sm = getattr(self, "stats_model", {})
        ran = stats["evaluations"] - stats["tags"].get("rejected", 0)
        stats["extra_coverage"] = {"states": sm.get("states", 0), "transitions": sm.get("transitions", 0),
                                   "traces_validated_against_impl": ran, "fixpoint_reached": sm.get("fixpoint_reached"),
                                   "depth_bound": sm.get("depth_bound"), "second_witness_replays": sm.get("second_witness_replays", 0),
                                   "rejected_by_compiler": stats["tags"].get("rejected", 0)}
        errs = []
        if sm.get("states", 0) < 10:
            errs.append(f"vacuity: only {sm.get('states', 0)} model states explored")
        if stats["tags"].get("rejected", 0) > 0:
            errs.append("vacuity: some generated histories were rejected by the compiler: " +
                        str({k: v for k, v in stats["tags"].items() if k.startswith("rej-")}))
        return errs
