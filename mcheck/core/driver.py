"""Driver: one case = scratch directory on tmpfs + command lines + env + timeout.
Runs the real binary as a subprocess so that panics (101), aborts (signals) and hangs
(timeout) are observable and harmless."""
import os
import re
import shutil
import signal
import subprocess
import tempfile

from . import build

SHM = "/dev/shm" if os.path.isdir("/dev/shm") else tempfile.gettempdir()
SCRATCH_ROOT = os.path.join(SHM, "mscript-verif", f"run-{os.getpid()}")   # per check process (workers are forked)
TIMEOUT = 10.0

_ANSI = re.compile(r"\x1b\[[0-9;]*m")


def strip_ansi(s):
    return _ANSI.sub("", s)


class Res:
    __slots__ = ("exit", "out", "err", "timeout")

    def __init__(self, exit, out, err, timeout=False):
        self.exit, self.out, self.err, self.timeout = exit, out, err, timeout

    @property
    def cls(self):
        if self.timeout:
            return "timeout"
        if self.exit == 0:
            return "ok"
        if self.exit == 1:
            return "error"
        if self.exit == 101:
            return "panic"
        if self.exit < 0 or self.exit in (134, 139, 132, 136):
            return "abort"
        return f"exit{self.exit}"

    def lines(self):
        if not self.out:
            return []
        return self.out.split("\n")[:-1] if self.out.endswith("\n") else self.out.split("\n")

    def brief(self):
        return {"exit": self.exit, "cls": self.cls, "out": self.out[-2000:], "err": self.err[-2000:]}


_worker_dir = None


def worker_dir():
    """A per-process scratch directory, emptied before each case."""
    global _worker_dir
    if _worker_dir is None or not os.path.isdir(_worker_dir):
        os.makedirs(SCRATCH_ROOT, exist_ok=True)
        _worker_dir = tempfile.mkdtemp(prefix=f"w{os.getpid()}-", dir=SCRATCH_ROOT)
    return _worker_dir


def fresh_dir():
    d = worker_dir()
    for name in os.listdir(d):
        p = os.path.join(d, name)
        if os.path.isdir(p) and not os.path.islink(p):
            shutil.rmtree(p, ignore_errors=True)
        else:
            try:
                os.unlink(p)
            except OSError:
                pass
    return d


def write_files(d, files):
    for name, content in files.items():
        p = os.path.join(d, name)
        os.makedirs(os.path.dirname(p), exist_ok=True)
        if isinstance(content, bytes):
            with open(p, "wb") as f:
                f.write(content)
        else:
            with open(p, "w", encoding="utf-8", newline="") as f:
                f.write(content)


def base_env(extra=None, backtrace="0"):
    env = {"PATH": os.environ.get("PATH", "/usr/bin:/bin"), "HOME": os.environ.get("HOME", "/root"),
           "RUST_BACKTRACE": backtrace, "NO_COLOR": "1", "LANG": "C.UTF-8"}
    if extra:
        env.update(extra)
    if "MSCRIPT_VERIF_COV_PROFILE" in os.environ:        # tools/coverage.sh: source-coverage survey of the alphabets (never set by a registered check)
        env["LLVM_PROFILE_FILE"] = os.environ["MSCRIPT_VERIF_COV_PROFILE"]
    return env


TIMEOUT_SCALE = 1.0      # raised while a violation is being confirmed: a time-out on a busy machine must not pass for a hang


def run(args, cwd, env=None, timeout=TIMEOUT, binary=None, stdin=None, merge=False):
    timeout = timeout * TIMEOUT_SCALE
    """Run `mscript <args>` in cwd."""
    cmd = [binary or build.BIN] + list(args)
    try:
        p = subprocess.Popen(cmd, cwd=cwd, env=base_env(env), stdout=subprocess.PIPE,
                             stderr=(subprocess.STDOUT if merge else subprocess.PIPE), stdin=subprocess.DEVNULL,
                             start_new_session=True)
    except OSError as e:
        return Res(-999, "", f"spawn failed: {e}")
    try:
        out, err = p.communicate(timeout=timeout)
        err = err or b""
        return Res(p.returncode, strip_ansi(out.decode("utf-8", "replace")),
                   strip_ansi(err.decode("utf-8", "replace")))
    except subprocess.TimeoutExpired:
        try:
            os.killpg(p.pid, signal.SIGKILL)
        except OSError:
            pass
        out, err = p.communicate()
        err = err or b""
        return Res(-9, strip_ansi(out.decode("utf-8", "replace")),
                   strip_ansi(err.decode("utf-8", "replace")), timeout=True)


def run_ms(src, extra_files=None, env=None, name="x.ms", timeout=TIMEOUT):
    """Write one source (plus extra files) into a fresh scratch dir and `run` it."""
    d = fresh_dir()
    files = {name: src}
    if extra_files:
        files.update(extra_files)
    write_files(d, files)
    return run(["run", name, "-q"], d, env=env, timeout=timeout)


def cleanup_all():
    shutil.rmtree(SCRATCH_ROOT, ignore_errors=True)


# ---------------------------------------------------------------------------------------
# failure classification (DESIGN Appendix A)

_CLASSES = [
    ("stack-mismatch", ["INTERPRETER STACK MISMATCH"]),
    ("assert", ["An explicit assertion failed", "assertion failed"]),
    ("stack", ["has overflowed its stack"]),
    ("ffi", ["FFI:", "Could not open FFI Library", "Could not find symbol", "symbol"]),
    ("zero-divisor", ["/ by 0", "% by 0", "attempt to divide by zero",
                      "remainder with a divisor of zero", "division by zero"]),
    ("overflow", ["with overflow", "operation overflow", "operation underflow", "new size is too large",
                  "capacity overflow", "overflow"]),
    ("range", ["out of bounds", "key error", "removal index", "is not a char boundary",
               "out of range for slice", "byte index", "index out of", "out of range of",
               "index is out of", "insertion index", "begin <= end", "slice index starts at",
               "range end index", "range start index"]),
    ("conversion", ["cannot be made into", "could not fit", "is an invalid radix", "invalid radix",
                    "is an invalid power", "out of range integral type conversion",
                    "invalid digit", "cannot parse",      # ("not an Int / a BigInt / a Float" is NOT here: that is a make_int / make_bigint / make_float instruction refusing the literal the compiler handed it - a miscompilation, never a conversion the program asked for)
                    "invalid float literal", "number too large", "number too small",
                    "provided string was not", "cannot convert", "could not convert", "cannot be converted",
                    "to_digit: radix is too high", "from_str_radix"]),
    ("nil", ["unwrap of `nil`", "nil object, looking up", "Nil"]),
]


# The wording of failure messages is not promised by any property.  Besides the literal fragments above (the wording of the pinned
# tree), the classes are LEARNT from the binary under test: one canonical failing program per failure site, whose innermost message
# (digits and quoted parts generalised) becomes a pattern of its class - unless the reports of another class show it too.
_CANON = [
    ("assert", ["assert a == 12345"]),
    ("nil", ["on: int? = nil", "v = get on"]),
    ("nil", ["oc: Kf? = nil", "v = oc.f"]),
    ("range", ["ll: [int...] = [1]", "v = ll[a + 5]"]),
    ("range", ["ll: [int...] = [1]", "ng = 0 - a", "v = ll[ng]"]),
    ("range", ["le: [int...] = []", "zi = a - a", "v = le[zi]"]),
    ("range", ["ll: [int...] = [1]", "ll[a] = 5"]),
    ("range", ["ll: [int...] = [1]", "v = ll.remove(a + 5)"]),
    ("range", ["le: [int...] = []", "zi = a - a", "v = le.remove(zi)"]),
    ("range", ["ss = \"abc\"", "v = ss[a + 5]"]),
    ("range", ["ss = \"abc\"", "v = ss.substring(2, 8 + a)"]),
    ("zero-divisor", ["z = a - a", "v = 10 / z"]),
    ("zero-divisor", ["z = a - a", "v = 10 % z"]),
    ("zero-divisor", ["zf = 0.0", "v = 1.5 / zf"]),
    ("overflow", ["big = 2147483647", "v = big + a"]),
    ("overflow", ["sh = 40", "v = a << sh"]),
    ("conversion", ["n3 = 299 + a", "v = n3.to_byte()"]),
    ("conversion", ["bb = B9999999999", "v = bb.to_int()"]),
    ("conversion", ["n4 = 199 + a", "v = n4.to_byte().to_ascii()"]),
    ("conversion", ["ff = 1.0e30", "v = ff.to_int()"]),
    ("zero-divisor", ["zb = B0", "v = B10 / zb"]),
    ("zero-divisor", ["zb = B0", "v = B10 % zb"]),
    ("zero-divisor", ["zy = 0b0", "v = 0b11 / zy"]),
    ("zero-divisor", ["zy = 0b0", "v = 0b11 % zy"]),
    ("zero-divisor", ["zf = 0.0", "v = 1.5 % zf"]),
    ("overflow", ["big = 0 - 2147483647", "v = big - a - a"]),
    ("overflow", ["big = 65536", "v = big * big * a"]),
    ("overflow", ["big = 0 - 2147483647", "big = big - a", "v = -big"]),
    ("overflow", ["big = 0 - 2147483647", "big = big - a", "v = big / (0 - a)"]),
    ("overflow", ["bg = B9223372036854775807", "v = bg + a"]),
    ("overflow", ["sh = 40", "v = a >> sh"]),
    ("overflow", ["sh = 0 - a", "v = a << sh"]),
    ("overflow", ["sh = 70", "v = B1 << sh"]),
    ("overflow", ["sh = 9", "v = 0b1 << sh"]),
    ("overflow", ["sh = B4294967296", "v = a << sh"]),
    ("overflow", ["sh = 0b11111111", "v = B1 << sh"]),
    ("overflow", ["ee = 40", "v = (a + a).pow(ee)"]),
]
_LEARNT = None


def innermost_message(res):
    """First line of the innermost cause of a failure report (the last numbered entry of the chain, or the panic message)."""
    m = re.search(r"panicked at [^\n]*\n([^\n]*)", res.err)
    if m:
        return m.group(1).strip()
    last = None
    for l in res.err.split("\n"):
        mm = re.match(r"\s+(\d+): (.*)$", l)
        if mm:
            last = mm.group(2).strip()
    return last


def _literal_core(msg):
    """The longest literal stretch of a message (between its numbers / quoted parts), if long enough to be characteristic."""
    parts = re.split(r"([\w./-]+\.ms\b|-?\d+(?:\.\d+)?|`[^`]*`|'[^']*'|\"[^\"]*\")", msg)
    best = max((x.strip() for i, x in enumerate(parts) if i % 2 == 0), key=len, default="")
    return re.escape(best) if len(best) >= 12 else None


def _generalise(msg):
    parts = re.split(r"([\w./-]+\.ms\b|-?\d+(?:\.\d+)?|`[^`]*`|'[^']*'|\"[^\"]*\")", msg)
    rx = "".join(re.escape(x) if i % 2 == 0 else ".+?" for i, x in enumerate(parts))
    return rx if len(re.sub(r"\.\+\?|\\", "", rx)) >= 4 else None


def _learn_classes():
    global _LEARNT
    d = os.path.join(worker_dir(), "calib2")
    os.makedirs(d, exist_ok=True)
    prelude = "a = 1\nclass Kf {\n f: int\n constructor(self) {\n  self.f = 1\n }\n}\n"
    got = []
    for i, (cls, lines) in enumerate(_CANON):
        write_files(d, {"x.ms": prelude + "\n".join(lines) + "\n"})
        r = run(["run", "x.ms", "-q"], d)
        msg = innermost_message(r) if r.exit != 0 and not compile_rejected(r) else None
        got.append((cls, msg, r.err))
    learnt = []
    for cls, msg, _ in got:
        for rx in ((_generalise(msg), _literal_core(msg)) if msg else ()):
            if not rx:
                continue
            try:
                c = re.compile(rx)
            except re.error:
                continue
            if any(c2 != cls and c.search(e2) for c2, _, e2 in got):
                continue                      # too generic: another class shows it as well
            if not any(c.pattern == c0.pattern for _, c0 in learnt):
                learnt.append((cls, c))
    _LEARNT = learnt


def classify_failure(res):
    """Class of a failing run, from exit status and messages."""
    if res.timeout:
        return "timeout"
    text = res.err + "\n" + res.out
    if res.exit < 0 or res.exit == 134:
        if "has overflowed its stack" in text:
            return "stack"
        return "abort"
    if _LEARNT is None:
        _learn_classes()
    for cls, c in _LEARNT:
        if c.search(text):
            return cls
    for cls, frags in _CLASSES:
        for f in frags:
            if f in text:
                return cls
    return "type-error"


def panic_message(res):
    m = re.search(r"panicked at ([^\n]*)\n([^\n]*)", res.err)
    if not m:
        return None
    loc, msg = m.group(1), m.group(2)
    loc = re.sub(r":\d+:\d+:?$", "", loc.strip())
    msg = re.sub(r"\d+", "N", msg)
    return f"{loc}: {msg}"[:200]


def error_chain(res):
    """Normalised text of the `Caused by` chain / compile diagnostic for signatures."""
    t = res.err
    t = re.sub(r"0x[0-9a-fA-F]+", "0xN", t)
    return t


# ---------------------------------------------------------------------------------------
# phase of a failure: compile-time rejection vs run-time failure.  The CLI exits 1 for both; what tells them apart is the closing
# line of the compile step.  Its wording is not promised by any property, so it is LEARNT from the binary under test: the stderr
# lines that two different ill-typed programs share and that two run-time failures do not show (text up to the first digit).

_REJECT_MARKERS = None
_RUNTIME_MARKERS = None


def _stderr_lines(text):
    return [l.strip() for l in text.split("\n") if l.strip()]


def _common_prefixes(a, b, minlen=12):
    out = set()
    for x in a:
        for y in b:
            n = 0
            while n < len(x) and n < len(y) and x[n] == y[n]:
                n += 1
            k = re.match(r"[^0-9]*", x[:n]).group(0)
            if len(k) >= minlen:
                out.add(k)
    return out


def _calibrate():
    global _REJECT_MARKERS, _RUNTIME_MARKERS
    d = os.path.join(worker_dir(), "calib")
    os.makedirs(d, exist_ok=True)
    outs = []
    # two compile failures and two run-time failures, under different file names, so that no marker depends on the name
    for name, src in [("x.ms", 'cq: int = "s"\n'), ("other_q.ms", 'print nosuch_name_q\nprint nosuch_name_r\n'),
                      ("x.ms", 'assert 1 == 2\n'), ("other_q.ms", 'aq = 0\nprint 7 / aq\n')]:
        write_files(d, {name: src})
        outs.append(_stderr_lines(run(["run", name, "-q"], d).err))
    rej = {k for k in _common_prefixes(outs[0], outs[1]) if not any(l.startswith(k) for l in outs[2] + outs[3])}
    rt = {k for k in _common_prefixes(outs[2], outs[3]) if not any(l.startswith(k) for l in outs[0] + outs[1])}
    _REJECT_MARKERS = sorted(rej) or ["Error: Did not compile"]
    _RUNTIME_MARKERS = sorted(rt) or ["******* MSCRIPT INTERPRETER FATAL RUNTIME ERROR"]


def _has_marker(text, markers):
    for l in text.split("\n"):
        l = l.strip()
        for m in markers:
            if l.startswith(m):
                return True
    return False


def compile_rejected(res):
    """True when the run failed in the compile step (diagnostics, nothing executed)."""
    if res.exit == 0:
        return False
    if _REJECT_MARKERS is None:
        _calibrate()
    return _has_marker(res.err, _REJECT_MARKERS)


def runtime_banner(res):
    """True when stderr carries the interpreter's run-time failure report."""
    if _RUNTIME_MARKERS is None:
        _calibrate()
    return _has_marker(res.err, _RUNTIME_MARKERS)
