"""Driver: one case = scratch directory on tmpfs + command lines + env + timeout.
Runs the real binary as a subprocess so that panics (101), aborts (signals) and hangs
(timeout) are observable and harmless."""
import os
import re
import shutil
import signal
import subprocess
import tempfile

from . import build

SHM = "/dev/shm" if os.path.isdir("/dev/shm") else tempfile.gettempdir()
SCRATCH_ROOT = os.path.join(SHM, "mscript-verif", f"run-{os.getpid()}")   # per check process (workers are forked)
TIMEOUT = 10.0

_ANSI = re.compile(r"\x1b\[[0-9;]*m")


def strip_ansi(s):
    return _ANSI.sub("", s)


class Res:
    __slots__ = ("exit", "out", "err", "timeout")

    def __init__(self, exit, out, err, timeout=False):
        self.exit, self.out, self.err, self.timeout = exit, out, err, timeout

    @property
    def cls(self):
        if self.timeout:
            return "timeout"
        if self.exit == 0:
            return "ok"
        if self.exit == 1:
            return "error"
        if self.exit == 101:
            return "panic"
        if self.exit < 0 or self.exit in (134, 139, 132, 136):
            return "abort"
        return f"exit{self.exit}"

    def lines(self):
        if not self.out:
            return []
        return self.out.split("\n")[:-1] if self.out.endswith("\n") else self.out.split("\n")

    def brief(self):
        return {"exit": self.exit, "cls": self.cls, "out": self.out[-2000:], "err": self.err[-2000:]}


_worker_dir = None


def worker_dir():
    """A per-process scratch directory, emptied before each case."""
    global _worker_dir
    if _worker_dir is None or not os.path.isdir(_worker_dir):
        os.makedirs(SCRATCH_ROOT, exist_ok=True)
        _worker_dir = tempfile.mkdtemp(prefix=f"w{os.getpid()}-", dir=SCRATCH_ROOT)
    return _worker_dir


def fresh_dir():
    d = worker_dir()
    for name in os.listdir(d):
        p = os.path.join(d, name)
        if os.path.isdir(p) and not os.path.islink(p):
            shutil.rmtree(p, ignore_errors=True)
        else:
            try:
                os.unlink(p)
            except OSError:
                pass
    return d


def write_files(d, files):
    for name, content in files.items():
        p = os.path.join(d, name)
        os.makedirs(os.path.dirname(p), exist_ok=True)
        if isinstance(content, bytes):
            with open(p, "wb") as f:
                f.write(content)
        else:
            with open(p, "w", encoding="utf-8", newline="") as f:
                f.write(content)


def base_env(extra=None, backtrace="0"):
    env = {"PATH": os.environ.get("PATH", "/usr/bin:/bin"), "HOME": os.environ.get("HOME", "/root"),
           "RUST_BACKTRACE": backtrace, "NO_COLOR": "1", "LANG": "C.UTF-8"}
    if extra:
        env.update(extra)
    return env


def run(args, cwd, env=None, timeout=TIMEOUT, binary=None, stdin=None, merge=False):
    """Run `mscript <args>` in cwd."""
    cmd = [binary or build.BIN] + list(args)
    try:
        p = subprocess.Popen(cmd, cwd=cwd, env=base_env(env), stdout=subprocess.PIPE,
                             stderr=(subprocess.STDOUT if merge else subprocess.PIPE), stdin=subprocess.DEVNULL,
                             start_new_session=True)
    except OSError as e:
        return Res(-999, "", f"spawn failed: {e}")
    try:
        out, err = p.communicate(timeout=timeout)
        err = err or b""
        return Res(p.returncode, strip_ansi(out.decode("utf-8", "replace")),
                   strip_ansi(err.decode("utf-8", "replace")))
    except subprocess.TimeoutExpired:
        try:
            os.killpg(p.pid, signal.SIGKILL)
        except OSError:
            pass
        out, err = p.communicate()
        err = err or b""
        return Res(-9, strip_ansi(out.decode("utf-8", "replace")),
                   strip_ansi(err.decode("utf-8", "replace")), timeout=True)


def run_ms(src, extra_files=None, env=None, name="x.ms", timeout=TIMEOUT):
    """Write one source (plus extra files) into a fresh scratch dir and `run` it."""
    d = fresh_dir()
    files = {name: src}
    if extra_files:
        files.update(extra_files)
    write_files(d, files)
    return run(["run", name, "-q"], d, env=env, timeout=timeout)


def cleanup_all():
    shutil.rmtree(SCRATCH_ROOT, ignore_errors=True)


# ---------------------------------------------------------------------------------------
# failure classification (DESIGN Appendix A)

_CLASSES = [
    ("stack-mismatch", ["INTERPRETER STACK MISMATCH"]),
    ("assert", ["An explicit assertion failed", "assertion failed"]),
    ("stack", ["has overflowed its stack"]),
    ("ffi", ["FFI:", "Could not open FFI Library", "Could not find symbol", "symbol"]),
    ("zero-divisor", ["/ by 0", "% by 0", "attempt to divide by zero",
                      "remainder with a divisor of zero", "division by zero"]),
    ("overflow", ["with overflow", "operation overflow", "operation underflow", "new size is too large",
                  "capacity overflow", "overflow"]),
    ("range", ["out of bounds", "key error", "removal index", "is not a char boundary",
               "out of range for slice", "byte index", "index out of", "out of range of",
               "index is out of", "insertion index", "begin <= end", "slice index starts at",
               "range end index", "range start index"]),
    ("conversion", ["cannot be made into", "could not fit", "is an invalid radix", "invalid radix",
                    "is an invalid power", "out of range integral type conversion",
                    "not an Int", "not a BigInt", "not a Float", "invalid digit", "cannot parse",
                    "invalid float literal", "number too large", "number too small",
                    "provided string was not", "cannot convert", "could not convert", "cannot be converted",
                    "to_digit: radix is too high", "from_str_radix"]),
    ("nil", ["unwrap of `nil`", "nil object, looking up", "Nil"]),
]


def classify_failure(res):
    """Class of a failing run, from exit status and messages."""
    if res.timeout:
        return "timeout"
    text = res.err + "\n" + res.out
    if res.exit < 0 or res.exit == 134:
        if "has overflowed its stack" in text:
            return "stack"
        return "abort"
    for cls, frags in _CLASSES:
        for f in frags:
            if f in text:
                return cls
    return "type-error"


def panic_message(res):
    m = re.search(r"panicked at ([^\n]*)\n([^\n]*)", res.err)
    if not m:
        return None
    loc, msg = m.group(1), m.group(2)
    loc = re.sub(r":\d+:\d+:?$", "", loc.strip())
    msg = re.sub(r"\d+", "N", msg)
    return f"{loc}: {msg}"[:200]


def error_chain(res):
    """Normalised text of the `Caused by` chain / compile diagnostic for signatures."""
    t = res.err
    t = re.sub(r"0x[0-9a-fA-F]+", "0xN", t)
    return t
