"""Exploration engine shared by all checks: layered exhaustive enumeration, parallel execution
of every case on the real binary, violation confirmation, known-finding matching, replay
directories, evidence files."""
import ast
import hashlib
import json
import multiprocessing as mp
import os
import pprint
import re
import resource
import sys
import time
import traceback

from . import build, driver

VERIF = build.VERIF
# evidence and replay directories are written under /verif; a tool that runs the checks against a scratch copy of the repository
# (MSCRIPT_REPO) redirects them so that the committed evidence of the real tree is not overwritten
OUT = os.environ.get("MSCRIPT_VERIF_OUT", VERIF)
NPROC = int(os.environ.get("VERIF_JOBS", str(min(16, os.cpu_count() or 4))))
MAX_VIOLATION_LINES = 40


class Check:
    """Base class of a property check.  Subclasses define `layers` and `run_case`."""
    id = "C00"
    level = "exploration"          # evidence level
    rule = ""
    assumptions = []
    quick_cap_s = 300.0       # a quick tier normally ends within a minute; the cap only bounds a badly overloaded machine
    thorough_cap_s = 25 * 60.0
    chunksize = 16
    need_probe = False
    min_distinct_outcomes = 2

    def layers(self, tier):
        """-> list of (layer name, iterable of cases).  Cases are python literals."""
        raise NotImplementedError

    def run_case(self, case):
        """Executed in a worker process.  -> dict(outcome=str, tags=[...], viol=[...],
        nontrivial=bool, extra counters ...)"""
        raise NotImplementedError

    batch = 1      # > 1: cases travel to the workers in groups of this size and `run_batch` may execute a whole group at once

    def run_batch(self, cases):
        """Optional fast path: execute several cases in ONE run of the implementation.  -> list of results (one per case, same
        order) when every case of the group demonstrably passed, or None - then each case is executed on its own by `run_case`
        (so every reported violation is reproduced by a single-case program)."""
        return None

    def finish(self, stats, tier):
        """Called in the parent after exploration; may add coverage keys / vacuity errors.
        Return a list of machinery-error strings (empty = fine)."""
        return []

    def describe(self, case):
        """A JSON-friendly rendering of a case for the `samples` list."""
        return case


_CHECK = None


def _worker(case):
    # an exception inside the harness (not a verdict) is retried once: on an overloaded machine a dump or trace file can be cut short
    # by a timeout; only an exception that repeats is reported as a machinery error, together with the case
    for attempt in (0, 1, 2):
        try:
            r = _CHECK.run_case(case)
            if r is None:
                r = {"outcome": "none"}
            if r.get("machinery") and attempt < 2:
                # a case that reports a problem of the machinery itself (a control program that did not run, a dump that could not be read) is
                # run again as well: on a busy machine one time-out must not turn a verdict-free case into exit status 2
                tb = str(r["machinery"])
                time.sleep(0.5)
                continue
            if attempt:
                r.setdefault("tags", [])
                r["tags"] = list(r["tags"]) + ["harness-retry"]
            return case, r
        except Exception:
            tb = traceback.format_exc()
            time.sleep(0.5)
    return case, {"outcome": "harness-exception", "machinery": f"case {case!r}\n{tb}"}


def _batch_worker(cases):
    """-> list of (case, result).  A group whose one-run fast path did not pass is re-run case by case; if every case passes on
    its own, the group itself is reported as a pseudo-case ("__batch__", cases) so that an order-dependent failure is not lost."""
    try:
        rs = _CHECK.run_batch(list(cases))
    except Exception:
        return [(cases[0], {"outcome": "harness-exception", "machinery": traceback.format_exc()})]
    if rs is not None:
        return list(zip(cases, rs))
    out = [_worker(c) for c in cases]
    if not any(r.get("viol") or r.get("outcome") in ("rejected", "harness-exception") for _, r in out):
        out.append(_worker(("__batch__", tuple(cases))))
    return out


def _chunks(it, n):
    buf = []
    for x in it:
        buf.append(x)
        if len(buf) == n:
            yield tuple(buf)
            buf = []
    if buf:
        yield tuple(buf)


def _flatten(it):
    for group in it:
        for pair in group:
            yield pair


def _init_worker():
    import signal
    signal.signal(signal.SIGINT, signal.SIG_IGN)


def case_key(case):
    return hashlib.blake2b(repr(case).encode(), digest_size=8).digest()


def load_findings():
    p = os.path.join(VERIF, "known_findings.json")
    if not os.path.exists(p):
        return []
    with open(p) as f:
        data = json.load(f)
    return data.get("findings", [])


def finding_matches(entry, prop, viol):
    if entry.get("status", "open") != "open":
        return False          # fixed entries suppress nothing
    if entry.get("property") != prop:
        return False
    sig = viol.get("sig", {})
    m = entry.get("match", {})
    alternatives = m if isinstance(m, list) else [m]      # a list = the same defect seen through several signatures

    def one(alt):
        for k, pat in alt.items():
            v = sig.get(k)
            if v is None:
                return False
            if not re.fullmatch(pat, str(v), re.S):
                return False
        return True
    return any(one(a) for a in alternatives)


def write_replay(check, case, viol, result):
    h = hashlib.blake2b(repr((case, viol.get("sig"))).encode(), digest_size=6).hexdigest()
    d = os.path.join(OUT, "replay", check.id, h)
    os.makedirs(d, exist_ok=True)
    with open(os.path.join(d, "case.py"), "w") as f:
        f.write(repr({"property": check.id, "module": check.__class__.__module__,
                      "cls": check.__class__.__name__, "case": case}))
    with open(os.path.join(d, "violation.json"), "w") as f:
        json.dump({"property": check.id, "sig": viol.get("sig"), "what": viol.get("what"),
                   "detail": viol.get("detail")}, f, indent=1, default=str)
    files = (viol.get("detail") or {}).get("files") or {}
    for name, content in files.items():
        p = os.path.join(d, "files", name)
        os.makedirs(os.path.dirname(p), exist_ok=True)
        mode = "wb" if isinstance(content, bytes) else "w"
        with open(p, mode) as f:
            f.write(content)
    return d


def same_viols(a, b):
    sa = sorted(json.dumps(v.get("sig"), sort_keys=True, default=str) for v in (a.get("viol") or []))
    sb = sorted(json.dumps(v.get("sig"), sort_keys=True, default=str) for v in (b.get("viol") or []))
    return sa == sb


def explore(check, tier, seed=0):
    global _CHECK
    t0 = time.time()
    build.build(probe=check.need_probe)
    t_build = time.time() - t0
    _CHECK = check
    os.environ["VERIF_TIER_"] = tier
    cap = check.quick_cap_s if tier == "quick" else check.thorough_cap_s
    cap = float(os.environ.get("VERIF_CAP_S", cap))
    findings = load_findings()

    stats = {
        "evaluations": 0, "outcomes": {}, "tags": {}, "layers": [], "capped": False,
        "machinery": [], "unreproduced": 0, "samples": [], "known": {}, "violations": [],
        "nontrivial_keys": set(), "all_keys": set(), "counters": {},
    }
    viol_groups = {}     # sig-json -> (case, viol, result, count)
    ctx = mp.get_context("fork")
    pool = ctx.Pool(NPROC, initializer=_init_worker)
    layers = check.layers(tier)
    only = [x for x in os.environ.get("VERIF_LAYERS", "").split(",") if x]
    if only:
        # a partial run (used to finish the layers a capped thorough run did not reach): it is reported as capped, never as exhaustive
        layers = [(ln, cs) for ln, cs in layers if any(ln.startswith(x) for x in only)]
        stats["capped"] = True
        stats["machinery_notes"] = [f"VERIF_LAYERS={','.join(only)}: only these layers were explored"]
    try:
        for lname, cases in layers:
            lt0 = time.time()
            n = 0
            complete = True
            if check.batch > 1:
                it = _flatten(pool.imap_unordered(_batch_worker, _chunks(cases, check.batch), chunksize=max(1, check.chunksize // check.batch)))
            else:
                it = pool.imap_unordered(_worker, cases, chunksize=check.chunksize)
            for case, r in it:
                n += 1
                stats["evaluations"] += 1
                k = case_key(case)
                stats["all_keys"].add(k)
                if r.get("nontrivial", True):
                    stats["nontrivial_keys"].add(k)
                o = r.get("outcome", "?")
                stats["outcomes"][o] = stats["outcomes"].get(o, 0) + 1
                for tg in r.get("tags", ()):
                    stats["tags"][tg] = stats["tags"].get(tg, 0) + 1
                for ck, cv in (r.get("counters") or {}).items():
                    stats["counters"][ck] = stats["counters"].get(ck, 0) + cv
                if r.get("machinery"):
                    if len(stats["machinery"]) < 5:
                        stats["machinery"].append(r["machinery"])
                if len(stats["samples"]) < 6 or (n % 9973 == 0 and len(stats["samples"]) < 12):
                    stats["samples"].append({"layer": lname, "case": check.describe(case),
                                             "outcome": o, "show": r.get("show")})
                for v in r.get("viol") or ():
                    sj = json.dumps(v.get("sig"), sort_keys=True, default=str)
                    g = viol_groups.get(sj)
                    if g is None:
                        viol_groups[sj] = [case, v, r, 1]
                    else:
                        g[3] += 1
                        if len(repr(case)) < len(repr(g[0])):
                            g[0], g[1], g[2] = case, v, r
                if time.time() - t0 - t_build > cap:
                    complete = False
                    stats["capped"] = True
                    break
            stats["layers"].append({"name": lname, "cases": n, "complete": complete,
                                    "wall_s": round(time.time() - lt0, 2)})
            if not complete:
                break
    finally:
        pool.terminate()
        pool.join()

    # confirm, match, report
    exit_code = 0
    known_lines = {}
    nviol = 0
    for sj, (case, v, r, count) in sorted(viol_groups.items(), key=lambda kv: len(repr(kv[1][0]))):
        # determinism: the same case must fail the same way twice more
        ok = True
        timed_out = "timeout" in json.dumps([v.get("sig"), r.get("outcome")], default=str)
        driver.TIMEOUT_SCALE = 5.0 if timed_out else 1.0      # the pool is gone by now; a genuine hang still exceeds five times the limit
        for _ in range(1 if timed_out else 2):
            c2, r2 = _worker(case)
            if not any(json.dumps(v2.get("sig"), sort_keys=True, default=str) == sj
                       for v2 in (r2.get("viol") or ())):
                ok = False
        if not ok:
            stats["unreproduced"] += 1
            continue
        matched = None
        for e in findings:
            if finding_matches(e, check.id, v):
                matched = e
                break
        if matched is not None:
            kl = known_lines.setdefault(matched["id"], [matched, 0, case])
            kl[1] += count
            continue
        nviol += 1
        if nviol <= MAX_VIOLATION_LINES:
            d = write_replay(check, case, v, r)
            print(f"VIOLATION property={check.id} replay={d}  # {v.get('what','')[:160]} (x{count})",
                  flush=True)
        stats["violations"].append({"sig": v.get("sig"), "what": v.get("what"), "count": count})
        exit_code = 1
    driver.TIMEOUT_SCALE = 1.0
    for fid, (e, cnt, case) in sorted(known_lines.items()):
        print(f"KNOWN-FINDING: property={check.id} {e['id']}: {e['what']} ({cnt} explored cases)",
              flush=True)
        stats["known"][fid] = cnt
    if nviol > MAX_VIOLATION_LINES:
        print(f"... {nviol - MAX_VIOLATION_LINES} further distinct violation signatures not listed")

    errs = list(check.finish(stats, tier) or [])
    if stats["capped"]:
        # the wall cap stopped the enumeration early: what was explored is reported as such (evidence: exhaustive=false, layers
        # marked incomplete); coverage guards that presuppose a complete enumeration do not apply to a capped run
        for e in errs:
            if e.startswith("vacuity"):
                print("NOTE (capped run):", e)
        errs = [e for e in errs if not e.startswith("vacuity")]
    if stats["machinery"]:
        errs.append("harness exception in worker: " + stats["machinery"][0][-1500:])
    if len(stats["outcomes"]) < check.min_distinct_outcomes and not stats["capped"]:
        errs.append(f"vacuity guard: only {len(stats['outcomes'])} distinct outcome(s)")
    wall = time.time() - t0
    write_evidence(check, tier, seed, stats, wall, nviol)
    o = stats["outcomes"]
    print(f"[{check.id} {tier}] cases={stats['evaluations']} distinct_outcomes={len(o)} "
          f"violations={nviol} known={sum(stats['known'].values())} unreproduced={stats['unreproduced']} "
          f"layers={[(l['name'], l['cases'], l['complete']) for l in stats['layers']]} "
          f"capped={stats['capped']} wall={wall:.1f}s", flush=True)
    driver.cleanup_all()
    if exit_code == 0 and errs:
        for e in errs:
            print("MACHINERY-ERROR:", e)
        return 2
    return exit_code


def write_evidence(check, tier, seed, stats, wall, nviol):
    cov = {
        "evaluations": stats["evaluations"],
        "distinct_nontrivial": len(stats["nontrivial_keys"]),
        "distinct_cases": len(stats["all_keys"]),
        "rule": check.rule,
        "samples": stats["samples"][:12] or [{"note": "no case executed"}],
        "distinct_outcomes": len(stats["outcomes"]),
        "outcome_histogram": dict(sorted(stats["outcomes"].items(), key=lambda kv: -kv[1])[:40]),
        "construct_coverage": dict(sorted(stats["tags"].items())),
        "layers": stats["layers"],
        "exhaustive": not stats["capped"],
        "last_completed_layer": next((l["name"] for l in reversed(stats["layers"]) if l["complete"]), None),
        "known_findings_matched": stats["known"],
        "unreproduced": stats["unreproduced"],
        "violation_signatures": stats["violations"][:20],
    }
    cov.update(stats.get("extra_coverage", {}))
    for k, v in stats["counters"].items():
        cov.setdefault(k, v)
    ev = {
        "property_id": check.id, "tier": tier, "seed": seed, "level": check.level,
        "coverage": cov, "assumptions": list(check.assumptions), "wall_s": round(wall, 2),
        "violations": nviol,
    }
    problems = validate_evidence(ev)
    if problems:
        print("MACHINERY-ERROR: evidence does not satisfy schema:", problems)
    os.makedirs(os.path.join(OUT, "evidence"), exist_ok=True)
    with open(os.path.join(OUT, "evidence", f"{check.id}.json"), "w") as f:
        json.dump(ev, f, indent=1, default=str)
        f.write("\n")


def validate_evidence(ev):
    """Minimal structural validation (the harness is stdlib only); mirrors EVIDENCE.schema.json."""
    probs = []
    for k in ("property_id", "tier", "seed", "level", "coverage", "wall_s"):
        if k not in ev:
            probs.append(f"missing {k}")
    cov = ev.get("coverage", {})
    lvl = ev.get("level")
    if lvl in ("exploration", "fault_enumeration"):
        if cov.get("evaluations", 0) < 1:
            probs.append("evaluations<1")
        if cov.get("distinct_nontrivial", 0) < 2:
            probs.append("distinct_nontrivial<2")
        if not cov.get("samples"):
            probs.append("no samples")
        if "rule" not in cov:
            probs.append("no rule")
    if lvl == "model_checking":
        if all(k in cov for k in ("states", "transitions", "traces_validated_against_impl", "samples")):
            if cov["states"] < 1 or cov["transitions"] < 1 or not cov["samples"]:
                probs.append("model_checking keys below minimum")
        elif cov.get("evaluations", 0) < 1 or cov.get("distinct_nontrivial", 0) < 2:
            probs.append("fallback keys below minimum")
    return probs


def replay(path):
    """./check replay <dir>: re-run one recorded case on the current build, without the explorer."""
    import importlib
    with open(os.path.join(path, "case.py")) as f:
        rec = ast.literal_eval(f.read())
    mod = importlib.import_module(rec["module"])
    check = getattr(mod, rec["cls"])()
    build.build(probe=check.need_probe)
    global _CHECK
    _CHECK = check
    case, r = _worker(rec["case"])
    pprint.pprint({"case": case, "result": r}, width=140)
    findings = load_findings()
    bad = 0
    for v in r.get("viol") or ():
        if any(finding_matches(e, check.id, v) for e in findings):
            print(f"KNOWN-FINDING: property={check.id} {v.get('what')}")
        else:
            print(f"VIOLATION property={check.id} replay={path}")
            bad = 1
    driver.cleanup_all()
    return bad
