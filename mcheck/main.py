"""Entry point: ./check <Cxx> <quick|thorough> | ./check replay <path>"""
import importlib
import os
import sys

from .core import explore


def get_check(pid):
    mod = importlib.import_module(f"mcheck.props.{pid.lower()}")
    return getattr(mod, pid.upper())()


def main(argv):
    if len(argv) >= 2 and argv[0] == "replay":
        return explore.replay(argv[1])
    if len(argv) < 1:
        print(__doc__)
        return 2
    pid = argv[0]
    tier = argv[1] if len(argv) > 1 else os.environ.get("VERIF_TIER", "quick")
    seed = int(os.environ.get("VERIF_SEED", "0") or 0)
    return explore.explore(get_check(pid), tier, seed)


if __name__ == "__main__":
    sys.exit(main(sys.argv[1:]))
