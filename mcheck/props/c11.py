"""C11 — modules initialise exactly once, in import order, and all importers share one instance.
Exhaustive enumeration of import DAGs x per-edge (import form, path spelling, placement), each project
executed in memory (`run`) and from files (`compile` + `execute`) against a reference loader model."""
import itertools
import re
import os

from ..core import driver
from ..core.explore import Check
from ..lang import paths as P

FORMS = ["module", "names", "names+var"]      # names+var also imports the mutable counter variable by name
SPELLINGS = ["m", "m.ms", "./m"]
PLACES = ["before", "between", "after"]
DEFAULT = ("module", "m", "before")


def dags(n):
    """all DAGs on 0..n-1 with edges i->j (i<j) in which every node is reachable from 0"""
    pairs = [(i, j) for i in range(n) for j in range(i + 1, n)]
    out = []
    for mask in range(1 << len(pairs)):
        edges = [p for k, p in enumerate(pairs) if mask >> k & 1]
        reach = {0}
        changed = True
        while changed:
            changed = False
            for i, j in edges:
                if i in reach and j not in reach:
                    reach.add(j)
                    changed = True
        if len(reach) == n:
            out.append(tuple(edges))
    return out


# two more forms import a type alias of the module: alone (`import type T from m`: nothing is bound at run time, but the import still
# initialises the module) or together with names; they are combined with the plain spelling only
TYPE_FORMS = ["type-only", "type+names"]
EDGE_PARAMS = list(itertools.product(FORMS, SPELLINGS, PLACES)) + [(f, "m", pl) for f in TYPE_FORMS for pl in PLACES]


def name(i):
    return "main" if i == 0 else f"m{i}"


def module_source(i, edges, params, subdir, extra=None, noexp=frozenset()):
    """source of module i; edges/params: outgoing edges of the project; subdir: set of modules living in sub/"""
    me = name(i)
    out = [f'print "init {me}"']

    def imp_lines(j, form, spelling):
        base = name(j)
        if j in subdir and i in subdir:
            # both live in sub/: the path is relative to the importing file
            path = {"m": base, "m.ms": f"{base}.ms", "./m": f"./{base}"}[spelling]
        elif j in subdir:
            path = {"m": f"sub/{base}", "m.ms": f"sub/{base}.ms", "./m": f"./sub/{base}"}[spelling]
        else:
            path = {"m": base, "m.ms": f"{base}.ms", "./m": f"./{base}"}[spelling]
        L = []
        if j in noexp:
            # a module that exports nothing (it only has side effects): it can only be imported as a whole
            return [f"import {path}", f'print "{me}:{base} imported"']
        if form == "module":
            L.append(f"import {path}")
            L.append(f'print "{me}:{base} peek " + {base}.peek{j}()')
            L.append(f"{base}.bump{j}()")
            L.append(f"{base}.lst{j}.push({i})")
            L.append(f'print "{me}:{base} len " + {base}.lst{j}.len()')
            L.append(f'print "{me}:{base} cnt " + {base}.cnt{j}')
            L.append(f'print "{me}:{base} K " + {base}.K{j}')
            L.append(f"ob{i}_{j} = {base}.Cls{j}({i})")
            L.append(f'print "{me}:{base} obj " + ob{i}_{j}.getv()')
        elif form == "type-only":
            L.append(f"import type T{j} from {path}")
            L.append(f"tv{i}_{j}: T{j} = {j + 100}")
            L.append(f'print "{me}:{base} typed " + tv{i}_{j}')
        else:
            var = f", cnt{j}" if form == "names+var" else ""
            ty = f"type T{j}, " if form == "type+names" else ""
            L.append(f"import {ty}bump{j}, peek{j}, lst{j}{var}, K{j}, Cls{j} from {path}")
            L.append(f'print "{me}:{base} peek " + peek{j}()')
            L.append(f"bump{j}()")
            L.append(f"lst{j}.push({i})")
            L.append(f'print "{me}:{base} len " + lst{j}.len()')
            if form == "names+var":
                L.append(f'print "{me}:{base} copied " + cnt{j}')
            L.append(f'print "{me}:{base} K " + K{j}')
            L.append(f"ob{i}_{j} = Cls{j}({i})")
            L.append(f'print "{me}:{base} obj " + ob{i}_{j}.getv()')
        return L
    mine = [(j, params[(a, j)]) for (a, j) in edges if a == i]
    for j, (form, sp, place) in mine:
        if place == "before":
            out += imp_lines(j, form, sp)
    if i in noexp:
        out += [f"side{i} = {i}", f'print "effect {me} " + side{i}']
    else:
        out += [f"export class Cls{i} {{", "\tv: int", "\tconstructor(self, v: int) {", "\t\tself.v = v", "\t}", "\tfn getv(self) -> int {",
                f"\t\treturn self.v * 10 + {i}", "\t}", "}",
                f"export type T{i} int", f"export cnt{i}: int = 0", f"export lst{i}: [int...] = []", f"export const K{i}: int = {i * 11}", f"hidden{i} = {i}",
                f"export bump{i}: fn() -> int = fn() -> int {{", f"\tmodify cnt{i} = cnt{i} + 1", f"\treturn cnt{i}", "}",
                f"export peek{i}: fn() -> int = fn() -> int {{", f"\treturn cnt{i} + hidden{i} - {i}", "}"]
    for j, (form, sp, place) in mine:
        if place == "between":
            out += imp_lines(j, form, sp)
    out.append(f'print "mid {me}"')
    for j, (form, sp, place) in mine:
        if place == "after":
            out += imp_lines(j, form, sp)
    if extra and i in extra:
        out += extra[i]
    out.append(f'print "done {me}"')
    return "\n".join(out) + "\n"


def expected(n, edges, params, noexp=frozenset()):
    loaded = {}
    out = []

    def use(i, j, form):
        me, base = name(i), name(j)
        if j in noexp:
            out.append(f"{me}:{base} imported")
            return
        if form == "type-only":
            out.append(f"{me}:{base} typed {j + 100}")
            return
        st = loaded[j]
        copied = st["cnt"]
        out.append(f"{me}:{base} peek {st['cnt']}")
        st["cnt"] += 1
        st["lst"].append(i)
        out.append(f"{me}:{base} len {len(st['lst'])}")
        if form == "module":
            out.append(f"{me}:{base} cnt {st['cnt']}")
        elif form == "names+var":
            out.append(f"{me}:{base} copied {copied}")
        out.append(f"{me}:{base} K {j * 11}")
        out.append(f"{me}:{base} obj {i * 10 + j}")

    def run(i):
        loaded[i] = {"cnt": 0, "lst": []}
        out.append(f"init {name(i)}")
        mine = [(j, params[(a, j)]) for (a, j) in edges if a == i]
        for place in PLACES:
            if place == "between" and i in noexp:
                out.append(f"effect {name(i)} {i}")
            if place == "after":
                out.append(f"mid {name(i)}")
            for j, (form, sp, pl) in mine:
                if pl == place:
                    if j not in loaded:
                        run(j)
                    use(i, j, form)
        out.append(f"done {name(i)}")
    run(0)
    return out


class C11(Check):
    id = "C11"
    level = "model_checking"
    rule = ("all import DAGs over n modules (edges from lower to higher index, every module reachable from the entry) x per edge "
            "(import form in {import m, import a, b from m, import type T from m, import type T, a, b from m}, path spelling in {m, m.ms, ./m}, placement of the import before / between / "
            "after the importer's side-effecting statements) - all combinations for n <= 3, at most one (quick) / two (thorough) deviating "
            "edges for n = 4 and one for n = 5; variants with the imported leaf module in a sub-directory and with several modules in a sub-directory that import each other (paths relative to the importing file); variants in which leaf modules export "
            "nothing (side effects only); every exporting module also exports a class that its importers instantiate and call; negative cases (non-exported "
            "name through the module and through `import x from`, assignment to an exported member).  Each project is run in memory and "
            "from files.  State of the reference loader = (set of initialised modules, per-module counter and list); every project is one "
            "model trace replayed on the implementation.  Import statements that are EXECUTED MORE THAN ONCE: in a function / method called several times, in a loop body, "
            "in both arms of an if, in a nested function, in a function and at module level (either order), in two functions - under 4 import forms / spellings: one initialisation, one shared instance.  "
            "Name clashes: the importer (and a second importer) own a variable named like the module's state while the module's functions, the closures they return and the methods of its classes update that state (5 shapes x 2 import forms).  Module NAMES: the graphs with n <= 4 (n <= 2 all edge combinations, n = 3 one deviating edge, n = 4 default edges, sub-directory variants) are repeated with module names that are suffixes / prefixes of one another and of `main` (ain, in, n; mai, ma, m; m1, m11, m_1).")
    assumptions = ["a module in a sub-directory imports only modules of that sub-directory (the grammar cannot name a parent directory)", "a module's exported counter is mutated through its own exported closures"]
    chunksize = 8
    quick_cap_s = 300
    thorough_cap_s = 40 * 60

    def layers(self, tier):
        def all_combos(nmax):
            for n in range(1, nmax + 1):
                for edges in dags(n):
                    for combo in itertools.product(range(len(EDGE_PARAMS)), repeat=len(edges)):
                        yield (n, edges, combo, ())

        def deviating(n, k):
            d = EDGE_PARAMS.index(DEFAULT)
            for edges in dags(n):
                for kk in range(0, k + 1):
                    for which in itertools.combinations(range(len(edges)), kk):
                        for vals in itertools.product([x for x in range(len(EDGE_PARAMS)) if x != d], repeat=kk):
                            combo = [d] * len(edges)
                            for w, v in zip(which, vals):
                                combo[w] = v
                            yield (n, edges, tuple(combo), ())

        def subdirs():
            for n in (2, 3):
                for edges in dags(n):
                    leaves = [j for j in range(1, n) if not any(a == j for a, _ in edges)]
                    for combo in itertools.product(range(len(EDGE_PARAMS)), repeat=len(edges)):
                        for r in range(1, len(leaves) + 1):
                            for sd in itertools.combinations(leaves, r):
                                yield (n, edges, combo, sd)

        def subdir_closed(nmax, k, nmin=3):
            """sets of modules living in sub/ that are closed under import (a module in sub/ can only reach modules in sub/: the grammar has
            no way to name the parent directory) and contain at least one module that imports another"""
            d = EDGE_PARAMS.index(DEFAULT)
            for n in range(nmin, nmax + 1):
                for edges in dags(n):
                    for r in range(2, n):
                        for sd in itertools.combinations(range(1, n), r):
                            if any(a in sd and b not in sd for a, b in edges) or not any(a in sd and b in sd for a, b in edges):
                                continue
                            for kk in range(0, k + 1):
                                for which in itertools.combinations(range(len(edges)), kk):
                                    for vals in itertools.product([x for x in range(len(EDGE_PARAMS)) if x != d], repeat=kk):
                                        combo = [d] * len(edges)
                                        for w, v in zip(which, vals):
                                            combo[w] = v
                                        yield (n, edges, tuple(combo), sd)

        def negatives():
            for kind in ("hidden-through-module", "hidden-by-name", "assign-member", "assign-const-member", "reassign-module",
                         "unknown-member", "opassign-member", "opassign-const-member", "opassign-member-element", "opassign-member-in-fn",
                         "unwrap-into-member", "assign-member-element"):
                for form_sp in range(len(SPELLINGS)):
                    yield ("neg", kind, form_sp)
        def subdirs_dev(k, ns=(2, 3, 4)):
            d = EDGE_PARAMS.index(DEFAULT)
            for n in ns:
                for edges in dags(n):
                    leaves = [j for j in range(1, n) if not any(a == j for a, _ in edges)]
                    for kk in range(0, k + 1):
                        for which in itertools.combinations(range(len(edges)), kk):
                            for vals in itertools.product([x for x in range(len(EDGE_PARAMS)) if x != d], repeat=kk):
                                combo = [d] * len(edges)
                                for w, v in zip(which, vals):
                                    combo[w] = v
                                for r in range(1, len(leaves) + 1):
                                    for sd in itertools.combinations(leaves, r):
                                        yield (n, edges, tuple(combo), sd)

        def noexports(nmax, k):
            d = EDGE_PARAMS.index(DEFAULT)
            mods = [x for x in range(len(EDGE_PARAMS)) if EDGE_PARAMS[x][0] == "module"]
            for n in range(2, nmax + 1):
                for edges in dags(n):
                    leaves = [j for j in range(1, n) if not any(a == j for a, _ in edges)]
                    for r in range(1, len(leaves) + 1):
                        for ne in itertools.combinations(leaves, r):
                            for kk in range(0, k + 1):
                                for which in itertools.combinations(range(len(edges)), kk):
                                    for vals in itertools.product([x for x in mods if x != d], repeat=kk):
                                        combo = [d] * len(edges)
                                        for w, v in zip(which, vals):
                                            combo[w] = v
                                        yield (n, edges, tuple(combo), (), ne)

        def visibility(maxlen):
            decls = [(kd, ex) for kd in self.VIS_KINDS for ex in (True, False)]
            for n in range(1, maxlen + 1):
                for seq in itertools.product(decls, repeat=n):
                    for target in range(n):
                        for form in ("module", "names"):
                            yield ("vis", seq, target, form)
        reps = [("rep", w, a, b) for w in self.REP_WHERE for a in range(len(self.REP_FORMS)) for b in range(len(self.REP_FORMS))
                if b == 0 or w in ("fn-then-module", "module-then-fn", "two-functions", "if-arm-in-fn")]
        rens = [("ren", sch, c) for sch in self.RENAMES for c in list(all_combos(2)) + list(deviating(3, 1)) + list(deviating(4, 0))] + \
               [("ren", sch, c) for sch in ("suffix-chain", "suffix-chain-reversed") for c in subdirs_dev(0, ns=(2, 3))]
        ls = [("Lc-importer-variables-named-like-the-module's-state", [("clash", k, f) for k in self.CLASH_KINDS for f in (0, 1)]), ("Lr-import-statements-executed-more-than-once", reps), ("Ln-module-names-that-are-suffixes-or-prefixes-of-one-another", rens), ("L0-negative-cases", list(negatives())), (f"Lv-visibility-matrix-modules-of-<={2 if tier == 'quick' else 3}-declarations", list(visibility(2 if tier == "quick" else 3))),
              ("L0b-leaf-modules-without-exports", noexports(4, 1) if tier == "quick" else noexports(5, 1))]
        if tier == "quick":
            ls += [("L1-n<=2-all-combinations", all_combos(2)), ("L2-n=3-<=2-deviating-edges", deviating(3, 2)),
                   ("L3-subdirectory-leaves-n<=3-<=1-deviating-edge", subdirs_dev(1, (2, 3))),
                   ("L3b-sub-directory-modules-importing-each-other-n=3-<=1-deviating-edge+n=4-default", itertools.chain(subdir_closed(3, 1), subdir_closed(4, 0, 4))), ("L4-n=4-<=1-deviating-edge", deviating(4, 1))]
        else:
            ls += [("L1-n<=3-all-combinations", all_combos(3)), ("L2-n<=3-subdirectory-leaves-all-combinations", subdirs()),
                   ("L3-n=4-<=2-deviating-edges", deviating(4, 2)), ("L4-n=5-<=1-deviating-edge", deviating(5, 1)),
                   ("L5-subdirectory-leaves-n<=4-<=2-deviating-edges", subdirs_dev(2)),
                   ("L6-sub-directory-modules-importing-each-other-n<=5-<=1-deviating-edge", subdir_closed(5, 1))]
        return ls

    def describe(self, case):
        if case[0] == "ren":
            return dict(self.describe(case[2]), module_names=self.RENAMES[case[1]])
        if case[0] == "clash":
            return {"importer has its own `cnt`; module state reached through": case[1], "import form": ["import m", "import names from m"][case[2]]}
        if case[0] == "rep":
            return {"import executed more than once": case[1], "forms": [self.REP_FORMS[case[2]][0], self.REP_FORMS[case[3]][0]]}
        if case[0] == "neg":
            return {"negative": case[1], "spelling": SPELLINGS[case[2]]}
        if case[0] == "vis":
            return {"module": [("export " if ex else "hidden ") + kd for kd, ex in case[1]], "target": case[2], "form": case[3]}
        n, edges, combo, sd = case[:4]
        return {"noexp": list(case[4]) if len(case) > 4 else [], "n": n, "edges": [f"{name(a)}->{name(b)}:{'/'.join(EDGE_PARAMS[c])}" for (a, b), c in zip(edges, combo)], "subdir": list(sd)}

    # module NAMES that are suffixes / prefixes of one another (and of the entry module's name): a module is identified by its whole path, never by a part of it
    RENAMES = {"suffix-chain": {"m1": "ain", "m2": "in", "m3": "n", "m4": "xn"}, "suffix-chain-reversed": {"m1": "n", "m2": "in", "m3": "ain", "m4": "xmain"},
               "prefix-chain": {"m1": "mai", "m2": "ma", "m3": "mainx", "m4": "m"}, "underscore-and-digits": {"m1": "m_1", "m2": "m1", "m3": "m11", "m4": "_m1"}}

    def project(self, case):
        if case[0] == "ren":
            files, exp, params = self.project(case[2])
            ren = self.RENAMES[case[1]]
            rx = re.compile(r"(?<![A-Za-z0-9_])(m[1-4])(?![A-Za-z0-9_])")
            sub = lambda t: rx.sub(lambda m: ren[m.group(1)], t)
            return {sub(k): sub(v) for k, v in files.items()}, [sub(l) for l in exp], params
        n, edges, combo, sd = case[:4]
        ne = frozenset(case[4]) if len(case) > 4 else frozenset()
        params = {e: EDGE_PARAMS[c] for e, c in zip(edges, combo)}
        files = {}
        for i in range(n):
            fname = ("main.ms" if i == 0 else f"m{i}.ms")
            if i in sd:
                fname = "sub/" + fname
            files[fname] = module_source(i, edges, params, set(sd), noexp=ne)
        return files, expected(n, edges, params, ne), params

    # visibility matrix: a module is a sequence of declarations, each of a kind (variable, function, class, type alias) and either
    # exported or hidden; an importer reaches for every one of them in both access forms.  Exported ones must work, hidden ones must be
    # refused at compile time - wherever they stand relative to the exported declarations.
    VIS_KINDS = ["var", "fn", "class", "type"]

    @staticmethod
    def vis_decl(kind, k, exported):
        e = "export " if exported else ""
        if kind == "var":
            return [f"{e}va{k}: int = {k + 1}"]
        if kind == "fn":
            return [f"{e}fu{k}: fn() -> int = fn() -> int {{", f"\treturn {k + 11}", "}"]
        if kind == "class":
            return [f"{e}class Kl{k} {{", "\tv: int", "\tconstructor(self) {", f"\t\tself.v = {k + 21}", "\t}", "}"]
        return [f"{e}type Ty{k} int"]

    @staticmethod
    def vis_use(kind, k, form):
        """-> (importer source, expected last line) ; form: "module" (m.x) or "names" (import x from m)"""
        if kind == "var":
            return (f"import mv\nprint mv.va{k}\n", str(k + 1)) if form == "module" else (f"import va{k} from mv\nprint va{k}\n", str(k + 1))
        if kind == "fn":
            return (f"import mv\nprint mv.fu{k}()\n", str(k + 11)) if form == "module" else (f"import fu{k} from mv\nprint fu{k}()\n", str(k + 11))
        if kind == "class":
            return ((f"import mv\nob = mv.Kl{k}()\nprint ob.v\n", str(k + 21)) if form == "module"
                    else (f"import Kl{k} from mv\nob = Kl{k}()\nprint ob.v\n", str(k + 21)))
        if form == "module":
            return None
        return (f"import type Ty{k} from mv\ntv: Ty{k} = {k + 31}\nprint tv\n", str(k + 31))

    def run_vis(self, case):
        _, seq, target, form = case
        kind, exported = seq[target]
        use = self.vis_use(kind, target, form)
        if use is None:
            return {"outcome": "inexpressible", "nontrivial": False}
        lines = ['print "init mv"']
        for k, (kd, ex) in enumerate(seq):
            lines += self.vis_decl(kd, k, ex)
        files = {"main.ms": 'print "init main"\n' + use[0], "mv.ms": "\n".join(lines) + "\n"}
        d = driver.fresh_dir()
        driver.write_files(d, files)
        res = driver.run(["run", "main.ms", "-q"], d)
        viol = []
        desc = {"module": [("export " if ex else "hidden ") + kd for kd, ex in seq], "target": target, "form": form}
        sig = {"kind": None, "decl": kind, "exported": exported, "form": form, "before": ",".join(("E" if ex else "H") + kd for kd, ex in seq[:target])}
        detail = {"files": files, "res": res.brief(), "case": desc}
        rejected = driver.compile_rejected(res)
        if exported:
            if rejected or res.exit != 0 or res.lines()[-1:] != [use[1]]:
                viol.append({"sig": dict(sig, kind="exported-not-usable"), "what": f"{desc}: an exported {kind} must be usable by the importer; "
                             f"exit {res.exit}, stdout {res.out[-200:]!r}", "detail": detail})
        else:
            if not rejected:
                viol.append({"sig": dict(sig, kind="hidden-visible"), "what": f"{desc}: a {kind} that is not marked `export` must not be visible to the "
                             f"importer; exit {res.exit}, stdout {res.out[-160:]!r}", "detail": detail})
            elif any(l.strip().startswith("init ") for l in res.out.split("\n")):
                viol.append({"sig": dict(sig, kind="ran-before-reject"), "what": f"{desc}: statements ran although compilation failed", "detail": detail})
        return {"outcome": ("vis-exported" if exported else "vis-hidden") + ("-VIOL" if viol else ""), "viol": viol, "nontrivial": True,
                "tags": ["vis", "vis-exported" if exported else "vis-hidden"]}

    def run_neg(self, case):
        _, kind, spi = case
        sp = {"m": "m1", "m.ms": "m1.ms", "./m": "./m1"}[SPELLINGS[spi]]
        m1 = module_source(1, (), {}, set())
        body = {
            "hidden-through-module": f"import {sp}\nprint m1.hidden1\n",
            "hidden-by-name": f"import hidden1 from {sp}\nprint hidden1\n",
            "assign-member": f"import {sp}\nm1.cnt1 = 5\nprint m1.cnt1\n",
            "assign-const-member": f"import {sp}\nm1.K1 = 5\nprint m1.K1\n",
            "reassign-module": f"import {sp}\nm1 = 5\n",
            "unknown-member": f"import {sp}\nprint m1.nothing\n",
            "opassign-member": f"import {sp}\nm1.cnt1 += 5\nprint m1.cnt1\n",
            "opassign-const-member": f"import {sp}\nm1.K1 *= 2\nprint m1.K1\n",
            "opassign-member-element": f"import {sp}\nm1.lst1.push(1)\nm1.lst1[0] -= 1\nprint m1.lst1\n",
            "opassign-member-in-fn": f"import {sp}\nhf = fn() {{\n\tm1.cnt1 %= 2\n}}\nhf()\nprint m1.cnt1\n",
            "unwrap-into-member": f"import {sp}\ngv = fn() -> int? {{\n\treturn 4\n}}\nm1.cnt1 ?= gv()\nprint m1.cnt1\n",
            "assign-member-element": f"import {sp}\nm1.lst1.push(1)\nm1.lst1[0] = 9\nprint m1.lst1\n",
        }[kind]
        files = {"main.ms": 'print "init main"\n' + body, "m1.ms": m1}
        d = driver.fresh_dir()
        driver.write_files(d, files)
        res = driver.run(["run", "main.ms", "-q"], d)
        viol = []
        if not (driver.compile_rejected(res)):
            viol.append({"sig": {"kind": "negative-accepted", "case": kind}, "what": f"{kind} ({sp}) must be rejected at compile time; "
                         f"exit {res.exit}, stdout {res.out[-200:]!r}", "detail": {"files": files, "res": res.brief()}})
        elif any(l.strip().startswith("init ") for l in res.out.split("\n")):
            viol.append({"sig": {"kind": "ran-before-reject", "case": kind}, "what": "statements ran although compilation failed",
                         "detail": {"files": files, "res": res.brief()}})
        return {"outcome": "neg-rejected" if not viol else "neg-ACCEPTED", "viol": viol, "nontrivial": True, "tags": ["neg"]}

    # import statements that are EXECUTED MORE THAN ONCE (in a function called k times, in a loop body, in both arms of an if, in a function and at module
    # level, under two spellings): the module initialises at the first execution only, every execution sees the same instance
    REP_WHERE = ["fn-called-twice", "loop-body", "fn-then-module", "module-then-fn", "two-functions", "if-arm-in-fn", "nested-fn", "method-called-twice"]
    REP_FORMS = [("import m", "m.bump()", "m.peek()"), ("import bump, peek from m", "bump()", "peek()"), ("import ./m", "m.bump()", "m.peek()"), ("import m.ms", "m.bump()", "m.peek()")]

    def rep_project(self, case):
        _, where, f1, f2 = case
        mod = ('print "init m"\ncnt = 0\nexport bump: fn() -> int = fn() -> int {\n\tmodify cnt = cnt + 1\n\treturn cnt\n}\n'
               'export peek: fn() -> int = fn() -> int {\n\treturn cnt\n}\nprint "init m done"\n')
        i1, b1, p1 = self.REP_FORMS[f1]
        i2, b2, p2 = self.REP_FORMS[f2]

        def fnx(name, imp, bump):
            return [f"{name} = fn() -> int {{", "\t" + imp, "\treturn " + bump, "}"]
        L = ['print "start"']
        exp = ["start", "init m", "init m done"]
        if where == "fn-called-twice":
            L += fnx("ld", i1, b1) + ["print ld()", "print ld()", "print ld()"]
            exp += ["1", "2", "3"]
        elif where == "loop-body":
            L += ["from 0 to 3 {", "\t" + i1, "\tprint " + b1, "}"]
            exp += ["1", "2", "3"]
        elif where == "fn-then-module":
            L += fnx("ld", i1, b1) + ["print ld()", i2, "print " + b2, "print ld()", "print " + p2]
            exp += ["1", "2", "3", "3"]
        elif where == "module-then-fn":
            L += [i2, "print " + b2] + fnx("ld", i1, b1) + ["print ld()", "print ld()", "print " + p2]
            exp += ["1", "2", "3", "3"]
        elif where == "two-functions":
            L += fnx("la", i1, b1) + fnx("lb", i2, b2) + ["print la()", "print lb()", "print la()", "print lb()"]
            exp += ["1", "2", "3", "4"]
        elif where == "if-arm-in-fn":
            L += ["ld = fn(c: bool) -> int {", "\tif c {", "\t\t" + i1, "\t\treturn " + b1, "\t} else {", "\t\t" + i2, "\t\treturn " + b2, "\t}", "}",
                  "print ld(true)", "print ld(false)", "print ld(true)"]
            exp += ["1", "2", "3"]
        elif where == "nested-fn":
            L += ["outer = fn() -> int {", "\tinner = fn() -> int {", "\t\t" + i1, "\t\treturn " + b1, "\t}", "\treturn inner() + inner()", "}", "print outer()", "print outer()"]
            exp += ["3", "7"]
        elif where == "method-called-twice":
            L += ["class Ld {", "\tconstructor(self) {}", "\tfn go(self) -> int {", "\t\t" + i1, "\t\treturn " + b1, "\t}", "}", "lo = Ld()", "print lo.go()", "print lo.go()", "lo2 = Ld()", "print lo2.go()"]
            exp += ["1", "2", "3"]
        L += ['print "end"']
        return {"main.ms": "\n".join(L) + "\n", "m.ms": mod}, exp + ["end"]

    # NAME CLASHES between an importer's own variables and the state of the module it calls into: the module's functions (and the closures and
    # methods they create while running on the importer's behalf) work on the MODULE's variables
    CLASH_KINDS = ["direct", "inner-closure", "inner-closure-called-later", "method", "two-importers"]

    def clash_project(self, case):
        _, kind, form = case
        mod = ('cnt = 0\nexport bump: fn() -> int = fn() -> int {\n\tmodify cnt = cnt + 1\n\treturn cnt\n}\n'
               'export mk: fn() -> fn() -> int = fn() -> fn() -> int {\n\treturn fn() -> int {\n\t\tmodify cnt = cnt + 10\n\t\treturn cnt\n\t}\n}\n'
               'export class Ctr {\n\tconstructor(self) {}\n\tfn hit(self) -> int {\n\t\tmodify cnt = cnt + 100\n\t\treturn cnt\n\t}\n}\n'
               'export peek: fn() -> int = fn() -> int {\n\treturn cnt\n}\n')
        pre = "m." if form == 0 else ""
        imp = "import m" if form == 0 else "import bump, mk, Ctr, peek from m"
        L = [imp, "cnt = 7", 'print "start"']
        exp = ["start"]
        if kind == "direct":
            L += [f"print {pre}bump()", "print cnt", f"print {pre}peek()"]
            exp += ["1", "7", "1"]
        elif kind == "inner-closure":
            L += [f"k = {pre}mk()", "print k()", "print cnt", f"print {pre}peek()", "print k()", f"print {pre}peek()"]
            exp += ["10", "7", "10", "20", "20"]
        elif kind == "inner-closure-called-later":
            L += ["run = fn(g: fn() -> int) -> int {", "\tcnt = 50", "\treturn g() + cnt", "}", f"k = {pre}mk()", "print run(k)", "print cnt", f"print {pre}peek()"]
            exp += ["60", "7", "10"]
        elif kind == "method":
            L += [f"c1 = {pre}Ctr()", "print c1.hit()", "print cnt", f"print {pre}peek()"]
            exp += ["100", "7", "100"]
        elif kind == "two-importers":
            other = (imp + "\ncnt = 500\nexport go: fn() -> int = fn() -> int {\n\tk = " + pre + "mk()\n\treturn k() + cnt\n}\n")
            L = ["import other"] + L + [f"print {pre}bump()", "print other.go()", "print cnt", f"print {pre}peek()"]
            exp += ["1", "511", "7", "11"]
            return {"main.ms": "\n".join(L + ['print "end"']) + "\n", "m.ms": mod, "other.ms": other}, exp + ["end"]
        return {"main.ms": "\n".join(L + ['print "end"']) + "\n", "m.ms": mod}, exp + ["end"]

    def run_rep(self, case):
        files, exp = self.clash_project(case) if case[0] == "clash" else self.rep_project(case)
        viol = []
        for path in ("run", "exec"):
            d = driver.fresh_dir()
            driver.write_files(d, files)
            if path == "run":
                res = driver.run(["run", "main.ms", "-q"], d)
            else:
                c, res = P.pipeline_exec(d, "main.ms")
                if res is None:
                    res = c
            if driver.compile_rejected(res):
                return {"outcome": "rep-rejected", "nontrivial": False, "tags": ["rep-rejected", f"rep-rejected-{case[1]}"], "show": res.out[-300:]}
            if res.exit != 0 or res.lines() != exp:
                viol.append({"sig": {"kind": "import-executed-more-than-once" if case[0] == "rep" else "importer-variable-named-like-module-state", "where": case[1], "path": path},
                             "what": f"{self.describe(case)} ({path}): expected {exp}, got exit {res.exit} and {res.lines()} {res.err[-200:]}",
                             "detail": {"files": files, "res": res.brief(), "expected_lines": exp}})
                break
        return {"outcome": "rep-ok" + ("-DIFF" if viol else ""), "viol": viol, "nontrivial": True, "tags": [case[0], f"{case[0]}-{case[1]}"]}

    def run_case(self, case):
        if case[0] in ("rep", "clash"):
            return self.run_rep(case)
        if case[0] == "neg":
            return self.run_neg(case)
        if case[0] == "vis":
            return self.run_vis(case)
        files, exp, params = self.project(case)
        viol = []
        desc = self.describe(case)
        results = {}
        for path in ("run", "exec"):
            d = driver.fresh_dir()
            driver.write_files(d, files)
            if path == "run":
                res = driver.run(["run", "main.ms", "-q"], d)
            else:
                c, res = P.pipeline_exec(d, "main.ms")
                if res is None:
                    res = c
            results[path] = res
            lines = res.lines()
            if driver.compile_rejected(res):
                return {"outcome": "rejected", "nontrivial": False, "tags": ["rejected"], "show": res.out[-400:]}
            if res.exit != 0 or lines != exp:
                i = next((k for k, (a, b) in enumerate(zip(lines, exp)) if a != b), min(len(lines), len(exp)))
                dup = [l for l in set(lines) if l.startswith("init ") and lines.count(l) > 1]
                spell = sorted({p[1] for p in params.values()})
                kind = "double-initialisation" if dup else ("failure" if res.exit != 0 else "trace")
                forms = sorted({p[0] for p in params.values()})
                viol.append({"sig": {"kind": kind, "path": path, "spellings": ",".join(spell), "subdir": bool((case[2] if case[0] == "ren" else case)[3]),
                                     "names_var": "names+var" in forms},
                             "what": f"{desc} [{path}]: " + (f"module initialised more than once: {dup}; " if dup else "") +
                                     f"line {i}: expected {exp[i] if i < len(exp) else '<end>'!r} got {lines[i] if i < len(lines) else '<end>'!r} (exit {res.exit})",
                             "detail": {"files": files, "res": res.brief(), "expected_lines": exp, "path": path}})
        renamed = case[0] == "ren"
        if renamed:
            case = case[2]
        n, edges, combo, sd = case[:4]
        return {"outcome": "ok" + ("-DIFF" if viol else ""), "viol": viol, "nontrivial": len(edges) >= 1,
                "tags": [f"n{n}", f"edges{len(edges)}"] + (["renamed"] if renamed else []) + (["subdir"] if sd else []) + (["noexp"] if len(case) > 4 and case[4] else []) + (["diamond"] if any(
                    sum(1 for (_, b) in edges if b == j) > 1 for j in range(n)) else []),
                "counters": {"states": len(exp) + 1, "transitions": len(exp), "traces": 2}}

    def finish(self, stats, tier):
        errs = []
        for t in ("diamond", "subdir", "neg", "n3", "n4", "noexp"):
            if not stats["tags"].get(t):
                errs.append(f"vacuity: no project with tag {t}")
        if stats["tags"].get("rejected"):
            errs.append(f"vacuity: {stats['tags']['rejected']} generated projects rejected by the compiler")
        c = stats["counters"]
        stats["extra_coverage"] = {"states": c.get("states", 0), "transitions": c.get("transitions", 0),
                                   "traces_validated_against_impl": c.get("traces", 0)}
        return errs


def register_corpus(register):
    cases = []
    d = EDGE_PARAMS.index(DEFAULT)
    for n in (2, 3, 4):
        for edges in dags(n)[:6]:
            cases.append((n, edges, tuple([d] * len(edges)), ()))

    def count(tier):
        return len(cases)

    def get(i):
        files, exp, params = C11().project(cases[i])
        return files
    register("c11", count, get)
