"""C07 — closures capture variables by reference; `modify` writes through; fresh cells per execution.
(a) E-hist over closure templates (reference interpreter with explicit cells is the model);
(b) capture-site matrix: the captured variable is used inside each kind of AST node at closure nesting 1..3."""
from ..core import driver
from ..core.ehist import EHistCheck, Model
from ..lang import refint


def V(n):
    return ("var", n)


def I(n):
    return ("int", n)


def call(f, *args):
    return ("call", V(f), list(args))


def fn(params, ret, body):
    return ("fn", params, ret, body)


def asg(name, e, ty=None, flags=()):
    return ("assign", name, e, ty, flags)


def sat_inc(name, hi=3):
    return ("if", ("bin", "<", V(name), I(hi)), [asg(name, ("bin", "+", V(name), I(1)), None, ("modify",))], None)


def sat_dec(name):
    return ("if", ("bin", ">", V(name), I(0)), [asg(name, ("bin", "-", V(name), I(1)), None, ("modify",))], None)


FN0 = "fn() -> int"

TEMPLATES = {}

# T1: a module variable captured by several closures --------------------------------------------------
TEMPLATES["module-var"] = dict(
    prelude=[
        asg("x", I(0)),
        asg("getx", fn([], "int", [("return", V("x"))])),
        asg("incx", fn([], None, [sat_inc("x")])),
        asg("setx2", fn([], None, [asg("x", I(2), None, ("modify",))])),
        asg("shadow", fn([], "int", [asg("x", I(50)), ("return", V("x"))])),
        asg("twice", fn([], "int", [("return", ("bin", "+", call("getx"), call("getx")))])),
        asg("apply", fn([("f", FN0)], "int", [("return", ("call", V("f"), []))])),
        asg("plain", fn([], "int", [("return", I(1))])),
    ],
    ops=[("print", call("getx")), ("expr", call("incx")), ("expr", call("setx2")), ("print", V("x")),
         asg("x", I(0)), asg("x", I(1)), ("print", call("shadow")), ("print", call("twice")),
         ("print", call("apply", V("getx"))), ("print", ("method", V("getx"), "is_closure", [])),
         ("print", ("method", V("plain"), "is_closure", [])), ("print", ("method", V("incx"), "is_closure", []))],
    observers=[V("x")],
)

# T2: counter factory: every call of the factory creates fresh, independent cells ------------------------
_make = fn([("start", "int")], f"[{FN0}, fn(), fn()]",
           [asg("n", V("start")),
            asg("g", fn([], "int", [("return", V("n"))])),
            asg("i", fn([], None, [sat_inc("n")])),
            asg("d", fn([], None, [sat_dec("n")])),
            ("return", ("list", [V("g"), V("i"), V("d")]))])
TEMPLATES["factory"] = dict(
    prelude=[asg("make", _make), ("unpack", ["get1", "inc1", "dec1"], call("make", I(0))),
             ("unpack", ["get2", "inc2", "dec2"], call("make", I(2)))],
    ops=[("print", call("get1")), ("print", call("get2")), ("expr", call("inc1")), ("expr", call("inc2")),
         ("expr", call("dec1")), ("expr", call("dec2")),
         lambda k: [asg(f"tm{k}", call("make", I(1)), None, ("const",)), asg("get2", ("index", V(f"tm{k}"), I(0))),
                    asg("inc2", ("index", V(f"tm{k}"), I(1))), asg("dec2", ("index", V(f"tm{k}"), I(2)))],
         asg("get1", V("get2")),            # alias a closure value: both names now read instance 2
         ("print", ("bin", "+", call("get1"), call("get2")))],
    observers=[call("get1"), call("get2")],
)

# T3: three nesting levels; the innermost closure is created by a closure ---------------------------------
_outer = fn([("a", "int")], f"[{FN0}, fn(), fn() -> {FN0}]",
            [asg("c", V("a")),
             asg("rd", fn([], "int", [("return", V("c"))])),
             asg("bump", fn([], None, [sat_inc("c")])),
             asg("mk", fn([], FN0, [asg("k", ("bin", "*", V("c"), I(100))),
                                    ("return", fn([], "int", [("return", ("bin", "+", ("bin", "*", V("c"), I(10)), V("k")))]))])),
             ("return", ("list", [V("rd"), V("bump"), V("mk")]))])
TEMPLATES["nested"] = dict(
    prelude=[asg("outer", _outer), ("unpack", ["rd1", "bump1", "mk1"], call("outer", I(0))),
             ("unpack", ["rd2", "bump2", "mk2"], call("outer", I(1))),
             asg("deep1", call("mk1")), asg("deep2", call("mk2"))],
    ops=[("print", call("rd1")), ("print", call("rd2")), ("expr", call("bump1")), ("expr", call("bump2")),
         ("print", call("deep1")), ("print", call("deep2")), asg("deep1", call("mk1")), asg("deep2", call("mk1")),
         lambda k: [asg(f"tm{k}", call("outer", I(2)), None, ("const",)), asg("rd2", ("index", V(f"tm{k}"), I(0))),
                    asg("bump2", ("index", V(f"tm{k}"), I(1))), asg("mk2", ("index", V(f"tm{k}"), I(2)))]],
    observers=[call("rd1"), call("rd2"), call("deep1"), call("deep2")],
)

# T4: closures stored in a list, passed as arguments and created inside a method ---------------------------
_box = ("class", "Box", [("v", "int")], ([("v", "int")], [("setfield", V("self"), "v", V("v"))]),
        [("counter", [], f"[{FN0}, fn()]",
          [asg("n", ("field", V("self"), "v")),
           asg("g", fn([], "int", [("return", V("n"))])),
           asg("i", fn([], None, [sat_inc("n")])),
           ("return", ("list", [V("g"), V("i")]))]),
         ("setv", [("nv", "int")], None, [("setfield", V("self"), "v", V("nv"))])])
TEMPLATES["method-and-list"] = dict(
    prelude=[_box, asg("bx", ("new", "Box", [I(1)])),
             ("unpack", ["bg", "bi"], ("method", V("bx"), "counter", [])),
             asg("fs", ("list", [V("bg")]), f"[{FN0}...]"),
             asg("run0", fn([("l", f"[{FN0}...]")], "int", [asg("f0", ("index", V("l"), I(0))), ("return", ("call", V("f0"), []))]))],
    ops=[("print", call("bg")), ("expr", call("bi")), ("print", call("run0", V("fs"))),
         ("expr", ("method", V("bx"), "setv", [I(2)])), ("expr", ("method", V("bx"), "setv", [I(0)])),
         lambda k: [asg(f"tm{k}", ("method", V("bx"), "counter", []), None, ("const",)), asg("bg", ("index", V(f"tm{k}"), I(0))),
                    asg("bi", ("index", V(f"tm{k}"), I(1)))],
         ("expr", ("method", V("fs"), "push", [V("bg")])), ("print", ("method", V("fs"), "len", [])),
         ("print", ("field", V("bx"), "v"))],
    observers=[call("bg"), call("run0", V("fs")), ("field", V("bx"), "v"), ("method", V("fs"), "len", [])],
    cap_len=("fs", 3),
)

# T5: the shadowing family: a caller that has a local with the captured variable's name ---------------------
TEMPLATES["shadowing"] = dict(
    prelude=[asg("x", I(1)),
             asg("getx", fn([], "int", [("return", V("x"))])),
             asg("incx", fn([], None, [sat_inc("x")])),
             asg("caller", fn([("f", FN0)], "int", [asg("x", I(99)), ("return", ("call", V("f"), []))])),
             asg("caller2", fn([("f", "fn()")], "int", [asg("x", I(70)), ("expr", ("call", V("f"), [])), ("return", V("x"))]))],
    ops=[("print", call("caller", V("getx"))), ("print", call("caller2", V("incx"))), ("print", V("x")), ("expr", call("incx"))],
    observers=[V("x")],
)


class ClosureModel(Model):
    """Templates are AST programs.  Every template also exists as `<name>@fn`: the same prelude, history and observers executed inside one
    function body (classes stay at module level), so that every variable is a local of a running function instead of a module variable."""
    name = "closures"
    T = TEMPLATES
    FN_VARIANTS = True

    def templates(self, tier):
        base = list(self.T)
        return base + ([t + "@fn" for t in base] if self.FN_VARIANTS else [])

    def depth_of(self, tpl, depth):
        return depth if "@" not in tpl else max(2, depth - 1)

    @staticmethod
    def base(tpl):
        return tpl.split("@")[0]

    def tp(self, tpl):
        return self.T[self.base(tpl)]

    def wrap(self, tpl, stmts):
        if "@fn" not in tpl:
            return list(stmts)
        mod = [x for x in stmts if x[0] == "class"]
        body = [x for x in stmts if x[0] != "class"]
        return mod + [asg("runner9", fn([], None, body)), ("expr", call("runner9"))]

    def init(self, tpl):
        return {"hist": []}

    def clone(self, st):
        return {"hist": list(st["hist"])}

    def _stmts(self, tpl, op, k):
        o = self.tp(tpl)["ops"][op]
        return o(k) if callable(o) else [o]

    def _run(self, tpl, hist, extra=()):
        t = self.tp(tpl)
        ast = list(t["prelude"])
        for k, i in enumerate(hist):
            ast += self._stmts(tpl, i, k)
        ast += list(extra)
        it = refint.Interp()
        ok, failure = it.run(self.wrap(tpl, ast))
        return it, ok

    def canon(self, tpl, st):
        return self.observed(tpl, st) + self.model_identity(tpl, st)

    def observed(self, tpl, st):
        t = self.tp(tpl)
        it, ok = self._run(tpl, st["hist"], [("print", o) for o in t["observers"]])
        n = len(t["observers"])
        return tuple(it.out[-n:])

    def model_identity(self, tpl, st):
        """identity relations that only the model can see (no expression of the language is needed or assumed): which of the listed
        variable.field paths hold the very same container.  They refine state identity, so that 'shares the list' and 'holds an
        equal list' are different states and both get expanded.  (Computed on the module-level rendering.)"""
        paths = self.tp(tpl).get("same_container")
        if not paths:
            return ()
        it, ok = self._run(self.base(tpl), st["hist"])

        def resolve(path):
            v = it.frames[0].scopes[0][path[0]].v
            for f in path[1:]:
                v = v.fields[f].v
            return v
        vals = [resolve(p) for p in paths]
        return tuple(vals[i] is vals[j] for i in range(len(vals)) for j in range(i + 1, len(vals)))

    def _text(self, tpl, stmts):
        return refint.pblock(stmts, 1) if "@fn" in tpl else refint.program(stmts)

    def final_observation(self, tpl, st):
        t = self.tp(tpl)
        return self._text(tpl, [("print", o) for o in t["observers"]]), self.observed(tpl, st)

    def epilogue(self, tpl):
        return "}\nrunner9()\n" if "@fn" in tpl else ""

    def ops(self, tpl, st):
        t = self.tp(tpl)
        out = list(range(len(t["ops"])))
        if "cap_len" in t:
            name, cap = t["cap_len"]
            it, ok = self._run(tpl, st["hist"], [("print", ("method", V(name), "len", []))])
            if int(it.out[-1]) >= cap:
                out = [i for i in out if callable(t["ops"][i]) or not (t["ops"][i][0] == "expr" and t["ops"][i][1][0] == "method" and t["ops"][i][1][2] == "push")]
        return out

    def apply(self, tpl, st, op):
        before, _ = self._run(tpl, st["hist"])
        st["hist"].append(op)
        after, ok = self._run(tpl, st["hist"])
        return after.out[len(before.out):], not ok

    def prelude(self, tpl):
        pre = self.tp(tpl)["prelude"]
        if "@fn" not in tpl:
            return refint.program(pre)
        return refint.program([x for x in pre if x[0] == "class"]) + "runner9 = fn() {\n" + refint.pblock([x for x in pre if x[0] != "class"], 1)

    def prelude_obs(self, tpl):
        it = refint.Interp()
        it.run(self.wrap(tpl, self.tp(tpl)["prelude"]))
        return it.out

    def op_src(self, tpl, op, k):
        return self._text(tpl, self._stmts(tpl, op, k))

    def op_name(self, tpl, op):
        return refint.program(self._stmts(tpl, op, 0)).strip().split("\n")[0][:60]


# (b) capture-site matrix --------------------------------------------------------------------------------------
def site_bodies(cv=None, cb=None):
    """name -> (statements of the closure body using captured `cv` (int) only inside that node kind, returns int).
    `cv` / `cb` may be replaced by any int / bool expression (C02 re-uses the catalogue of consumer positions with operands that
    reach them through a container)."""
    cv = cv or V("cv")
    cb = cb or V("cb")
    lg = fn([("q", "int")], "int", [("return", ("bin", "+", V("q"), I(1)))])
    B = {
        "return": [("return", cv)],
        "binop-lhs": [("return", ("bin", "+", cv, I(1)))],
        "binop-rhs": [("return", ("bin", "-", I(10), cv))],
        "unary-minus": [("return", ("neg", cv))],
        "call-arg": [asg("h", lg), ("return", call("h", cv))],
        "list-literal": [asg("l", ("list", [I(0), cv]), "[int...]"), ("return", ("index", V("l"), I(1)))],
        "index-expr": [asg("l", ("list", [I(5), I(6), I(7), I(8)]), "[int...]"), ("return", ("index", V("l"), cv))],
        "if-cond": [("if", ("bin", "==", cv, I(2)), [("return", I(1))], None), ("return", I(0))],
        "if-body": [("if", ("bool", True), [("return", cv)], None), ("return", I(0))],
        "else-body": [("if", ("bool", False), [("return", I(0))], [("return", cv)]), ("return", I(0))],
        "elif-cond": [("if", ("bool", False), [("return", I(7))], ("if", ("bin", ">", cv, I(0)), [("return", I(1))], None)), ("return", I(0))],
        "while-cond": [asg("k", I(0)), ("while", ("bin", "<", V("k"), cv), [asg("k", ("bin", "+", V("k"), I(1)))]), ("return", V("k"))],
        "from-bound": [asg("s", I(0)), ("from", I(0), cv, False, None, "j", [asg("s", ("bin", "+", V("s"), I(1)))]), ("return", V("s"))],
        "from-start": [asg("s", I(0)), ("from", cv, I(4), False, None, "j", [asg("s", ("bin", "+", V("s"), I(1)))]), ("return", V("s"))],
        "from-step": [asg("s", I(0)), ("from", I(0), I(6), False, ("bin", "+", cv, I(1)), "j", [asg("s", ("bin", "+", V("s"), I(1)))]), ("return", V("s"))],
        "assign-rhs": [asg("t", cv), ("return", V("t"))],
        "opassign-rhs": [asg("t", I(1)), ("opassign", V("t"), "+=", cv), ("return", V("t"))],
        "print": [("print", cv), ("return", I(0))],
        "assert": [("assert", ("bin", ">=", cv, I(0))), ("return", I(1))],
        "or-fallback": [asg("o", ("nil",), "int?"), ("return", ("or", V("o"), cv))],
        "or-primary": [asg("o", cv, "int?"), ("return", ("or", V("o"), I(77)))],
        "unwrap-rhs": [asg("o", ("nil",), "int?"), ("if", ("unwrap", "o", ("call", fn([], "int?", [("return", cv)]), [])),
                                                      [("return", ("get", V("o")))], None), ("return", I(0))],
        "str-concat": [asg("s", ("bin", "+", ("str", "v"), cv)), ("return", ("method", V("s"), "len", []))],
        "method-arg": [asg("l", ("list", [I(4)]), "[int...]"), ("expr", ("method", V("l"), "push", [cv])), ("return", ("index", V("l"), I(1)))],
        "map-value": [asg("m", ("maplit", "str", "int", [(("str", "k"), cv)])), ("return", ("get", ("index", V("m"), ("str", "k"))))],
        "nested-closure": [asg("inner", fn([], "int", [("return", cv)])), ("return", call("inner"))],
        "nested-closure-2": [asg("inner", fn([], FN0, [("return", fn([], "int", [("return", cv)]))])), asg("i2", call("inner")), ("return", call("i2"))],
        "modify": [asg("cv", ("bin", "+", cv, I(5)), None, ("modify",)), ("return", cv)],
        "modify-in-if": [("if", ("bool", True), [asg("cv", I(3), None, ("modify",))], None), ("return", cv)],
        "modify-in-loop": [("from", I(0), I(2), False, None, None, [asg("cv", ("bin", "+", cv, I(1)), None, ("modify",))]), ("return", cv)],
        "local-shadow": [asg("cv", I(40)), ("return", cv)],
        "self-assign": [asg("cv", ("bin", "+", cv, I(1))), ("return", cv)],
        "self-assign-in-if": [("if", ("bool", True), [asg("cv", ("bin", "*", cv, I(2))), ("print", cv)], None), ("return", cv)],
        "self-opassign": [asg("t", I(0)), asg("t", cv), ("opassign", V("t"), "+=", cv), ("return", V("t"))],
        "selfcall-arg": [("return", cv)],
        # other captured kinds (declared by the owner next to cv): a list, a string, a bool, a function
        "setindex-value": [asg("l", ("list", [I(0), I(0)]), "[int...]"), ("setindex", V("l"), I(0), cv), ("return", ("index", V("l"), I(0)))],
        "captured-list-index": [("return", ("bin", "+", ("index", V("lc"), I(1)), cv))],
        "captured-list-method": [("return", ("bin", "+", ("method", V("lc"), "len", []), cv))],
        "captured-list-push": [("if", ("bin", "<", ("method", V("lc"), "len", []), I(4)), [("expr", ("method", V("lc"), "push", [cv]))], None),
                               ("return", ("method", V("lc"), "len", []))],
        "captured-str-method": [("return", ("bin", "+", ("method", V("cs"), "len", []), cv))],
        "captured-str-concat": [asg("s2", ("bin", "+", V("cs"), ("str", "!"))), ("return", ("method", V("s2"), "len", []))],
        "captured-bool-not": [("if", ("not", cb), [("return", I(1))], None), ("return", I(0))],
        "captured-bool-and": [("if", ("bin", "&&", cb, ("bin", ">", cv, I(0))), [("return", I(1))], None), ("return", I(0))],
        "bool-if-cond": [("if", cb, [("return", I(1))], None), ("return", I(0))],
        "bool-while-cond": [asg("k", I(0)), ("while", ("bin", "&&", cb, ("bin", "<", V("k"), I(2))), [asg("k", ("bin", "+", V("k"), I(1)))]), ("return", V("k"))],
        "bool-or-rhs": [("if", ("bin", "||", ("bin", ">", cv, I(5)), cb), [("return", I(1))], None), ("return", I(0))],
        "bool-assert": [("assert", cb), ("return", I(1))],
        "bool-xor": [("if", ("bin", "^", cb, ("bool", False)), [("return", I(1))], None), ("return", I(0))],
        "bool-eq": [("if", ("bin", "==", cb, ("bool", True)), [("return", I(1))], None), ("return", I(0))],
        "bool-return": [asg("rb", fn([], "bool", [("return", cb)])), ("if", call("rb"), [("return", I(1))], None), ("return", I(0))],
        "captured-callee": [("return", call("cf", cv))],
        "captured-callee-only": [("return", call("cf", I(3)))],
        # captured names whose ONLY use is inside an expression statement (a call made for its effect)
        "callee-stmt-only": [("expr", call("cf", I(3))), ("return", I(0))],
        "arg-stmt-only": [("expr", call("cf", cv)), ("return", I(0))],
        "receiver-stmt-only": [("expr", ("method", V("lc"), "push", [I(9)])), ("return", I(0))],
        # captured containers whose ONLY mention is as the root of a write path (element / field store, op-assignment through the path); the
        # following read goes through another closure-free route: the value returned is a constant, the write must simply not fail - and, in the
        # variants `..-then-read`, must be visible
        # op-assignment onto the captured variable itself writes through (the repository's test `self_has_different_meanings` documents it)
        "opassign-target": [("opassign", cv, "+=", I(1)), ("return", cv)],
        "opassign-target-only": [("opassign", cv, "*=", I(3)), ("return", I(0))],
        "opassign-target-in-block": [("if", ("bool", True), [("opassign", cv, "-=", I(1))], None), ("return", cv)],
        "setindex-target-only": [("setindex", V("lc"), I(0), I(9)), ("return", I(0))],
        "opassign-index-target-only": [("opassign", ("index", V("lc"), I(1)), "+=", I(1)), ("return", I(0))],
        "setfield-target-only": [("setfield", V("co"), "v", I(9)), ("return", I(0))],
        "opassign-field-target-only": [("opassign", ("field", V("co"), "v"), "+=", I(1)), ("return", I(0))],
        "setindex-target-then-read": [("setindex", V("lc"), I(0), cv), ("return", ("index", V("lc"), I(0)))],
        "setfield-target-then-read": [("setfield", V("co"), "v", ("bin", "+", cv, I(3))), ("return", ("field", V("co"), "v"))],
        "is-operand": [("if", ("is", cv, cv), [("return", I(1))], None), ("return", I(0))],
        "map-key-literal": [asg("m", ("maplit", "int", "int", [(cv, I(5))])), ("return", ("method", V("m"), "len", []))],
        "typed-assign-rhs": [asg("t", cv, "int"), ("return", V("t"))],
        "return-in-loop": [("from", I(0), I(3), False, None, None, [("return", cv)]), ("return", I(0))],
        "while-body": [asg("k", I(0)), asg("s", I(0)), ("while", ("bin", "<", V("k"), I(2)), [asg("s", ("bin", "+", V("s"), cv)), asg("k", ("bin", "+", V("k"), I(1)))]),
                       ("return", V("s"))],
    }
    return B


# what the closure does to the captured name BEFORE the site statement: nothing, a plain assignment (a local of the closure
# that shadows the captured variable from then on: every later use, including inner closures, means the local), a plain
# assignment reading the captured value, a `modify` (write-through), or a shadow confined to a nested block
PREFIXES = {
    "": [],
    "shadow": [asg("cv", I(40))],
    "self-assign": [asg("cv", ("bin", "+", V("cv"), I(10)))],
    "modify": [asg("cv", ("bin", "+", V("cv"), I(5)), None, ("modify",))],
    "shadow-in-block": [("if", ("bool", True), [asg("cv", I(40)), ("print", V("cv"))], None)],
}


# sites whose closure hands out an INNER closure that is called after the closure itself has returned (so that nothing on the
# call stack can stand in for a wrongly bound capture); `cl()` yields the inner function, which the harness calls
ESC_SITES = {
    "esc-read": [("return", fn([], "int", [("return", V("cv"))]))],
    "esc-modify": [("return", fn([], "int", [asg("cv", ("bin", "+", V("cv"), I(1)), None, ("modify",)), ("return", V("cv"))]))],
    "esc-read-from-block": [("if", ("bool", True), [("return", fn([], "int", [("return", V("cv"))]))], None),
                            ("return", fn([], "int", [("return", I(0))]))],
    "esc-two-levels": [("return", fn([], "int", [asg("in2", fn([], "int", [("return", V("cv"))])), ("return", call("in2"))]))],
}


# recursive closures: the closure calls itself with `self(..)` and uses what it captured AFTER the recursive call returned
def _rec(after, ret):
    return [("if", ("bin", ">", V("d"), I(0)), [asg("r", ("selfcall", [("bin", "-", V("d"), I(1))]))] + after + [("return", ret)], None), ("return", V("cv"))]


REC_SITES = {
    "rec-read-after": _rec([], ("bin", "+", V("r"), V("cv"))),
    "rec-modify-after": _rec([asg("cv", ("bin", "+", V("cv"), I(1)), None, ("modify",))], ("bin", "+", V("r"), V("cv"))),
    "rec-twice": _rec([asg("r2", ("selfcall", [("bin", "-", V("d"), I(1))]))], ("bin", "+", ("bin", "+", V("r"), V("r2")), V("cv"))),
    "rec-inner-closure-after": _rec([asg("g", fn([], "int", [("return", V("cv"))]))], ("bin", "+", V("r"), call("g"))),
    "rec-read-before-and-after": [("if", ("bin", ">", V("d"), I(0)), [asg("t", V("cv")), asg("r", ("selfcall", [("bin", "-", V("d"), I(1))])),
                                                                     ("return", ("bin", "+", ("bin", "+", V("t"), V("r")), V("cv")))], None),
                                  ("return", V("cv"))],
}


def _site_program(site, nesting, owner_kind):
    """closure created at `nesting` levels below the owner of cv; the owner assigns cv after creating the closure."""
    prefix, _, base = site.rpartition("+")
    esc = base in ESC_SITES
    rec = base in REC_SITES
    body = PREFIXES[prefix] + (ESC_SITES[base] if esc else REC_SITES[base] if rec else site_bodies()[base])
    clo = fn([("d", "int")] if rec else [], FN0 if esc else "int", body)
    FN0_ = f"fn() -> {FN0}" if esc else ("fn(int) -> int" if rec else FN0)

    def cc(name):
        return call(name, I(2)) if rec else call(name)
    # wrap: nesting 1 = closure defined directly in the owner's scope; 2 = inside a function defined there; 3 = two levels
    if nesting == 1:
        make = [asg("cl", clo)]
    elif nesting == 2:
        make = [asg("mk", fn([], FN0_, [("return", clo)])), asg("cl", call("mk"))]
    else:
        make = [asg("mk", fn([], f"fn() -> {FN0_}", [("return", fn([], FN0_, [("return", clo)]))])),
                asg("mk2", call("mk")), asg("cl", call("mk2"))]
    if esc:
        # two inner functions from two executions of the closure, interleaved calls, the owner's variable observed and re-assigned
        use = [asg("k1", call("cl")), ("print", call("k1")), ("print", call("k1")), ("print", V("cv")), asg("cv", I(2)),
               asg("k2", call("cl")), ("print", call("k2")), ("print", call("k1")), ("print", V("cv")),
               ("print", ("method", V("k1"), "is_closure", []))]
    else:
        use = [("print", cc("cl")), ("print", V("cv")), asg("cv", I(2)), ("print", cc("cl")), ("print", V("cv")),
               ("print", ("method", V("cl"), "is_closure", []))]
    extra = [asg("lc", ("list", [V("p") if owner_kind != "module" else I(1), I(7)]), "[int...]"), asg("cs", ("str", "ab")),
             asg("cb", ("bool", True)), asg("cf", fn([("q", "int")], "int", [("return", ("bin", "+", V("q"), I(1)))]))]
    if "'co'" in repr(body):
        extra.append(asg("co", ("new", "Cbox", [I(4)])))
    if not any(n in repr(body) for n in ("'lc'", "'cs'", "'cb'", "'cf'", "'co'")):
        extra = []
    if owner_kind == "escaped":
        # the closure outlives the execution of its owner: it is returned and called after the owner has returned
        owner = fn([("p", "int")], FN0_, [asg("cv", V("p"))] + extra + make + [("return", V("cl"))])
        if esc:
            return [asg("own", owner), asg("e1", call("own", I(1))), asg("k1", call("e1")), ("print", call("k1")), ("print", call("k1")),
                    asg("k2", call("e1")), ("print", call("k2")), ("print", call("k1")),
                    asg("e2", call("own", I(5))), asg("k3", call("e2")), ("print", call("k3")), ("print", call("k1")),
                    ("print", ("method", V("k1"), "is_closure", [])), ("print", ("str", "end"))]
        return [asg("own", owner), asg("e1", call("own", I(1))), ("print", cc("e1")), ("print", cc("e1")),
                asg("e2", call("own", I(5))), ("print", cc("e2")), ("print", cc("e1")),
                ("print", ("method", V("e1"), "is_closure", [])), ("print", ("str", "end"))]
    if owner_kind == "module":
        return [asg("cv", I(1))] + extra + make + use + [("print", ("str", "end"))]
    owner = fn([("p", "int")], "int", [asg("cv", V("p"))] + extra + make + use + [("return", V("cv"))])
    if owner_kind == "function":
        return [asg("own", owner), ("print", call("own", I(1))), ("print", call("own", I(0))), ("print", ("str", "end"))]
    # method
    cls = ("class", "Own", [], ([], []), [("run", [("p", "int")], "int", owner[3])])
    return [cls, asg("oo", ("new", "Own", [])), ("print", ("method", V("oo"), "run", [I(1)])), ("print", ("str", "end"))]


# captured variables of OTHER DECLARED TYPES than the int of the matrix above, written by `modify` with a value whose own type is compatible with, but not
# identical to, the declaration (a plain int into `int?`, an int into an alias of int, a fresh object into `Cbox?`, another function value into a
# function-typed variable, a string into `str?`): kind -> (raw lines before, declared type, initial value of p -> expr, written value, reader statements, reader expr,
# owner's later assignment)
def _rd_obj():
    return [asg("tq", ("or", V("cv"), ("new", "Cbox", [I(0)])))], ("field", V("tq"), "v")


TYPED_KINDS = {
    "int-typed": (None, "int", lambda p: p, ("bin", "+", V("cv"), I(5)), [], V("cv"), I(2)),
    "opt-int-nil": (None, "int?", lambda p: ("nil",), I(5), [], ("or", V("cv"), I(77)), I(2)),
    "opt-int-present": (None, "int?", lambda p: p, ("bin", "+", ("or", V("cv"), I(70)), I(1)), [], ("or", V("cv"), I(77)), I(2)),
    "opt-str-nil": (None, "str?", lambda p: ("nil",), ("bin", "+", ("str", "ab"), I(3)), [], ("method", ("or", V("cv"), ("str", "")), "len", []), ("str", "zzzz")),
    "opt-obj-nil": (None, "Cbox?", lambda p: ("nil",), ("new", "Cbox", [I(3)]), _rd_obj()[0], _rd_obj()[1], ("new", "Cbox", [I(8)])),
    "alias-int": ("type Tq int", "Tq", lambda p: p, ("bin", "+", V("cv"), I(5)), [], ("bin", "+", V("cv"), I(0)), I(2)),
    "fn-typed": (None, "fn() -> int", lambda p: fn([], "int", [("return", I(1))]), fn([], "int", [("return", I(6))]), [], call("cv"), fn([], "int", [("return", I(9))])),
    "list-typed": (None, "[int...]", lambda p: ("list", [p]), ("method", V("cv"), "clone", []), [], ("method", V("cv"), "len", []), ("method", ("method", V("cv"), "clone", []), "clone", [])),
}
TYPED_SITES = {
    "t-modify": lambda W, rs, R: [asg("cv", W, None, ("modify",))] + rs + [("return", R)],
    "t-modify-in-if": lambda W, rs, R: [("if", ("bool", True), [asg("cv", W, None, ("modify",))], None)] + rs + [("return", R)],
    "t-modify-in-loop": lambda W, rs, R: [("from", I(0), I(2), False, None, None, [asg("cv", W, None, ("modify",))])] + rs + [("return", R)],
    "t-read-only": lambda W, rs, R: rs + [("return", R)],
    "t-inner-modify": lambda W, rs, R: [asg("inner", fn([], "int", [asg("cv", W, None, ("modify",))] + rs + [("return", R)])), ("return", call("inner"))],
    "t-modify-only": lambda W, rs, R: [asg("cv", W, None, ("modify",)), ("return", I(0))],
}


def typed_program(kind, site, nesting, owner_kind):
    raw, ty, init, W, rs, R, OW = TYPED_KINDS[kind]
    clo = fn([], "int", TYPED_SITES[site](W, rs, R))
    if nesting == 1:
        make = [asg("cl", clo)]
    elif nesting == 2:
        make = [asg("mk", fn([], FN0, [("return", clo)])), asg("cl", call("mk"))]
    else:
        make = [asg("mk", fn([], f"fn() -> {FN0}", [("return", fn([], FN0, [("return", clo)]))])), asg("mk2", call("mk")), asg("cl", call("mk2"))]

    def show():
        return rs + [("print", R)]
    use = [("print", call("cl"))] + show() + [asg("cv", OW)] + ([("expr", ("method", V("cv"), "push", [I(9)]))] if kind == "list-typed" else []) + [("print", call("cl"))] + show() + [("print", ("method", V("cl"), "is_closure", []))]
    head = ([("raw", raw)] if raw else []) + ([_CBOX] if "Cbox" in repr((ty, W, R, OW)) else [])
    if owner_kind == "module":
        return head + [asg("cv", init(I(1)), ty)] + make + use + [("print", ("str", "end"))]
    if owner_kind == "escaped":
        owner = fn([("p", "int")], FN0, [asg("cv", init(V("p")), ty)] + make + [("return", V("cl"))])
        return head + [asg("own", owner), asg("e1", call("own", I(1))), ("print", call("e1")), ("print", call("e1")), asg("e2", call("own", I(4))),
                       ("print", call("e2")), ("print", call("e1")), ("print", ("method", V("e1"), "is_closure", [])), ("print", ("str", "end"))]
    owner = fn([("p", "int")], "int", [asg("cv", init(V("p")), ty)] + make + use + [("return", I(0))])
    if owner_kind == "function":
        return head + [asg("own", owner), ("print", call("own", I(1))), ("print", call("own", I(0))), ("print", ("str", "end"))]
    cls = ("class", "Own", [], ([], []), [("run", [("p", "int")], "int", owner[3])])
    return head + [cls, asg("oo", ("new", "Own", [])), ("print", ("method", V("oo"), "run", [I(1)])), ("print", ("str", "end"))]


# `modify cv = <a read out of a container>`: the captured variable receives the VALUE; a later write to the slot it was read from (inside the closure, or by
# the owner after the call) must not show through cv, and a later write to cv must not reach the slot
SNAP_SRC = {
    "elem": (("index", V("lc"), I(0)), [("setindex", V("lc"), I(0), I(99))]),
    "elem-var-index": (("index", V("lc"), V("kq2")), [("setindex", V("lc"), I(0), I(99))]),     # kq2: a local of the closure (an index that is itself captured is refused by the compiler)
    "elem-opassign": (("index", V("lc"), I(0)), [("opassign", ("index", V("lc"), I(0)), "+=", I(50))]),
    "elem-reverse": (("index", V("lc"), I(0)), [("expr", ("method", V("lc"), "reverse", []))]),
    "field": (("field", V("co"), "v"), [("setfield", V("co"), "v", I(99))]),
    "field-opassign": (("field", V("co"), "v"), [("opassign", ("field", V("co"), "v"), "*=", I(3))]),
    "fn-returning-elem": (call("ge"), [("setindex", V("lc"), I(0), I(99))]),
    "map-entry": (("get", ("index", V("mq"), ("str", "k"))), [("setindex", V("mq"), ("str", "k"), I(99))]),
    "nested-elem": (("index", ("index", V("nq"), I(0)), I(0)), [asg("iq", ("index", V("nq"), I(0))), ("setindex", V("iq"), I(0), I(99))]),      # not `(nq[0])[0] = 99`: a line must not start with `(`
}
SNAP_WHERE = ["in-closure", "owner-after-call", "owner-writes-cv-then-reads-slot"]


def snap_program(src, where, nesting, owner_kind):
    S, SET = SNAP_SRC[src]
    slot = S if S[0] != "call" and src != "elem-var-index" else ("index", V("lc"), I(0))
    body = ([asg("kq2", I(0))] if src == "elem-var-index" else []) + [asg("cv", S, None, ("modify",))] + (SET if where == "in-closure" else []) + [("return", V("cv"))]
    clo = fn([], "int", body)
    if nesting == 1:
        make = [asg("cl", clo)]
    elif nesting == 2:
        make = [asg("mk", fn([], FN0, [("return", clo)])), asg("cl", call("mk"))]
    else:
        make = [asg("mk", fn([], f"fn() -> {FN0}", [("return", fn([], FN0, [("return", clo)]))])), asg("mk2", call("mk")), asg("cl", call("mk2"))]
    rd = asg("rd", fn([], "int", [("return", V("cv"))]))

    def env(p):
        return [asg("cv", p), asg("kq", I(0)), asg("lc", ("list", [("bin", "+", p, I(10)), I(7)]), "[int...]"), asg("co", ("new", "Cbox", [("bin", "+", p, I(20))])),
                asg("mq", ("maplit", "str", "int", [(("str", "k"), ("bin", "+", p, I(30)))])),
                asg("nq", ("list", [("list", [("bin", "+", p, I(40))])]), "[[int...]...]"),
                asg("ge", fn([], "int", [("return", ("index", V("lc"), I(0)))]))]
    use = [("print", call("cl"))]
    if where == "owner-after-call":
        use += SET
    if where == "owner-writes-cv-then-reads-slot":
        use += [asg("cv", I(55))]
    use += [("print", V("cv")), ("print", call("rd")), ("print", slot if slot[0] != "get" else ("or", slot[1], I(0))), ("print", call("cl")), ("print", V("cv"))]
    if owner_kind == "module":
        return [_CBOX] + env(I(1)) + make + [rd] + use + [("print", ("str", "end"))]
    owner = fn([("p", "int")], "int", env(V("p")) + make + [rd] + use + [("return", V("cv"))])
    if owner_kind == "function":
        return [_CBOX, asg("own", owner), ("print", call("own", I(1))), ("print", call("own", I(0))), ("print", ("str", "end"))]
    if owner_kind == "escaped":
        # closure and reader are handed out; the slot is written through a third closure after the owner has returned
        setter = asg("st", fn([], "int", SET + [("return", I(0))]))
        owner = fn([("p", "int")], "[fn() -> int...]", env(V("p")) + make + [rd, setter, asg("fs", ("list", [V("cl"), V("rd"), V("st")]), "[fn() -> int...]"), ("return", V("fs"))])
        seq = [asg("fs1", call("own", I(1))), asg("c1", ("index", V("fs1"), I(0))), asg("r1", ("index", V("fs1"), I(1))), asg("s1", ("index", V("fs1"), I(2))),
               ("print", call("c1")), ("print", call("r1"))] + ([("print", call("s1"))] if where != "in-closure" else []) + [("print", call("r1")), ("print", call("c1")), ("print", call("r1"))]
        return [_CBOX, asg("own", owner)] + seq + [("print", ("str", "end"))]
    cls = ("class", "Own", [], ([], []), [("run", [("p", "int")], "int", owner[3])])
    return [_CBOX, cls, asg("oo", ("new", "Own", [])), ("print", ("method", V("oo"), "run", [I(1)])), ("print", ("str", "end"))]


_CBOX = ("class", "Cbox", [("v", "int")], ([("v", "int")], [("setfield", V("self"), "v", V("v"))]), [])


def site_program(*a, **kw):
    prog = _site_program(*a, **kw)
    if "'co'" in repr(prog):
        prog = [_CBOX] + prog
    return prog


# ---- name collisions: a closure that makes a name of its own (loop counter, block local, local assigned from an inner closure, parameter) equal to
# the name of a variable it also captures; each body: (lines of g's body, parameter list of g, argument text, python model of one call -> (result, new x))
COLL_BODIES = {
    "counter-then-inner-closure": (["s = 0", "from 0 to 3, x {", "\ts = s + x", "}", "h = fn() -> int {", "\treturn x", "}", "return h() + s"], "", "", lambda x: (x + 3, x)),
    "counter-then-read": (["s = 0", "from 0 to 3, x {", "\ts = s + x", "}", "return x + s"], "", "", lambda x: (x + 3, x)),
    "inner-closure-then-counter": (["h = fn() -> int {", "\treturn x", "}", "r = h()", "s = 0", "from 0 to 3, x {", "\ts = s + x", "}", "return r + s + h()"], "", "", lambda x: (2 * x + 3, x)),
    "counter-then-modify": (["s = 0", "from 0 to 3, x {", "\ts = s + x", "}", "modify x = x + s", "return x"], "", "", lambda x: (x + 3, x + 3)),
    "counter-in-block-then-inner-closure": (["s = 0", "if true {", "\tfrom 0 to 3, x {", "\t\ts = s + x", "\t}", "}", "h = fn() -> int {", "\treturn x", "}", "return h() + s"], "", "", lambda x: (x + 3, x)),
    "block-local-then-inner-closure": (["s = 0", "if true {", "\tx = 1", "\ts = x", "}", "h = fn() -> int {", "\treturn x", "}", "return h() + s"], "", "", lambda x: (x + 1, x)),
    "while-block-local-then-read": (["s = 0", "w = 0", "while w < 1 {", "\tw = w + 1", "\tx = 2", "\ts = x", "}", "return x + s"], "", "", lambda x: (x + 2, x)),
    "local-assigned-from-closure-reading-outer": (["x = apply(fn() -> int {", "\treturn x + 1", "})", "return x"], "", "", lambda x: (x + 1, x)),
    "local-assigned-from-closure-then-inner-read": (["x = apply(fn() -> int {", "\treturn x + 1", "})", "h = fn() -> int {", "\treturn x", "}", "return h()"], "", "", lambda x: (x + 1, x)),
    "other-local-assigned-from-closure-reading-outer": (["y = apply(fn() -> int {", "\treturn x + 1", "})", "return y"], "", "", lambda x: (x + 1, x)),
    "parameter-named-like-capture-read": (["return x + 1"], "x: int", "5", lambda x: (6, x)),
    "parameter-named-like-capture-modify-in-block": (["if x > 3 {", "\tmodify x = x + 100", "}", "return x"], "x: int", "5", lambda x: (5, 105)),
    "typed-local-then-inner-closure": (["x: int = 4", "h = fn() -> int {", "\treturn x", "}", "return h()"], "", "", lambda x: (4, x)),
}
COLL_OWNERS = ("escaped", "alive", "module")

# ---- `modify` with a value that is EQUAL to the one the captured variable holds but is another entity (a second closure made from the same function,
# a second list with the same elements): the write must happen - the owner and every other closure then work with the new entity
EQMOD = {
    "another-instance-of-the-same-closure": (["make = fn() -> (fn() -> int) {", "\tc = 0", "\treturn fn() -> int {", "\t\tmodify c = c + 1", "\t\treturn c", "\t}", "}",
                                              "cur = make()", "step = fn() -> int {", "\treturn cur()", "}", "reset = fn() {", "\tmodify cur = make()", "}",
                                              "print step()", "print step()", "reset()", "print step()", "print cur()", "reset()", "reset()", "print step()"], ["1", "2", "1", "2", "1"]),
    "another-list-with-the-same-elements": (["lst: [int...] = [1]", "other: [int...] = [1]", "swap = fn() {", "\tmodify lst = other", "}", "grow = fn() {", "\tlst.push(5)", "}",
                                             "swap()", "grow()", "print lst", "print other", "print lst is other"], ["[1, 5]", "[1, 5]", "true"]),
    "another-empty-list": (["lst: [int...] = []", "other: [int...] = []", "swap = fn() {", "\tmodify lst = other", "}", "swap()", "other.push(3)", "print lst", "print other"], ["[3]", "[3]"]),
    "another-object-with-equal-fields": (["class P {", "\tv: int", "\tconstructor(self) {", "\t\tself.v = 1", "\t}", "}", "pa = P()", "pb = P()", "swap = fn() {", "\tmodify pa = pb", "}",
                                          "swap()", "pb.v = 9", "print pa.v", "print pa is pb"], ["9", "true"]),
    "the-same-scalar-again": (["n = 4", "same = fn() -> int {", "\tmodify n = 4", "\treturn n", "}", "print same()", "n = 6", "print same()", "print n"], ["4", "4", "4"]),
}


def coll_program(body, owner):
    lines, params, arg, model = COLL_BODIES[body]
    ind = lambda ls, n: ["\t" * n + l for l in ls]
    pre = ["apply = fn(cb: fn() -> int) -> int {", "\treturn cb()", "}"]
    g = [f"g = fn({params}) -> int {{"] + ind(lines, 1) + ["}"]
    rd = ["rd = fn() -> int {", "\treturn x", "}"]
    calls = [f"print g({arg})", "print rd()", f"print g({arg})", "print rd()"]
    if owner == "module":
        src = pre + ["x = 10"] + g + rd + calls
    elif owner == "alive":
        src = pre + ["make = fn() {"] + ind(["x = 10"] + g + rd + calls, 1) + ["}", "make()"]
    else:
        gt = f"fn({params.split(': ')[1] if params else ''}) -> int"
        src = pre + ["make = fn() -> " + gt + " {"] + ind(["x = 10"] + g + ["return g"], 1) + ["}"]
        # the reader is a second closure made by the same execution: both are handed out through a holder object
        src = pre + ["class Hold {", "\tg: " + gt, "\trd: fn() -> int", "\tconstructor(self, g: " + gt + ", rd: fn() -> int) {", "\t\tself.g = g", "\t\tself.rd = rd", "\t}", "}",
                     "make = fn() -> Hold {"] + ind(["x = 10"] + g + rd + ["return Hold(g, rd)"], 1) + ["}", "hh = make()",
                     f"print hh.g({arg})", "print hh.rd()", f"print hh.g({arg})", "print hh.rd()"]
    x, exp = 10, []
    for _ in range(2):
        r, x = model(x)
        exp += [str(r), str(x)]
    return "\n".join(src) + "\n", exp


class C07(EHistCheck):
    id = "C07"
    model = ClosureModel()
    quick_depth = 9
    thorough_depth = 14
    chunksize = 16
    rule = ("(a) breadth-first search over histories of calls / assignments on five closure templates (module variable captured by several "
            "closures; counter factory with two instances and re-creation; three nesting levels with a closure created by a closure; closures "
            "created in a method, stored in a list and passed as arguments; the shadowing family), de-duplicated on the values of the "
            "template's observer expressions, every transition replayed on the real CLI; (b) capture-site matrix: the captured variable is "
            "used only inside one of 60 AST node kinds (incl. captured lists, strings, booleans, functions and objects as receiver / operand / callee / root of an element or field write path), with the closure created 1-3 levels below the owner (module, function, method, or "
            "escaped: returned and called after the owner has returned), the owner assigning the variable after the closure was created; the "
            "same matrix with the site preceded, inside the closure, by a shadowing local / a plain self-assignment / a modify / a block-local "
            "shadow of the captured name (so that inner closures created afterwards must bind the closure's own local); a third family in which "
            "the closure returns an inner closure (reading / modifying the name, created in a block, two levels deep) that is called only after "
            "its creator has returned, from two executions of the creator, interleaved; a fourth family of closures that call themselves with self(..) and read / modify "
            "what they captured, call themselves again or create an inner closure after the recursive call has returned; "
            "a fifth family in which the captured variable has one of 8 DECLARED TYPES (int, int? nil / present, str?, Cbox?, an alias of int, a function type, [int...]) and is written by "
            "`modify` - directly, in a block, in a loop, from an inner closure, without any read - with a value whose own type is compatible with but not identical to the declaration; "
            "a sixth family in which `modify` stores a value READ OUT OF A CONTAINER (list element - constant / variable index -, object field, map entry, nested list element, a function returning an element) and the slot it came from is then written "
            "(in the closure, by the owner after the call, through a third closure after the owner has returned) or the variable is: neither write may show through the other; "
            "is_closure() is observed in every case.  Every template is also explored (one level shallower) with prelude, history and observers executed "
            "inside one function body, so that all variables are locals of a running function.")
    assumptions = ["the reference interpreter with explicit cells is the model", "functions are never printed"]

    def layers(self, tier):
        ls = self.bfs(tier)
        own = ("module", "function", "method", "escaped")
        sites = [("site", s, n, o) for s in site_bodies() for n in (1, 2, 3) for o in own]
        pre = [("site", f"{p}+{s}", n, o) for p in PREFIXES if p for s in site_bodies() for n in ((1, 2) if tier == "quick" else (1, 2, 3)) for o in own]
        escs = [("site", f"{p}+{s}" if p else s, n, o) for p in PREFIXES for s in ESC_SITES for n in (1, 2, 3) for o in own]
        recs = [("site", s, n, o) for s in REC_SITES for n in (1, 2, 3) for o in own]
        typed = [("site", f"{k}@{t}", n, o) for k in TYPED_KINDS for t in TYPED_SITES for n in (1, 2, 3) for o in own]
        snaps = [("site", f"snap:{k}:{w}", n, o) for k in SNAP_SRC for w in SNAP_WHERE for n in (1, 2, 3) for o in own]
        coll = [("coll", b, o) for b in COLL_BODIES for o in COLL_OWNERS] + [("coll", "eqmod:" + b, o) for b in EQMOD for o in ("module", "alive")]
        return [("capture-site-matrix", sites), ("names-of-its-own-that-equal-a-captured-name-(counter,-block-local,-parameter,-local-assigned-from-an-inner-closure)", coll), ("modify-with-a-value-read-out-of-a-container-then-the-slot-or-the-variable-is-written", snaps), ("captured-variable-of-8-declared-types-written-by-modify-with-a-compatible-value", typed), ("capture-site-matrix-after-shadow/self-assign/modify", pre),
                ("inner-closure-escapes-its-creator", escs), ("recursive-closures-using-captures-after-the-recursive-call", recs)] + ls

    def describe(self, case):
        if case[0] == "coll":
            return {"collision": case[1], "owner": case[2]}
        if case[0] == "site":
            return {"site": case[1], "nesting": case[2], "owner": case[3]}
        return EHistCheck.describe(self, case)

    def run_coll(self, case):
        _, body, owner = case
        if body.startswith("eqmod:"):
            lines, exp = EQMOD[body[6:]]
            src = "\n".join(lines if owner == "module" else ["host = fn() {"] + ["\t" + l for l in lines] + ["}", "host()"]) + "\n"
        else:
            src, exp = coll_program(body, owner)
        res = driver.run_ms(src)
        detail = {"files": {"x.ms": src}, "res": res.brief(), "expected_lines": exp}
        sig = {"kind": "", "collision": body, "owner": owner}
        if driver.compile_rejected(res):
            # the compiler may refuse a name clash it cannot compile; what it accepts has to run with the captured variable intact
            return {"outcome": "coll-rejected", "nontrivial": False, "tags": ["coll-rejected"], "show": res.out[-300:]}
        viol = []
        if res.exit != 0:
            sig["kind"] = "unexpected-failure"
            viol.append({"sig": sig, "what": f"{body} / owner {owner}: exit {res.exit} ({driver.classify_failure(res)}): {res.err[-250:]}", "detail": detail})
        elif res.lines() != exp:
            sig["kind"] = "observation"
            viol.append({"sig": sig, "what": f"{body} / owner {owner}: expected {exp} got {res.lines()}", "detail": detail})
        return {"outcome": "coll-ok" + ("-DIFF" if viol else ""), "viol": viol, "nontrivial": True, "tags": ["coll"]}

    def run_case(self, case):
        if case[0] == "coll":
            return self.run_coll(case)
        if case[0] != "site":
            return EHistCheck.run_case(self, case)
        _, site, nesting, owner = case
        if site.startswith("snap:"):
            ast = snap_program(*site.split(":")[1:], nesting, owner)
        elif "@" in site:
            ast = typed_program(*site.split("@"), nesting, owner)
        else:
            ast = site_program(site, nesting, owner)
        src = refint.program(ast)
        it = refint.Interp()
        ok, failure = it.run(ast)
        res = driver.run_ms(src)
        lines = res.lines()
        viol = []
        detail = {"files": {"x.ms": src}, "res": res.brief(), "expected_lines": it.out}
        sig = {"kind": "", "site": site, "nesting": str(nesting), "owner": owner}
        if driver.compile_rejected(res):
            return {"outcome": "site-rejected", "nontrivial": False, "tags": ["site-rejected", f"srej-{site}"], "show": res.out[-300:]}
        if not ok:
            # a prefix can push the captured value out of a site's domain (index 40 of a 4-element list): the failure is the expected behaviour
            if res.exit == 0 or lines != it.out:
                sig["kind"] = "missing-failure"
                return {"outcome": "site-DIFF", "nontrivial": True, "tags": ["site"],
                        "viol": [{"sig": sig, "what": f"{site} nesting {nesting} owner {owner}: the model stops with {failure.kind} after {it.out}; "
                                                      f"got exit {res.exit} and {lines}", "detail": detail}]}
            return {"outcome": "site-both-fail", "nontrivial": True, "tags": ["site", f"site-{site}"]}
        if res.exit != 0:
            sig["kind"] = "unexpected-failure"
            viol.append({"sig": sig, "what": f"{site} nesting {nesting} owner {owner}: exit {res.exit} ({driver.classify_failure(res)}): "
                                             f"{res.err[-250:]}", "detail": detail})
        elif lines != it.out:
            sig["kind"] = "observation"
            viol.append({"sig": sig, "what": f"{site} nesting {nesting} owner {owner}: expected {it.out} got {lines}", "detail": detail})
        return {"outcome": "site-ok" + ("-DIFF" if viol else ""), "viol": viol, "nontrivial": True, "tags": ["site", f"site-{site}"]}

    def finish(self, stats, tier):
        errs = EHistCheck.finish(self, stats, tier)
        rej = {k: v for k, v in stats["tags"].items() if k.startswith("srej-")}
        if len(rej) > 3:
            errs.append(f"vacuity: capture sites rejected by the compiler: {rej}")
        stats["extra_coverage"]["capture_sites_rejected"] = rej
        return errs


def register_corpus(register):
    names = list(TEMPLATES)

    def count(tier):
        return len(names)

    def get(i):
        t = TEMPLATES[names[i]]
        ops = []
        for k, o in enumerate(t["ops"]):
            ops += o(k) if callable(o) else [o]
        return {"x.ms": refint.program(t["prelude"] + ops)}
    register("c07", count, get)
