"""C06 — compile-time constant folding agrees with run-time evaluation.
All literal expression trees up to a depth bound, each rendered folded (literals in place) and
unfolded (same tree over variables); differential oracle."""
import itertools
import math

from ..core import driver
from ..core.explore import Check
from ..lang import numeric as N

OPS = ["+", "-", "*", "/", "%", "<<", ">>", "&", "|", "xor"]

LEAVES = (
    [("int", v) for v in (0, 1, 2, 31, 32, 65536, 2147483646, 2147483647)]
    + [("intlit-wide", 2147483648)]
    + [("bigint", v) for v in (0, 1, 3, 127, 128, 2 ** 31, 2 ** 63, 2 ** 127 - 1)]
    + [("byte", v) for v in (0, 1, 2, 7, 8, 127, 128, 255)]
    + [("float", v) for v in (0.0, 0.5, 1.5, 3.0, 1e19, 2.0 ** 53, 1e300, 1e-300)]
)
SMALL = [("int", 1), ("int", 2147483647), ("bigint", 2 ** 63), ("byte", 255), ("float", 1.5), ("int", 0),
         ("byte", 2), ("bigint", 3)]


# alternative spellings of literals: ("form", kind, value, spelling).  The folded rendering uses the spelling, the unfolded one
# declares the variable with the canonical decimal / binary literal of the same kind and value.
FORMS = (
    [("form", "int", v, sp) for v, sp in ((0, "0x0"), (31, "0x1f"), (31, "0x1F"), (31, "0x0_1f"), (2147483647, "0x7fffffff"), (2147483647, "0x7FFF_FFFF"),
                                          (1000, "1_000"), (2147483647, "2_147_483_647"), (7, "007"), (0, "00"), (65536, "0x1_0000"))]
    + [("form", "intlit-wide", v, sp) for v, sp in ((2147483648, "0x80000000"), (2147483648, "2_147_483_648"), (4294967295, "0xFFFF_FFFF"))]
    + [("form", "bigint", v, sp) for v, sp in ((16, "B0x10"), (2 ** 64 - 1, "B0xFFFF_FFFF_FFFF_FFFF"), (1000, "B1_000"), (7, "B007"), (2 ** 127 - 1, "B0x7" + "f" * 31),
                                               (3, "B0x3"), (2 ** 63, "B9_223_372_036_854_775_808"))]
    + [("form", "byte", v, sp) for v, sp in ((255, "0b1111_1111"), (1, "0b00000001"), (0, "0b0000_0000"), (128, "0b1000_0000"), (2, "0b010"))]
    + [("form", "float", v, sp) for v, sp in ((5.0, "5f"), (5.0, "5F"), (0.0, "0f"), (10.25, "1_0.2_5"), (7.5, "007.50"), (1000.0, "1_000f"), (0.5, "0.5_0"),
                                              (1.5, "01.5"))]
)


def lit(leaf):
    if leaf[0] == "form":
        return leaf[3]
    k, v = leaf
    if k == "opt":                 # an int-or-nil literal whose variable (in the unfolded rendering) is declared `int?`
        return "nil" if v is None else str(v)
    if k in ("int", "intlit-wide"):
        return str(v)
    if k == "negwide":             # unary minus written directly on an integer literal that does not fit 32 bits: a bigint, whatever the negated value fits
        return f"-{v}"
    if k == "bigint":
        return f"B{v}"
    if k == "byte":
        return "0b" + bin(v)[2:]
    if k == "float":
        return N.float_literal(v)
    if k == "bool":
        return "true" if v else "false"
    if k == "nil":
        return "nil"
    raise ValueError(k)


# tree := ("L", leaf) | ("bin", op, t, t) | ("neg", t) | ("not", t) | ("get", t) | ("or", t, t) | ("list", t, t)
def render(t, names):
    """names: None -> literals in place; else dict leaf-position -> variable name (filled in order)."""
    tag = t[0]
    if tag == "L":
        if names is None:
            return lit(t[1])
        nm = f"v{len(names)}"
        names.append((nm, t[1]))
        return nm
    if tag == "bin":
        return f"({render(t[2], names)} {t[1]} {render(t[3], names)})"
    if tag == "neg":
        return f"(-{render(t[1], names)})"
    if tag == "not":
        return f"(!{render(t[1], names)})"
    if tag == "get":
        return f"(get {render(t[1], names)})"
    if tag == "or":
        return f"(({render(t[1], names)}) or {render(t[2], names)})"
    if tag == "list":
        return f"[{render(t[1], names)}, {render(t[2], names)}]"
    raise ValueError(tag)


TYPE = {"int": "int", "intlit-wide": "bigint", "negwide": "bigint", "bigint": "bigint", "byte": "byte", "float": "float", "bool": "bool"}


def decl(nm, leaf, other_kind="int"):
    if leaf[0] == "form":
        leaf = (leaf[1], leaf[2])
    k, v = leaf
    if k == "opt":
        return f"{nm}: int? = {lit(leaf)}"
    if k == "nil":
        return f"{nm}: {TYPE[other_kind]}? = nil"
    return f"{nm} = {lit(leaf)}"


def programs(t):
    e1 = render(t, None)
    names = []
    e2 = render(t, names)
    is_list = t[0] == "list"
    f = f"print {e1}\n" + ("" if is_list else f"print typeof {e1}\n")
    kinds = [(leaf[1] if leaf[0] == "form" else leaf[0]) for _, leaf in names if leaf[0] != "nil"] or ["int"]
    u = "".join(decl(nm, leaf, kinds[0]) + "\n" for nm, leaf in names) + f"print {e2}\n" + ("" if is_list else f"print typeof {e2}\n")
    return f, u


def programs_mixed(t, side):
    """half-folded rendering of (leaf op leaf): the operand on `side` is a variable, the other one stays a literal - the compiler cannot
    evaluate the operator, but it still has to give the literal the kind (and the instruction) it would have as a folded operand"""
    _, op, a, b = t
    la, lb = a[1], b[1]
    e = f"(v0 {op} {lit(lb)})" if side == 0 else f"({lit(la)} {op} v0)"
    return decl("v0", la if side == 0 else lb) + f"\nprint {e}\nprint typeof {e}\n"


def same_lines(a, b):
    if len(a) != len(b):
        return False
    for x, y in zip(a, b):
        if x == y:
            continue
        if x.startswith("Float:") and y.startswith("Float:"):
            try:
                fx, fy = float(x[6:].replace("NaN", "nan")), float(y[6:].replace("NaN", "nan"))
            except ValueError:
                return False
            if (fx != fx and fy != fy) or (fx == fy and math.copysign(1, fx) == math.copysign(1, fy)):
                continue
        return False
    return True


def has_opt(t):
    if t[0] == "L":
        return t[1][0] == "opt"
    return any(has_opt(x) for x in t[1:] if isinstance(x, tuple))


def opt_eval(t):
    """meaning of a tree over or / get / == nil / + -, as a typed-print line, or "FAIL" """
    def ev(t):
        if t[0] == "L":
            return None if t[1][1] is None else t[1][1]
        if t[0] == "or":
            a = ev(t[1])
            return a if a is not None else ev(t[2])
        if t[0] == "get":
            a = ev(t[1])
            if a is None:
                raise ArithmeticError
            return a
        if t[0] == "bin":
            a, b = ev(t[2]), ev(t[3])
            if t[1] == "==":
                return a == b
            if t[1] == "!=":
                return a != b
            if a is None or b is None:
                raise ArithmeticError
            return a + b if t[1] == "+" else a - b
        raise ValueError(t)
    try:
        v = ev(t)
    except ArithmeticError:
        return "FAIL"
    if v is None:
        return "Nil:nil"
    if isinstance(v, bool):
        return "Bool:" + ("true" if v else "false")
    return f"Int:{v}"


class C06(Check):
    id = "C06"
    level = "exploration"
    rule = ("all literal expression trees: depth 1 = every (leaf op leaf) over 33 literals of the four kinds (boundary values, "
            "incl. the int literal that does not fit 32 bits) x 10 foldable operators, unary minus / ! / get / or on every leaf; "
            "depth 2 = (T op L), (L op T), -(T), -(-L), list nesting over 8 leaves; depth 3 (thorough) = ((L op L) op L) op L and "
            "mirrored shapes over 4 leaves; literal spellings = 34 alternative spellings (hexadecimal, digit separators, leading zeros, "
            "f suffix, B-prefixed hexadecimal) alone, negated, in a list and as either operand of every operator, folded in that spelling vs. unfolded "
            "over variables initialised with the canonical literal.  Sequences: for 3 digit pairs x 10 operators, the 16 (9) kind combinations of the same digits and the negations, evaluated one after the other in ONE compilation, in every rotation and reversed (what the compiler keeps between two evaluations must not leak).  Each tree is run folded and unfolded.  Non-trivial = both renderings are accepted "
            "by the type checker or exactly one fails; distinct = distinct trees.")
    assumptions = ["dev profile", "kind observed through hook H2", "float digits compared by value (shortest-digit ties)"]
    chunksize = 32

    def layers(self, tier):
        def d1():
            for a in LEAVES:
                yield ("neg", ("L", a))
                yield ("neg", ("neg", ("L", a)))
                yield ("get", ("L", a))
                yield ("or", ("L", a), ("L", ("int", 1)))
                yield ("or", ("L", ("nil", None)), ("L", a))
                yield ("list", ("L", a), ("neg", ("L", a)))
            for b in (True, False):
                yield ("not", ("L", ("bool", b)))
                yield ("not", ("not", ("L", ("bool", b))))
            for op in OPS:
                for a, b in itertools.product(LEAVES, LEAVES):
                    yield ("bin", op, ("L", a), ("L", b))

        def d2():
            for op1, op2 in itertools.product(OPS, OPS):
                for a, b, c in itertools.product(SMALL, SMALL, SMALL):
                    yield ("bin", op2, ("bin", op1, ("L", a), ("L", b)), ("L", c))
                    yield ("bin", op2, ("L", c), ("bin", op1, ("L", a), ("L", b)))
            for op in OPS:
                for a, b in itertools.product(SMALL, SMALL):
                    yield ("neg", ("bin", op, ("L", a), ("L", b)))
                    yield ("bin", op, ("neg", ("L", a)), ("L", b))
                    yield ("bin", op, ("L", a), ("neg", ("L", b)))
                    yield ("list", ("bin", op, ("L", a), ("L", b)), ("L", a))

        def d3():
            S4 = SMALL[:4]
            for o1, o2, o3 in itertools.product(OPS, OPS, OPS):
                for a, b, c, d in itertools.product(S4, repeat=4):
                    yield ("bin", o3, ("bin", o2, ("bin", o1, ("L", a), ("L", b)), ("L", c)), ("L", d))
                    yield ("bin", o3, ("bin", o1, ("L", a), ("L", b)), ("bin", o2, ("L", c), ("L", d)))

        def forms():
            for a in FORMS:
                yield ("L", a)
                yield ("neg", ("L", a))
                yield ("list", ("L", a), ("neg", ("L", a)))
                for op in OPS:
                    for b in SMALL:
                        yield ("bin", op, ("L", a), ("L", b))
                        yield ("bin", op, ("L", b), ("L", a))
                    for b in FORMS:
                        if tier == "thorough" or op in ("+", "/", "&", "<<"):
                            yield ("bin", op, ("L", a), ("L", b))

        def extremes():
            # the most negative value of each kind has no literal: it is -(MAX) - 1; paired with small negative and positive partners
            minint = ("bin", "-", ("neg", ("L", ("int", 2147483647))), ("L", ("int", 1)))
            minbig = ("bin", "-", ("neg", ("L", ("bigint", 2 ** 127 - 1))), ("L", ("bigint", 1)))
            partners = [("neg", ("L", ("int", 1))), ("neg", ("L", ("bigint", 1))), ("neg", ("L", ("int", 2))), ("neg", ("L", ("float", 1.5))),
                        ("L", ("int", 0)), ("L", ("int", 1)), ("L", ("byte", 1)), ("L", ("bigint", 1)), ("L", ("int", 31)), ("L", ("int", 32)),
                        ("neg", ("L", ("int", 2147483647))), ("neg", ("L", ("bigint", 2 ** 127 - 1))), minint, minbig]
            for m in (minint, minbig):
                yield m
                yield ("neg", m)
                for op in OPS:
                    for b in partners:
                        yield ("bin", op, m, b)
                        yield ("bin", op, b, m)
            for op in OPS:
                for a, b in itertools.product(SMALL, SMALL):
                    yield ("bin", op, ("neg", ("L", a)), ("neg", ("L", b)))

        def optionals():
            # trees over `or` / `get` / `== nil` whose leaves are nil or present: every nesting of two `or`s, with the result printed,
            # unwrapped, or compared with nil (the folder must pick the operand the run-time `or` picks)
            O = [("L", ("opt", None)), ("L", ("opt", 4)), ("L", ("opt", 5))]
            P = [("L", ("int", 7))]
            for a, b in itertools.product(O, O + P):
                t = ("or", a, b)
                yield t
                yield ("bin", "==", t, ("L", ("opt", None)))
                if b[1][0] == "int":
                    yield ("bin", "+", t, ("L", ("int", 1)))
                else:
                    yield ("get", t)
            for a, b, c in itertools.product(O, O, O + P):
                for t in (("or", ("or", a, b), c), ("or", a, ("or", b, c))):
                    yield t
                    yield ("bin", "==", t, ("L", ("opt", None)))
                    if c[1][0] == "int":
                        yield ("bin", "-", t, ("L", ("int", 1)))
                    else:
                        yield ("get", t)
            for a in O:
                yield ("get", a)
                yield ("bin", "==", a, ("L", ("opt", None)))
                yield ("bin", "!=", ("L", ("opt", None)), a)

        def sequences():
            # CONTEXT INDEPENDENCE: literal expressions that differ only in the KINDS of their operands (same digits, same operator), evaluated one after
            # the other in one compilation, in every rotation of the sequence (each of them comes first once); whatever the compiler keeps
            # between two evaluations must not leak from one into the next
            K = ["int", "bigint", "byte", "float"]
            for a, b in ((2, 1), (20, 10), (7, 2)):
                for op in ["+", "-", "*", "/", "%", "&", "|", "xor", "<<", ">>"]:
                    ks = K if op in ("+", "-", "*", "/", "%") else K[:3]
                    if op in ("<<", ">>") and b > 7:
                        continue
                    trees = [("bin", op, ("L", (k1, float(a) if k1 == "float" else a)), ("L", (k2, float(b) if k2 == "float" else b))) for k1 in ks for k2 in ks]
                    trees += [("neg", ("L", (k, float(a) if k == "float" else a))) for k in ("int", "bigint", "float")]
                    for r in range(len(trees)):
                        yield ("seq", tuple(trees[r:] + trees[:r]))
                    yield ("seq", tuple(reversed(trees)))

        def mixed():
            lv = LEAVES if tier == "thorough" else [l for i, l in enumerate(LEAVES) if i % 2 == 0 or l[0] == "intlit-wide"]
            wide = ([("form", "intlit-wide", v, sp) for v, sp in ((2147483648, "0x80000000"), (4294967295, "0xFFFF_FFFF"))] + [("intlit-wide", 2 ** 40), ("intlit-wide", 2 ** 127 - 1)]
                    + [("negwide", 2147483648), ("negwide", 2147483649), ("negwide", 2 ** 40)])
            for op in OPS:
                for a, b in itertools.product(lv + wide, lv + wide):
                    for side in (0, 1):
                        yield ("mix", side, ("bin", op, ("L", a), ("L", b)))

        ls = [("L0-depth1", d1()), ("Lx-half-folded-one-operand-a-variable-the-other-a-literal", mixed()), ("Ls-sequences-of-same-digit-expressions-of-different-kinds-in-one-compilation", sequences()), ("Lo-optional-trees-or-get-nil", optionals()), ("Lf-literal-spellings", forms()), ("Lm-most-negative-values-and-negative-pairs", extremes())]
        if tier == "quick":
            def d2q():
                for i, t in enumerate(d2()):
                    if i % 16 == 0:
                        yield t
            ls.append(("L1-depth2-every-16th-shape", d2q()))
        else:
            ls.append(("L1-depth2", d2()))
            ls.append(("L2-depth3", d3()))
        return ls

    def describe(self, case):
        if case[0] == "seq":
            return {"sequence": [render(t, None) for t in case[1]]}
        if case[0] == "mix":
            return {"half-folded": render(case[2], None), "variable operand": "left" if case[1] == 0 else "right"}
        return {"folded": render(case, None)}

    def run_seq(self, case):
        import re
        fl, ul = [], []
        for i, t in enumerate(case[1]):
            f, u = programs(t)
            fl.append(f)
            ul.append(re.sub(r"\bv(\d+)\b", lambda m: f"s{i}v{m.group(1)}", u))
        f, u = "".join(fl), "".join(ul)
        env = {"MSCRIPT_VERIF_TYPED_PRINT": "1"}
        rf = driver.run_ms(f, env=env)
        ru = driver.run_ms(u, env=env)
        detail = {"files": {"folded.ms": f, "unfolded.ms": u}, "folded": rf.brief(), "unfolded": ru.brief()}
        viol = []
        if ru.exit != 0:
            # the sequences are built from expressions that evaluate without failure over variables; if not, the layer is mis-built
            return {"outcome": "seq-unfolded-fails", "nontrivial": False, "tags": ["seq", "seq-unfolded-fails"], "show": ru.err[-200:]}
        if rf.exit != 0:
            viol.append({"sig": {"kind": "sequence-folded-fails", "first": render(case[1][0], None)},
                         "what": f"a sequence of literal expressions that all evaluate over variables does not compile / run folded: {(rf.out + rf.err)[-300:]}", "detail": detail})
        elif not same_lines(rf.lines(), ru.lines()):
            a, b = rf.lines(), ru.lines()
            k = next((i for i in range(min(len(a), len(b))) if not same_lines(a[i:i + 1], b[i:i + 1])), 0)
            viol.append({"sig": {"kind": "sequence-differs", "expr": render(case[1][k // 2], None), "first": render(case[1][0], None)},
                         "what": f"in a sequence starting with {render(case[1][0], None)}, {render(case[1][k // 2], None)} folds to {a[k:k + 1]} but evaluates to {b[k:k + 1]} over variables",
                         "detail": detail})
        return {"outcome": "seq-ok" + ("-DIFF" if viol else ""), "viol": viol, "nontrivial": True, "tags": ["seq"]}

    def run_mixed(self, case):
        _, side, t = case
        m = programs_mixed(t, side)
        _, u = programs(t)
        env = {"MSCRIPT_VERIF_TYPED_PRINT": "1"}
        rm = driver.run_ms(m, env=env)
        ru = driver.run_ms(u, env=env)
        detail = {"files": {"half-folded.ms": m, "unfolded.ms": u}, "half-folded": rm.brief(), "unfolded": ru.brief()}
        viol = []
        rej_m, rej_u = driver.compile_rejected(rm), driver.compile_rejected(ru)
        expr = render(t, None)
        sig = {"kind": None, "op": t[1], "left": t[2][1][0] if t[2][1][0] != "form" else "form-" + t[2][1][1], "right": t[3][1][0] if t[3][1][0] != "form" else "form-" + t[3][1][1], "variable": side}
        if rej_u:
            return {"outcome": "mix-static-reject", "nontrivial": False, "tags": ["mix"]}
        if rej_m:
            viol.append({"sig": dict(sig, kind="half-folded-rejected"), "what": f"{expr} with one operand in a variable is rejected by the compiler; over two variables it is accepted: {(rm.out + rm.err)[-200:]}", "detail": detail})
        elif (rm.exit == 0) != (ru.exit == 0):
            viol.append({"sig": dict(sig, kind="half-folded-outcome-differs"), "what": f"{expr} with one operand in a variable ends with exit {rm.exit} ({driver.classify_failure(rm) if rm.exit else rm.lines()}), over two variables with exit {ru.exit} ({driver.classify_failure(ru) if ru.exit else ru.lines()})", "detail": detail})
        elif rm.exit == 0 and not same_lines(rm.lines(), ru.lines()):
            viol.append({"sig": dict(sig, kind="half-folded-value-differs"), "what": f"{expr} with one operand in a variable prints {rm.lines()}, over two variables {ru.lines()}", "detail": detail})
        return {"outcome": "mix-" + ("ok" if ru.exit == 0 else "fail") + ("-DIFF" if viol else ""), "viol": viol, "nontrivial": True, "tags": ["mix"]}

    def run_case(self, case):
        if case[0] == "seq":
            return self.run_seq(case)
        if case[0] == "mix":
            return self.run_mixed(case)
        f, u = programs(case)
        env = {"MSCRIPT_VERIF_TYPED_PRINT": "1"}
        rf = driver.run_ms(f, env=env)
        ru = driver.run_ms(u, env=env)
        expr = render(case, None)
        detail = {"files": {"folded.ms": f, "unfolded.ms": u}, "folded": rf.brief(), "unfolded": ru.brief()}
        viol = []

        def shape(t):
            if t[0] == "L":
                return "form-" + t[1][1] if t[1][0] == "form" else t[1][0]
            if t[0] == "bin":
                return f"({shape(t[2])}{t[1]}{shape(t[3])})"
            return t[0] + "(" + ",".join(shape(x) for x in t[1:]) + ")"

        def bad(kind, what):
            viol.append({"sig": {"kind": kind, "shape": shape(case)}, "what": f"{expr}: {what}", "detail": detail})

        def st(r):
            if r.exit == 0:
                return "ok"
            if driver.compile_rejected(r):
                return "rejected"
            if r.cls in ("panic",) and "compiler/src" in r.err:
                return "compiler-panic"
            return "runfail"
        sf, su = st(rf), st(ru)
        nontrivial = True
        if has_opt(case):
            # optional trees: the unfolded rendering is ill-typed for some of them by the language's own rules (the fallback of `or` must not be
            # optional unless the primary is the literal nil), so the folded program is judged against the meaning of or / get / == nil itself
            want = opt_eval(case)
            if sf == "compiler-panic":
                bad("compiler-panic", f"compiler panics on the literal expression: {driver.panic_message(rf)}")
            elif sf == "rejected":
                if su == "ok":
                    bad("folded-rejects-valid", f"compiler rejects the literal expression but over variables it evaluates to {ru.lines()}")
                nontrivial = su == "ok"
            elif want == "FAIL":
                if sf == "ok":
                    bad("folded-accepts-failing", f"`get` of nil must stop the program; the literal expression yields {rf.lines()}")
            elif sf == "runfail":
                bad("folded-runtime-failure", f"expected {want}; the folded program fails at run time ({driver.classify_failure(rf)})")
            else:
                if rf.lines()[:1] != [want]:
                    bad("value-differs", f"the literal expression means {want}; folded prints {rf.lines()[:1]}")
                if su == "ok" and not same_lines(rf.lines(), ru.lines()):
                    bad("value-differs", f"folded prints {rf.lines()} unfolded prints {ru.lines()}")
                elif su == "runfail":
                    bad("folded-accepts-failing", f"literal expression yields {rf.lines()} but fails at run time over variables ({driver.classify_failure(ru)})")
            return {"outcome": f"opt-{sf}-{su}" + ("-DIFF" if viol else ""), "viol": viol, "nontrivial": nontrivial, "tags": [case[0], "opt"]}
        if su == "rejected":
            # the type checker rejects the expression over variables: not a literal-evaluation question
            if sf not in ("rejected", "compiler-panic"):
                if sf == "ok":
                    bad("type-accept-differs", f"folded is accepted and prints {rf.lines()} but the same expression over variables is rejected statically")
                else:
                    bad("folded-runtime-failure", f"folded compiles and fails at run time: {rf.err[-200:]}")
            nontrivial = False
            outcome = "static-reject"
        elif sf == "compiler-panic":
            bad("compiler-panic", f"compiler panics on the literal expression: {driver.panic_message(rf)}")
            outcome = "compiler-panic"
        elif sf == "runfail" and su == "runfail" and driver.classify_failure(rf) == "type-error" \
                and driver.classify_failure(ru) == "type-error":
            # both renderings are accepted and die of the same dynamic type error: the literal evaluator had
            # nothing to evaluate; that the type checker accepted the expression is C02's business
            outcome = "both-dynamic-type-error"
            nontrivial = False
        elif sf == "runfail":
            bad("folded-runtime-failure", f"the folded program compiles and then fails at run time ({driver.classify_failure(rf)}); unfolded: {su}")
            outcome = "folded-runfail"
        elif sf == "rejected" and su == "ok":
            bad("folded-rejects-valid", f"compiler rejects the literal expression but over variables it evaluates to {ru.lines()}")
            outcome = "diff"
        elif sf == "ok" and su == "runfail":
            bad("folded-accepts-failing", f"literal expression yields {rf.lines()} but fails at run time over variables ({driver.classify_failure(ru)})")
            outcome = "diff"
        elif sf == "ok" and su == "ok":
            if not same_lines(rf.lines(), ru.lines()):
                k = "kind-differs" if [x.split(":")[0] for x in rf.lines()[:1]] != [x.split(":")[0] for x in ru.lines()[:1]] else "value-differs"
                bad(k, f"folded prints {rf.lines()} unfolded prints {ru.lines()}")
            outcome = "both-ok"
        else:
            outcome = "both-fail"
        return {"outcome": outcome + ("-DIFF" if viol else ""), "viol": viol, "nontrivial": nontrivial,
                "tags": [case[0]]}
