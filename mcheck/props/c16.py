"""C16 — the compiler is total: any input yields success or diagnostics, never a crash or a hang.
(a) grammar-directed deviation-bounded derivations of grammar.pest in host contexts; (b) exhaustive
single-token mutation of a corpus; (c) nesting towers up to 4 kB."""
import os
import re

from ..core import build, driver
from ..core.explore import Check
from ..lang import corpus, pestgen

PRELUDES = {
    "none": "",
    "int": "a = 1\n",
    "list": "a: [int...] = [1, 2]\n",
    "str": "a = \"s\"\n",
    "opt": "a: int? = nil\n",
    "fn": "a = fn(p: int) -> int {\n\treturn p\n}\n",
    "obj": "class A {\n\ta: int\n\tconstructor(self) {\n\t\tself.a = 1\n\t}\n\tfn m(self) -> int {\n\t\treturn 1\n\t}\n}\na = A()\n",
    "map": "a = map[str, int]\n",
}
HOSTS = ["module", "fn", "method", "if", "while", "from"]
ROOTS = {"declaration": "{X}", "value": "v = {X}", "value-print": "print {X}", "value-arg": "a({X})", "value-idx": "a[{X}]",
         "type": "t: {X} = a", "type-param": "g = fn(p: {X}) {{ }}", "class": "{X}", "import": "{X}",
         "function": "h = {X}", "reassignment": "{X}", "number_loop": "{X}", "if_statement": "{X}", "list": "w = {X}", "map": "w = {X}"}
RULE_OF = {"value-print": "value", "value-arg": "value", "value-idx": "value", "type-param": "type"}

_GEN = None


def gen():
    global _GEN
    if _GEN is None:
        _GEN = pestgen.Gen(open(os.path.join(build.REPO, "compiler/src/grammar.pest"), encoding="utf-8").read())
    return _GEN


def host_wrap(host, stmt):
    ind = "\n".join("\t" + l for l in stmt.split("\n"))
    if host == "module":
        return stmt + "\n"
    if host == "fn":
        return "hostf = fn(q: int) -> int {\n" + ind + "\n\treturn q\n}\n"
    if host == "method":
        return "class Host {\n\tconstructor(self) {}\n\tfn hm(self, q: int) -> int {\n" + "\n".join("\t" + l for l in ind.split("\n")) + \
            "\n\t\treturn q\n\t}\n}\n"
    if host == "if":
        return "if true {\n" + ind + "\n}\n"
    if host == "while":
        return "while true {\n" + ind + "\n\tbreak\n}\n"
    if host == "from":
        return "from 0 to 2, fi {\n" + ind + "\n}\n"
    raise ValueError(host)


def derivations(root, k):
    g = gen()
    rule = RULE_OF.get(root, root)
    seen = set()
    for text, used in g.derive(rule, k):
        if text not in seen:
            seen.add(text)
            yield text


TOWERS = {
    "paren": ("x = " + "(" * 1, "1", ")"),
    "list": ("x = ", "1", ""),
    "block-if": ("", "y = 1", ""),
    "fn": ("", "", ""),
    "unary": ("x = ", "1", ""),
    "index": ("x = a", "", ""),
    "dot": ("x = a", "", ""),
    "call": ("x = a", "", ""),
    "binop": ("x = 1", "", ""),
    "else-if": ("", "", ""),
    "type-list": ("", "", ""),
    "type-fn": ("", "", ""),
    "type-opt": ("", "", ""),
    # UNCLOSED towers followed by two values without a separator: the parse fails at the innermost level and every enclosing alternative is retried
    "list-unclosed": ("", "", ""),
    "paren-unclosed": ("", "", ""),
    "call-unclosed": ("", "", ""),
    "map-unclosed": ("", "", ""),
    "index-unclosed": ("", "", ""),
}


def tower(kind, n):
    if kind == "paren":
        return "x = " + "(" * n + "1" + ")" * n + "\n"
    if kind == "list":
        return "x = " + "[" * n + "1" + "]" * n + "\n"
    if kind == "block-if":
        return "if true {\n" * n + "y = 1\n" + "}\n" * n
    if kind == "fn":
        return "f = " + "fn() {\ng = " * n + "1\n" + "}\n" * n
    if kind == "unary":
        return "x = " + "-(" * n + "1" + ")" * n + "\n"
    if kind == "index":
        return "a: [int...] = [1]\nx = a" + "[0]" * n + "\n"
    if kind == "dot":
        return "a = 1\nx = a" + ".b" * n + "\n"
    if kind == "call":
        return "a = fn() { }\nx = a" + "()" * n + "\n"
    if kind == "binop":
        return "x = 1" + " + 1" * n + "\n"
    if kind == "else-if":
        return "q = 1\nif q == 0 {\n}" + " else if q == 1 {\n}" * n + "\n"
    if kind == "type-list":
        return "x: " + "[" * n + "int..." + "]" * n + " = []\n"
    if kind == "type-fn":
        return "x: " + "fn(" * n + "int" + ")" * n + " = 1\n"
    if kind == "type-opt":
        return "x: int" + "?" * n + " = nil\n"
    if kind == "list-unclosed":
        return "x = " + "[" * n + " 1 2\n"
    if kind == "paren-unclosed":
        return "x = " + "(" * n + " 1 2\n"
    if kind == "call-unclosed":
        return "f = fn(a: int) -> int {\n\treturn a\n}\nx = " + "f(" * n + " 1 2\n"
    if kind == "map-unclosed":
        return "x = " + 'map[str, int] {"k": [' * n + " 1 2\n"
    if kind == "index-unclosed":
        return "a: [int...] = [1]\nx = a" + "[a" * n + " 1 2\n"
    raise ValueError(kind)


# (d) lexical boundaries: every literal rule of the grammar at the limits of its value space, in every position that treats a
# literal specially (folding, index / shift / loop-bound checks, typed initialisers)
def lexical_literals():
    P = [2 ** 7, 2 ** 8, 2 ** 31 - 1, 2 ** 31, 2 ** 32, 2 ** 63 - 1, 2 ** 63, 2 ** 64, 2 ** 127 - 1, 2 ** 127, 2 ** 128, 10 ** 40]
    out = ["0", "00", "1_0", "1_", "1__0", "_1"]
    out += [str(v) for v in P] + ["B" + str(v) for v in P] + [hex(v) for v in P] + ["B" + hex(v) for v in P]
    out += ["0x", "0x_1", "0xg", "0X1", "B", "B_1", "B0x", "0x" + "f" * 33, "B0x" + "F" * 40, "9" * 400, "B" + "9" * 400]
    out += ["0b0", "0b" + "1" * 8, "0b" + "1" * 9, "0b1" + "0" * 8, "0b" + "1" * 64, "0b" + "1" * 200, "0b", "0b2", "0b_1", "0b1_", "0B1"]
    out += ["1.5", "1.", ".5", "1.5.5", "1e5", "1f", "1F", "1.5f", "0.0", "9" * 400 + "f", "9" * 400 + ".0", "0." + "0" * 400 + "1", "1.0_", "1._0",
            str(2 ** 31) + "f", "1.7976931348623157" + "0" * 300 + ".0", "2" + "0" * 308 + ".0"]
    out += ['""', '"\\q"', '"\\"', '"abc', '"\\u{41}"', '"\\x41"', '"a\nb"', '"\\r\\n\\t\\\\\\""', '"\x00"', '"' + "s" * 3000 + '"', "'a'",
            '"\\', '"\\u{110000}"', '"\\u{d800}"', '"\\u{}"', '"\\u{"']
    out += ["i" * 3000, "\u00e9t\u00e9", "a\u0301", "x-y", "x$", "$", "@", "`", "\\", "?", "~", ";", "\x00", "\ufeff", "\u200b"]
    return out


LEX_CTX = ["v = {L}", "print {L}", "v = -{L}", "v = !{L}", "v = {L} + 1", "v = 1 + {L}", "v = 1 << {L}", "v = {L} >> 1", "v = 1 / {L}", "v = 1 % {L}",
           "v = {L} * {L}", "v = {L} == {L}", "v = l[{L}]", "l[{L}] = 1", "v = s[{L}]", "v: int = {L}", "v: bigint = {L}", "v: byte = {L}", "v: float = {L}",
           "v: str = {L}", "const v = {L}", "v = [{L}, {L}]", "v = map[int, int]{{{L}: {L}}}", "from 0 to {L} {{\n\tbreak\n}}", "from {L} through 0 {{\n}}",
           "from 0 to 1 step {L} {{\n}}", "v = f({L})", "v = get {L}", "v = ({L}) or 1", "v = typeof {L}", "v = {L}.to_str()", "{L} = 1", "v = {L}{L}",
           "assert {L}", "if {L} {{\n}}", "v = {L} is {L}", "import {L}", "v = {L}(1)", "type T {L}"]
LEX_PRELUDE = "l: [int...] = [1, 2]\ns = \"abc\"\nf = fn(p: int) -> int {\n\treturn p\n}\n"


def mutate(src, toks, idx, op, tok):
    s, e = toks[idx]
    if op == "delete":
        return src[:s] + src[e:]
    if op == "dup":
        return src[:e] + " " + src[s:e] + src[e:]
    if op == "swap":
        if idx + 1 >= len(toks):
            return None
        s2, e2 = toks[idx + 1]
        return src[:s] + src[s2:e2] + src[e:s2] + src[s:e] + src[e2:]
    if op == "replace":
        return src[:s] + tok + src[e:]
    if op == "insert":
        return src[:s] + tok + " " + src[s:]
    raise ValueError(op)


def corpus_files(max_bytes=4000):
    out = []
    for top, rel in corpus.example_files():
        p = os.path.join(build.REPO, rel)
        try:
            src = open(p, encoding="utf-8").read()
        except (OSError, UnicodeDecodeError):
            continue
        if 0 < len(src) <= max_bytes and corpus.is_single_module(rel):
            out.append((len(src), rel))
    out.sort()
    return [r for _, r in out]


# (e) ARBITRARY token soup: every sequence of <= n tokens over a fixed token alphabet (one or two members of every lexical class and every
# bracket), blank-separated, at module level / inside an open function body / inside an open class body.  Unlike (a) and (b) these inputs are
# not neighbours of a valid program.
SOUP_FULL = ["x", "1", "1.5", "B1", "0b1", '"s"', "nil", "true", "=", "(", ")", "[", "]", "{", "}", ",", ".", ":", "+", "-", "*", "!", "?", "->", "...",
             "<", "==", "&&", "fn", "if", "else", "while", "from", "to", "step", "return", "break", "class", "constructor", "self", "import", "export",
             "print", "get", "or", "is", "typeof", "const", "modify", "map", "type", "assert", "\n", "+=", "?=", "int", "Self", "continue", "through"]
SOUP_STRUCT = ["x", "1", '"s"', "=", "(", ")", "[", "]", "{", "}", ",", ".", ":", "-", "fn", "\n"]
SOUP_HOSTS = {"module": "{S}\n", "fn": "hf = fn(q: int) -> int {\n\t{S}\n\treturn q\n}\n", "class": "class Kq {\n\t{S}\n}\n", "open": "hf = fn() {\n\tif true {\n\t\t{S}"}


def soup(alphabet, n):
    import itertools
    for k in range(1, n + 1):
        for seq in itertools.product(range(len(alphabet)), repeat=k):
            yield seq


# (f) assignment flags: every sequence of <= 2 flags x assignment form x target (declared in an enclosing block / in the same block / nowhere) x host
AF_FLAGS = ["modify", "const", "export"]
AF_FORMS = ["{F} a = 2", "{F} a: int = 2", "{F} [a, bq] = [1, 2]", "{F} a += 1", "{F} a ?= 3", "{F} zz = 2", "{F} zz: int = 2", "{F} a = a", "{F} a = fn() -> int {{\n\treturn a\n}}",
            "{F} a[0] = 2", "{F} a.v = 2"]
AF_HOSTS = {"module": "{S}", "if": "if true {{\n\t{S}\n}}", "else": "if false {{\n}} else {{\n\t{S}\n}}", "while": "wq = 0\nwhile wq < 1 {{\n\twq = wq + 1\n\t{S}\n}}",
            "from": "from 0 to 1 {{\n\t{S}\n}}", "if-if": "if true {{\n\tif true {{\n\t\t{S}\n\t}}\n}}", "fn": "hf = fn() {{\n\t{S}\n}}",
            "fn-local-if": "hf = fn() {{\n\ta = 5\n\tif true {{\n\t\t{S}\n\t}}\n}}", "fn-local-from": "hf = fn() {{\n\ta = 5\n\tfrom 0 to 2, iq {{\n\t\t{S}\n\t}}\n}}",
            "fn-param-if": "hf = fn(a: int) {{\n\tif true {{\n\t\t{S}\n\t}}\n}}", "fn-in-fn": "hf = fn() {{\n\thg = fn() {{\n\t\t{S}\n\t}}\n}}",
            "fn-if-in-fn": "hf = fn() {{\n\thg = fn() {{\n\t\tif true {{\n\t\t\t{S}\n\t\t}}\n\t}}\n}}",
            "method-if": "class Kq {{\n\tconstructor(self) {{}}\n\tfn mq(self) {{\n\t\tif true {{\n\t\t\t{S}\n\t\t}}\n\t}}\n}}"}
AF_PRE = {"none": "", "int": "a = 1\n", "const": "const a = 1\n", "opt": "a: int? = nil\n", "list": "a: [int...] = [1]\n",
          "obj": "class Aq {\n\tv: int\n\tconstructor(self) {\n\t\tself.v = 1\n\t}\n}\na = Aq()\n"}


# (h) type x use: a variable of every type constructor - declared directly and through a `type` alias - put to every kind of use, well-typed or not
TU_TYPES = {"int": ("int", "1"), "float": ("float", "1.5"), "str": ("str", '"s"'), "bool": ("bool", "true"), "byte": ("byte", "0b1"), "bigint": ("bigint", "B1"),
            "list": ("[int...]", "[1, 2]"), "list-str": ("[str...]", '["a"]'), "nested": ("[[int...]...]", "[[1]]"), "opt": ("int?", "nil"),
            "map-str": ("map[str,int]", "map[str,int]"), "map-int": ("map[int,int]", "map[int,int]"), "map-float": ("map[float,int]", "map[float,int]"),
            "map-bool": ("map[bool,str]", "map[bool,str]"), "fn": ("fn(int)->int", "fn(q: int) -> int {\n\treturn q\n}"), "obj": ("Tq", "Tq()"),
            # fixed-shape lists (declared const, without an annotation): empty, one element kind, mixed
            "fixed-empty": ("", "[]"), "fixed-pair": ("", '[1, "a"]'), "fixed-nested-empty": ("", "[[], []]")}
TU_USES = ["v = X[0]", "v = X[1.5]", 'v = X["k"]', "v = X[true]", "v = X[B1]", "v = X[0b1]", "v = X[ix]", "v = X[fx]", "v = X[sx]", "X[0] = 1", "X[1.5] = 1", 'X["k"] = 1', "X[0] += 1",
           "X[1.5] += 1", "v = X[0][0]", "v = X(1)", "v = X.v", "X.v = 1", "v = X + 1", "v = X + X", "v = -X", "v = !X", "v = (X) or 1", "v = get X", "v = X == nil",
           "from 0 to X {\n}", "from 0 to 2 step X {\n}", "if X {\n}", "v = [X, X]", "v = map[str, int] {\"k\": X}", "v = X.len()", "v = X is X", "v = typeof X", "print X",
           "v = X[0 - 1]", "v = X[2147483648]", "v = X[1 + 0.5]", "X = X", "v: int = X", "assert X",
           # the value (plain, negated, not-ed, indexed, unwrapped) as a LATER argument of a call, as a later element of a list / map literal: an error found
           # while the code of a later operand is emitted meets the temporaries of the earlier ones
           "v = two(1, X)", "v = two(1, -X)", "v = two(1, !X)", "v = two(1, X[0])", "v = two(1, get X)", "v = two(1, X + 1)", "v = [1, -X]", "v = [1, 2, !X]",
           "v = map[str, int] {\"a\": 1, \"b\": -X}", "v = two(two(1, 2), -X)", "v = 1 + two(1, -X)", "print two(1, -X)"]
TU_HOSTS = {"module": "{S}", "fn": "hf = fn() {{\n\t{S}\n}}"}


def tu_cases():
    for t in TU_TYPES:
        for alias in (False, True):
            for u in range(len(TU_USES)):
                for h in TU_HOSTS:
                    yield ("u", t, alias, u, h)


def tu_source(case):
    _, t, alias, u, h = case
    ty, init = TU_TYPES[t]
    pre = "class Tq {\n\tv: int\n\tconstructor(self) {\n\t\tself.v = 1\n\t}\n}\n" if t == "obj" else ""
    pre += "ix = 0\nfx = 1.5\nsx = \"k\"\ntwo = fn(p: int, q: int) -> int {\n\treturn p + q\n}\n"
    if not ty:
        # (no annotation: the type is the literal's own fixed shape; the alias variant declares the constant in a nested block instead)
        pre += (f"if true {{\n" if alias else "") + f"const xq = {init}\n"
    elif alias:
        pre += f"type Aq {ty}\nxq: Aq = {init}\n"
    else:
        pre += f"xq: {ty} = {init}\n"
    stmt = TU_USES[u].replace("X", "xq")
    return pre + TU_HOSTS[h].replace("{{", "{").replace("}}", "}").replace("{S}", stmt.replace("\n", "\n\t") if h == "fn" else stmt) + "\n" + ("}\n" if (alias and not ty) else "")


def af_cases():
    import itertools
    flags = [""] + AF_FLAGS + [" ".join(p) for p in itertools.product(AF_FLAGS, repeat=2)]
    for fi, fl in enumerate(flags):
        for fo in range(len(AF_FORMS)):
            for h in AF_HOSTS:
                for p in AF_PRE:
                    yield ("a", fl, fo, h, p)


class C16(Check):
    id = "C16"
    level = "exploration"
    rule = ("(a) every derivation of grammar.pest (parsed at check time) that departs from the minimal derivation in <= k decision points "
            "(alternative, repetition count 0/1/2, optional present), for the roots declaration, value (4 embeddings), type (2), class, "
            "import, function, reassignment, number_loop, if_statement, list, map, each in 6 host contexts x preludes that declare the "
            "identifier `a` with different types; (b) every single-token mutation (delete, duplicate, swap with next, replace by / insert each "
            "token of a fixed alphabet) at every token position of corpus files; (c) nesting towers of 13 nestable constructs up to 4 kB; "
            "(d) lexical boundaries: ~150 spellings at the limits of every literal rule (decimal / hexadecimal / B / binary / float / string / identifier; "
            "widths 8, 32, 64, 128 bits and beyond, malformed separators, escapes, stray characters) x 39 positions that treat a literal specially; "
            "(f) assignment flags: every sequence of <= 2 of {modify, const, export} x 11 assignment forms x 13 hosts (blocks, nested blocks, functions whose local / parameter is the target, nested functions, methods) x 6 declarations of the target; "
            "(h) type x use: a variable of each of 16 types, declared directly and through a `type` alias, in 40 uses (index with every literal / variable kind, index stores, call, field, operators, or / get, loop bound and step, condition, literals, methods), well-typed or not; "
            "(e) token soup: EVERY sequence of <= n tokens over a 59-token alphabet (each lexical class, bracket, keyword) and of <= n+1 tokens over its 16 structural members, "
            "at module level, inside a function body, inside a class body and inside an unclosed nested block.  "
            "Non-trivial = the input is not accepted as a valid program (diagnostics path) or exercises a host context.")
    assumptions = ["`mscript compile <file> --quick` with a 10 s limit per input (4 s for nesting towers in the quick tier)", "inputs < 4 kB", "arbitrary CHARACTER sequences are covered only as far as layer (e) (token soup) and the lexical-boundary spellings go"]
    chunksize = 32
    quick_cap_s = 300
    thorough_cap_s = 30 * 60

    def layers(self, tier):
        k = 3 if tier == "quick" else 4
        pre_q = ["none", "int", "list"]
        pre = pre_q if tier == "quick" else list(PRELUDES)

        def gram(kk, hosts, preludes, roots):
            for root in roots:
                for text in derivations(root, kk):
                    for h in hosts:
                        for p in preludes:
                            yield ("g", root, text, h, p)

        def towers():
            for kind in TOWERS:
                depths = (3, 12, 26) if kind == "type-list" else ((3, 12, 18, 24, 40) if kind.endswith("-unclosed") else (3, 30, 120, 400, 1000, 1900))
                for n in depths:
                    t = tower(kind, n)
                    if len(t) <= 4096:
                        yield ("t", kind, n)

        files = corpus_files()

        def muts(file_list, alphabet):
            for rel in file_list:
                src = open(os.path.join(build.REPO, rel), encoding="utf-8").read()
                toks = pestgen.source_tokens(src)
                for i in range(len(toks)):
                    yield ("m", rel, i, "delete", "")
                    yield ("m", rel, i, "dup", "")
                    yield ("m", rel, i, "swap", "")
                    for t in alphabet:
                        yield ("m", rel, i, "replace", t)
                        yield ("m", rel, i, "insert", t)

        def soups(full_n, struct_n, hosts):
            for h in hosts:
                for seq in soup(SOUP_FULL, full_n if h in ("module", "open") else min(full_n, 2)):
                    yield ("s", "F", seq, h)
                for seq in soup(SOUP_STRUCT, struct_n if (tier == "thorough" or h in ("module", "open")) else 0):
                    if len(seq) > full_n:
                        yield ("s", "S", seq, h)

        lits = lexical_literals()
        imps = [("i", pi, fi, h) for pi in range(len(self.IMPORT_PATHS)) for fi in range(len(self.IMPORT_FORMS)) for h in self.IMPORT_HOSTS]
        tul = list(tu_cases())
        afl = list(af_cases())
        ls = [("Lu-type-x-use:-19-types-direct-and-through-an-alias-x-52-uses", tul if tier == "thorough" else [c for c in tul if c[4] == "module" or c[2]]),
              ("Lf-assignment-flags-x-forms-x-hosts-x-declared-where", afl if tier == "thorough" else [c for c in afl if c[4] in ("none", "int", "opt")]), ("L0-nesting-towers+lexical-boundaries", [[c] for c in towers()] + [("x", c, i) for i in range(len(lits)) for c in range(len(LEX_CTX))]),
              ("Li-import-paths-x-forms-x-hosts", imps),
              ("L1-grammar-k<=2-all-hosts", gram(2, HOSTS, pre, list(ROOTS))),
              ]
        if tier == "quick":
            def rot():
                # every derivation with k <= 3 at module level, and once more in a host / prelude combination that rotates over the others
                others = [(h, p) for h in HOSTS[1:] for p in ("int", "list")]
                i = 0
                for root in ROOTS:
                    for text in derivations(root, 3):
                        yield ("g", root, text, "module", "none")
                        h, p = others[i % len(others)]
                        i += 1
                        yield ("g", root, text, h, p)
            # (since `value` became a single alternative in grammar.pest its minimal derivation runs through math_expr, and the number of derivations within
            # k deviations grew eightfold; the quick tier takes every 6th / 8th of the two largest layers, the thorough tier all of them)
            import itertools as _it
            ls.append(("L2-grammar-k<=3-module-host+rotating-host-every-6th", _it.islice(rot(), 0, None, 6)))
            ls.append(("L2b-grammar-k<=4-expressions-in-a-method-every-8th", _it.islice(gram(4, ["method"], ["int"], ["value"]), 0, None, 8)))
        else:
            ls.append((f"L2-grammar-k<={k}-module-host", gram(k, ["module", "fn"], pre, list(ROOTS))))
        if tier == "quick":
            ls.append(("Ls-token-soup-all-sequences<=2-of-59-tokens+<=3-of-16-structural-tokens-x-4-hosts", soups(2, 3, list(SOUP_HOSTS))))
        else:
            ls.append(("Ls-token-soup-all-sequences<=3-of-59-tokens+<=4-of-16-structural-tokens-x-4-hosts", soups(3, 4, list(SOUP_HOSTS))))
        if tier == "quick":
            ls.append(("L3-token-mutation-6-smallest-files-structural-alphabet", muts(files[:6], pestgen.STRUCTURAL)))
        else:
            ls.append(("L3-token-mutation-20-smallest-files-structural-alphabet", muts(files[:20], pestgen.STRUCTURAL)))
            ls.append((f"L4-grammar-k<={k}-all-hosts", gram(k, HOSTS[2:], pre, list(ROOTS))))
            ls.append(("L5-token-mutation-all-files-full-alphabet", muts(files, pestgen.TOKEN_ALPHABET)))
        return ls

    def describe(self, case):
        if isinstance(case, list):
            case = case[0]
        if case[0] == "g":
            return {"root": case[1], "fragment": case[2], "host": case[3], "prelude": case[4]}
        if case[0] == "t":
            return {"tower": case[1], "depth": case[2]}
        if case[0] == "x":
            return {"context": LEX_CTX[case[1]], "literal": lexical_literals()[case[2]][:80]}
        if case[0] == "u":
            return {"type": TU_TYPES[case[1]][0], "through alias": case[2], "use": TU_USES[case[3]].replace("\n", " "), "host": case[4]}
        if case[0] == "a":
            return {"assignment": AF_FORMS[case[2]].replace("{F}", case[1]).replace("{{", "{").replace("}}", "}").strip(), "host": case[3], "prelude": case[4]}
        if case[0] == "s":
            al = SOUP_FULL if case[1] == "F" else SOUP_STRUCT
            return {"soup": [al[i] for i in case[2]], "host": case[3]}
        if case[0] == "i":
            return {"import": self.IMPORT_FORMS[case[2]].replace("{P}", self.IMPORT_PATHS[case[1]]), "host": case[3]}
        return {"file": case[1], "token": case[2], "op": case[3], "with": case[4]}

    def source(self, case):
        if case[0] == "g":
            _, root, text, host, p = case
            stmt = ROOTS[root].replace("{X}", text).replace("{{", "{").replace("}}", "}")
            return PRELUDES[p] + host_wrap(host, stmt)
        if case[0] == "t":
            return tower(case[1], case[2])
        if case[0] == "u":
            return tu_source(case)
        if case[0] == "a":
            stmt = AF_FORMS[case[2]].replace("{F}", case[1]).strip()
            return (AF_PRE[case[4]] + AF_HOSTS[case[3]].replace("{S}", stmt) + "\n").replace("{{", "{").replace("}}", "}")
        if case[0] == "s":
            al = SOUP_FULL if case[1] == "F" else SOUP_STRUCT
            return SOUP_HOSTS[case[3]].replace("{S}", " ".join(al[i] for i in case[2]).replace("\\n", "\n"))
        if case[0] == "x":
            return LEX_PRELUDE + LEX_CTX[case[1]].replace("{L}", lexical_literals()[case[2]]).replace("{{", "{").replace("}}", "}") + "\n"
        _, rel, i, op, tok = case
        src = open(os.path.join(build.REPO, rel), encoding="utf-8").read()
        toks = pestgen.source_tokens(src)
        return mutate(src, toks, i, op, tok)

    # import statements: every path spelling (existing / missing file, directory, `.`, `..`, trailing separators, self import, odd
    # extensions) x import form x syntactic host, compiled in a directory that really holds a module, a sub-directory and an empty file
    IMPORT_PATHS = ["m", "m.ms", "./m", "sub/m", "./sub/m", "sub/m.ms", "nope", "sub/nope", "sub", "./sub", "sub/", ".", "..", "./.", "./..", "../m", "../x",
                    "sub/..", "sub/../m", "sub/.", "sub/./m", "dirx", "m.mmm", "x", "./x", "x.ms", "empty", "m.", ".m", "m..ms", "m.ms.ms", "M", "sub/../..",
                    "a/b/c", "m/m", "m.ms/m", "..m", "...", "./", "/", "//m", "m//m", "sub//m", "~", "~/m", "$m", "m m", "m\tm"]
    IMPORT_FORMS = ["import {P}", "import v from {P}", "import v, w from {P}", "import type T from {P}", "import type T, v from {P}", "import zz from {P}",
                    "import type Zz from {P}"]
    IMPORT_HOSTS = {"module": "{S}", "fn": "hf = fn() {{\n\t{S}\n}}", "if": "if true {{\n\t{S}\n}}", "else": "if false {{\n}} else {{\n\t{S}\n}}",
                    "while": "wq = 0\nwhile wq < 1 {{\n\twq = wq + 1\n\t{S}\n}}", "from": "from 0 to 1 {{\n\t{S}\n}}",
                    "method": "class Kq {{\n\tconstructor(self) {{}}\n\tfn mq(self) {{\n\t\t{S}\n\t}}\n}}", "ctor": "class Kq {{\n\tconstructor(self) {{\n\t\t{S}\n\t}}\n}}",
                    "fn-in-fn": "hf = fn() {{\n\thg = fn() {{\n\t\t{S}\n\t}}\n}}", "after-use": "print 1\n{S}\nprint 2"}
    IMPORT_FILES = {"m.ms": "export v: int = 1\nexport w: int = 2\nexport type T int\n", "sub/m.ms": "export v: int = 3\nexport w: int = 4\nexport type T int\n",
                    "dirx/inner.ms": "print 1\n", "empty": "", "m.mmm": "garbage"}

    def run_case(self, case):
        if isinstance(case, list):      # a tower travels alone in its chunk (a slow one must not delay the others)
            case = case[0]
        extra = {}
        if case[0] == "i":
            _, pi, fi, host = case
            stmt = self.IMPORT_FORMS[fi].replace("{P}", self.IMPORT_PATHS[pi])
            src = self.IMPORT_HOSTS[host].replace("{S}", stmt).replace("{{", "{").replace("}}", "}") + "\n"
            extra = self.IMPORT_FILES
        else:
            src = self.source(case)
        if src is None:
            return {"outcome": "inexpressible", "nontrivial": False}
        d = driver.fresh_dir()
        if extra:
            d = os.path.join(d, "proj")          # one level down, so that `..` is a directory of the scratch area and nothing else
            os.makedirs(d)
        driver.write_files(d, dict(extra, **{"x.ms": src}))
        # the quick tier gives a nesting tower 4 s (the known exponential case needs far more than 10 s, everything else far less than 1 s)
        res = driver.run(["compile", "x.ms", "--quick"], d, timeout=4 if (case[0] == "t" and os.environ.get("VERIF_TIER_") == "quick") else 10)
        viol = []
        if res.cls in ("ok",):
            outcome = "accepted"
        elif res.cls == "error":
            outcome = "diagnostic"
            if not (res.out.strip() or res.err.strip()):
                viol.append({"sig": {"kind": "silent-failure"}, "what": "exit 1 without any diagnostic",
                             "detail": {"files": {"x.ms": src}, "res": res.brief()}})
        else:
            pm = driver.panic_message(res) or ("stack overflow" if "overflowed its stack" in res.err else res.cls)
            sig = {"kind": res.cls, "where": pm}
            if case[0] == "t":
                sig["tower"] = case[1]
            if case[0] == "x" and res.cls != "panic":
                sig["lexical"] = LEX_CTX[case[1]]
            viol.append({"sig": sig, "what": f"compiler ended with {res.cls} (exit {res.exit}): {pm}",
                         "detail": {"files": {"x.ms": src}, "res": res.brief(), "case": repr(case)[:300]}})
            outcome = res.cls
        return {"outcome": outcome, "viol": viol, "nontrivial": outcome != "accepted" or case[0] != "m",
                "tags": [case[0], outcome] + ([f"root-{case[1]}", f"host-{case[3]}"] if case[0] == "g" else [])}

    def finish(self, stats, tier):
        errs = []
        for t in ["g", "t", "m", "x", "s", "accepted", "diagnostic"]:
            if not stats["tags"].get(t):
                errs.append(f"vacuity: no case with tag {t}")
        return errs
