"""C15 — operands are evaluated left to right, exactly once; && || `or` short-circuit.
E-prog over typed expression trees whose leaves are logging calls; the log is the evaluation order."""
import itertools

from ..core import driver
from ..core.explore import Check
from ..lang import refint


def V(n):
    return ("var", n)


# tree nodes: ("t",) ("r",) ("bt",) ("bf",) ("o",) ("on",) and compounds below
I_LEAVES = [("t",), ("r",)]
B_LEAVES = [("bt",), ("bf",)]
O_LEAVES = [("o",), ("on",)]
# callee forms of a two-argument call: f2 named function, m method, iife function literal called on the spot, fldm function stored in a
# field called through the object, fldp the same through a parenthesised lookup, elem function taken from a list, res function returned by a call
CALLEE_FORMS = ["iife", "fldm", "fldp", "elem", "res"]
BIN_I = ["-", "*", "f2", "m", "+s", "+", "/", "%", "&", "|", "xor", "<<", ">>"] + CALLEE_FORMS   # I x I -> I  (+s: string concatenation)
CMP = ["<", "<=", ">", ">=", "==", "!="]       # I x I -> B
CORE = {"-", "*", "f2", "m", "+s", "<", ">", "&&", "||", "!", "or", "f3", "f4", "sum3", "msum", "idx"}   # node kinds used by the deep layers
WIDE_I = {"f3": 3, "f4": 4, "sum3": 3, "msum": 4, "idx": 3}
BIN_B = ["&&", "||", "^"]


# variable leaves: ("v",) reads the module variable gx, ("u",) calls u(i) which logs, increments gx and returns it;
# ("vb",) reads the module variable gb, ("ub",) calls ub(i) which logs, flips gb and returns it.  A variable read must see
# the value at its own position in the left-to-right order, whatever later (or earlier) siblings do to the variable.
IV_LEAVES = [("v",), ("u",)]
BV_LEAVES = [("vb",), ("ub",)]
# constant leaves: literals next to side-effecting siblings (the constant folder may not drop or reorder the siblings)
# identical leaves: every occurrence is the very same source text `cn()` / `cb()` (a counter that logs, increments and returns), so
# that sibling sub-trees can be textually identical while each must still be evaluated
ID_I = [("cn",)]
ID_B = [("cb",)]
# carrier leaves: silent reads of a value that lives in a container - a list element through a variable index, an object field
# (the operand then reaches the operator as a reference into the container, not as a plain value)
# optionals produced by a built-in (present ones arrive boxed): `lq.index_of(3)`, `lq.index_of(9)` (nil), a variable holding the former
CO_LEAVES = [("ob",), ("obn",), ("obv",)]
CI_LEAVES = [("ei",), ("fi",)]
CB_LEAVES = [("eb",), ("eb0",), ("fb",)]
# slot leaves: a silent read of a container slot next to calls that log and then WRITE that very slot (list element li[0] / lb[0], object
# field hk.fi / hk.fb): the read must deliver the value the slot had at the read's own position in the left-to-right order
SI_LEAVES = [("ei",), ("ue",), ("fi",), ("uf",)]
SB_LEAVES = [("eb",), ("ueb",), ("fb",), ("ufb",)]
IC_LEAVES = [("k2",), ("k0",)]
BC_LEAVES = [("ct",), ("cf",)]
LEAVES = {"I": I_LEAVES, "B": B_LEAVES, "O": O_LEAVES}


class leafset:
    """with leafset(I=..., B=...): the generators below draw their leaves from these sets"""

    def __init__(self, **kw):
        self.kw = kw

    def __enter__(self):
        self.old = dict(LEAVES)
        LEAVES.update(self.kw)

    def __exit__(self, *a):
        LEAVES.clear()
        LEAVES.update(self.old)


def ty(n):
    k = n[0]
    if k in ("bt", "bf", "vb", "ub", "ct", "cf", "cb", "eb", "eb0", "fb", "ueb", "ufb", "&&", "||", "^", "!") or k in CMP:
        return "B"
    if k in ("o", "on", "ob", "obn", "obv"):
        return "O"
    return "I"


def leaves_of(t):
    return LEAVES[t]


def depth1():
    """all nodes whose children are leaves"""
    out = []
    for op in BIN_I:
        for a, b in itertools.product(leaves_of("I"), repeat=2):
            out.append((op, a, b))
    for op, n in WIDE_I.items():
        for ch in itertools.product(leaves_of("I"), repeat=n):
            out.append((op,) + ch)
    for o_ in leaves_of("O"):
        for a in leaves_of("I"):
            out.append(("or", o_, a))
    for op in CMP:
        for a, b in itertools.product(leaves_of("I"), repeat=2):
            out.append((op, a, b))
    for op in BIN_B:
        for a, b in itertools.product(leaves_of("B"), repeat=2):
            out.append((op, a, b))
    for a in leaves_of("B"):
        out.append(("!", a))
    return out


def child_types(op):
    if op in BIN_I or op in CMP:
        return ["I", "I"]
    if op in WIDE_I:
        return ["I"] * WIDE_I[op]
    if op == "or":
        return ["O", "I"]
    if op in BIN_B:
        return ["B", "B"]
    if op == "!":
        return ["B"]
    raise ValueError(op)


ALL_OPS = BIN_I + list(WIDE_I) + ["or"] + CMP + BIN_B + ["!"]


def trees_full(depth, t):
    """all trees of type t with depth <= depth, every child arbitrary (binary and unary nodes only beyond depth 1)"""
    if depth == 0:
        return list(leaves_of(t))
    out = list(leaves_of(t))
    subs = {tt: trees_full(depth - 1, tt) for tt in ("I", "B", "O")}
    subs["O"] = list(leaves_of("O"))
    for op in [o for o in ALL_OPS if o in CORE]:
        cts = child_types(op)
        if ty((op,)) != t:
            continue
        if len(cts) > 2 and depth > 1:
            continue
        for ch in itertools.product(*[subs[c] if depth > 1 or True else leaves_of(c) for c in cts]):
            if depth == 1 and any(c not in leaves_of(tc) for c, tc in zip(ch, cts)):
                continue
            out.append((op,) + ch)
    return out


def trees_rule1(depth, t, memo=None):
    """rule 1: every compound has one arbitrary child (depth-1 tree by rule 1), its siblings range over leaves"""
    memo = memo if memo is not None else {}
    key = (depth, t)
    if key in memo:
        return memo[key]
    out = list(leaves_of(t))
    if depth > 0:
        for op in ALL_OPS:
            cts = child_types(op)
            if ty((op,)) != t:
                continue
            for pos in range(len(cts)):
                if cts[pos] == "O":
                    continue
                first_free = next(i for i, c in enumerate(cts) if c != "O")
                for sub in trees_rule1(depth - 1, cts[pos], memo):
                    if sub in leaves_of(cts[pos]) and pos > first_free:
                        continue   # all-leaf combinations are produced once, at the first position that takes an arbitrary child
                    others = [leaves_of(c) for i, c in enumerate(cts) if i != pos]
                    for sib in itertools.product(*others):
                        ch = list(sib)
                        ch.insert(pos, sub)
                        out.append((op,) + tuple(ch))
    memo[key] = out
    return out


def trees_spine(depth, t, memo=None):
    """spines: one arbitrary child per compound, every sibling is the first leaf of its type"""
    memo = memo if memo is not None else {}
    key = (depth, t)
    if key in memo:
        return memo[key]
    out = list(leaves_of(t))
    if depth > 0:
        for op in [o for o in ALL_OPS if o in CORE or depth == 1]:
            cts = child_types(op)
            if ty((op,)) != t:
                continue
            for pos in range(len(cts)):
                if cts[pos] == "O":
                    continue
                for sub in trees_spine(depth - 1, cts[pos], memo):
                    if len(sub) == 1:
                        continue
                    ch = [leaves_of(c)[0] for c in cts]
                    ch[pos] = sub
                    out.append((op,) + tuple(ch))
            if depth == 1:
                out.append((op,) + tuple(leaves_of(c)[0] for c in cts))
    memo[key] = out
    return out


SYNTACTIC = set(BIN_I) - {"f2", "m", "+s"} - set(CALLEE_FORMS) | set(CMP) | set(BIN_B) | {"!", "or"}


def syntactic_chain(n, need):
    """does the tree contain a parent-child chain of `need` operator nodes written with operator syntax (so that their
    grouping in the minimal-parentheses rendering is decided by the precedence table alone)?"""
    if len(n) == 1:
        return need <= 0
    if n[0] not in SYNTACTIC:
        return any(syntactic_chain(c, need) for c in n[1:])
    return need <= 1 or any(syntactic_chain(c, need - 1) if len(c) > 1 and c[0] in SYNTACTIC else syntactic_chain(c, need)
                            for c in n[1:])


def tdepth(n):
    if len(n) == 1:
        return 0
    return 1 + max(tdepth(c) for c in n[1:])


class Builder:
    def __init__(self):
        self.n = 0

    def nid(self):
        self.n += 1
        return self.n

    def expr(self, n):
        k = n[0]
        if k == "t":
            return ("call", V("t"), [("int", self.nid())])
        if k == "r":
            return ("call", V("r"), [("int", self.nid()), ("int", 1)])
        if k == "bt":
            return ("call", V("bv"), [("int", self.nid()), ("bool", True)])
        if k == "bf":
            return ("call", V("bv"), [("int", self.nid()), ("bool", False)])
        if k == "cn":
            return ("call", V("cn"), [])
        if k == "cb":
            return ("call", V("cb"), [])
        if k == "k2":
            return ("int", 2)
        if k == "k0":
            return ("int", 0)
        if k == "ct":
            return ("bool", True)
        if k == "cf":
            return ("bool", False)
        if k == "ob":
            return ("method", V("lq"), "index_of", [("int", 3)])
        if k == "obn":
            return ("method", V("lq"), "index_of", [("int", 9)])
        if k == "obv":
            return V("pq")
        if k == "ei":
            return ("index", V("li"), V("ix"))
        if k == "eb":
            return ("index", V("lb"), V("ix"))
        if k == "eb0":
            return ("index", V("lb"), V("iy"))
        if k == "fi":
            return ("field", V("hk"), "fi")
        if k == "fb":
            return ("field", V("hk"), "fb")
        if k in ("ue", "ueb", "uf", "ufb"):
            return ("call", V(k), [("int", self.nid())])
        if k == "v":
            return V("gx")
        if k == "u":
            return ("call", V("u"), [("int", self.nid())])
        if k == "vb":
            return V("gb")
        if k == "ub":
            return ("call", V("ub"), [("int", self.nid())])
        if k == "o":
            return ("call", V("ov"), [("int", self.nid()), ("int", 1)])
        if k == "on":
            return ("call", V("ov"), [("int", self.nid()), ("int", 0)])
        ch = [self.expr(c) for c in n[1:]]
        if k in ("-", "*", "+", "/", "%", "&", "|", "xor", "<<", ">>", "&&", "||", "^") or k in CMP:
            return ("bin", k, ch[0], ch[1])
        if k == "+s":
            return ("call", V("slen"), [("bin", "+", ("bin", "+", ("str", ""), ch[0]), ch[1])])
        if k == "!":
            return ("not", ch[0])
        if k == "or":
            return ("or", ch[0], ch[1])
        if k in ("f2", "f3", "f4"):
            return ("call", V(k), ch)
        if k == "m":
            return ("method", V("ko"), "m", ch)
        if k == "iife":
            return ("call", F2_LITERAL, ch)
        if k == "fldm":
            return ("method", V("kh"), "g2", ch)
        if k == "fldp":
            return ("call", ("field", V("kh"), "g2"), ch)
        if k == "elem":
            return ("call", ("index", V("fl2"), ("int", 0)), ch)
        if k == "res":
            return ("call", ("call", V("mk2"), []), ch)
        if k == "sum3":
            return ("call", V("sum3"), [("list", ch)])
        if k == "idx":
            return ("call", V("pick"), [("list", ch[:2]), ch[2]])
        if k == "msum":
            return ("call", V("msum"), [("maplit", "int", "int", [(ch[0], ch[1]), (ch[2], ch[3])])])
        raise ValueError(k)


def lit(n):
    return ("int", n)


F2_LITERAL = ("fn", [("a", "int"), ("b", "int")], "int",
              [("print", ("bin", "+", ("bin", "+", ("str", "f2 "), V("a")), ("bin", "+", ("str", " "), V("b")))),
               ("return", ("bin", "-", ("bin", "*", V("a"), lit(2)), V("b")))])


def prelude(used=None):
    t = ("assign", "t", ("fn", [("i", "int")], "int",
                         [("print", ("bin", "+", ("str", "t "), V("i"))),
                          ("return", ("bin", "+", ("bin", "%", V("i"), lit(3)), lit(1)))]), None, ())
    r = ("assign", "r", ("fn", [("i", "int"), ("d", "int")], "int",
                         [("print", ("bin", "+", ("bin", "+", ("str", "r "), V("i")), ("bin", "+", ("str", " "), V("d")))),
                          ("if", ("bin", ">", V("d"), lit(0)),
                           [("return", ("bin", "-", ("call", V("t"), [("bin", "+", V("i"), lit(100))]),
                                        ("selfcall", [("bin", "+", V("i"), lit(200)), ("bin", "-", V("d"), lit(1))])))], None),
                          ("return", ("bin", "+", ("bin", "%", V("i"), lit(2)), lit(1)))]), None, ())
    bv = ("assign", "bv", ("fn", [("i", "int"), ("v", "bool")], "bool",
                           [("print", ("bin", "+", ("str", "b "), V("i"))), ("return", V("v"))]), None, ())
    ov = ("assign", "ov", ("fn", [("i", "int"), ("k", "int")], "int?",
                           [("print", ("bin", "+", ("str", "o "), V("i"))),
                            ("if", ("bin", "==", V("k"), lit(1)), [("return", ("bin", "+", V("i"), lit(40)))], None),
                            ("return", ("nil",))]), None, ())
    f2 = ("assign", "f2", ("fn", [("a", "int"), ("b", "int")], "int",
                           [("print", ("bin", "+", ("bin", "+", ("str", "f2 "), V("a")), ("bin", "+", ("str", " "), V("b")))),
                            ("return", ("bin", "-", ("bin", "*", V("a"), lit(2)), V("b")))]), None, ())
    f3 = ("assign", "f3", ("fn", [("a", "int"), ("b", "int"), ("c", "int")], "int",
                           [("print", ("bin", "+", ("bin", "+", ("bin", "+", ("str", "f3 "), V("a")), ("bin", "+", ("str", " "), V("b"))),
                                       ("bin", "+", ("str", " "), V("c")))),
                            ("return", ("bin", "+", ("bin", "-", V("a"), ("bin", "*", V("b"), lit(2))), V("c")))]), None, ())
    f4 = ("assign", "f4", ("fn", [("a", "int"), ("b", "int"), ("c", "int"), ("d", "int")], "int",
                           [("print", ("bin", "+", ("bin", "+", ("bin", "+", ("str", "f4 "), V("a")), ("bin", "+", ("str", " "), V("b"))),
                                       ("bin", "+", ("bin", "+", ("str", " "), V("c")), ("bin", "+", ("str", " "), V("d"))))),
                            ("return", ("bin", "-", ("bin", "+", V("a"), V("c")), ("bin", "+", V("b"), V("d"))))]), None, ())
    sum3 = ("assign", "sum3", ("fn", [("l", "[int...]")], "int",
                               [("print", ("str", "sum3")), ("print", V("l")),
                                ("return", ("bin", "-", ("bin", "+", ("index", V("l"), lit(0)), ("index", V("l"), lit(2))),
                                            ("index", V("l"), lit(1))))]), None, ())
    pick = ("assign", "pick", ("fn", [("l", "[int...]"), ("i", "int")], "int",
                               [("print", ("bin", "+", ("str", "pick "), V("i"))), ("print", V("l")),
                                ("return", ("bin", "+", ("index", V("l"), ("bin", "%", ("bin", "*", V("i"), V("i")), lit(2))), lit(0)))]), None, ())
    slen = ("assign", "slen", ("fn", [("s", "str")], "int",
                               [("print", ("bin", "+", ("str", "cat "), V("s"))), ("return", ("method", V("s"), "len", []))]), None, ())
    msum = ("assign", "msum", ("fn", [("mm", "map[int, int]")], "int",
                               [("print", ("bin", "+", ("str", "msum "), ("method", V("mm"), "len", []))),
                                ("return", ("method", V("mm"), "len", []))]), None, ())
    holder = ("class", "Hold", [("g2", "fn(int, int) -> int")], ([("g", "fn(int, int) -> int")], [("setfield", V("self"), "g2", V("g"))]), [])
    kh = ("assign", "kh", ("new", "Hold", [V("f2")]), None, ())
    fl2 = ("assign", "fl2", ("list", [V("f2")]), None, ("const",))
    mk2 = ("assign", "mk2", ("fn", [], "fn(int, int) -> int", [("return", V("f2"))]), None, ())
    cnt = ("assign", "cnt", lit(0), None, ())
    cn = ("assign", "cn", ("fn", [], "int", [("assign", "cnt", ("bin", "+", V("cnt"), lit(1)), None, ("modify",)),
                                             ("print", ("bin", "+", ("str", "c "), V("cnt"))), ("return", V("cnt"))]), None, ())
    cb = ("assign", "cb", ("fn", [], "bool", [("assign", "cnt", ("bin", "+", V("cnt"), lit(1)), None, ("modify",)),
                                              ("print", ("bin", "+", ("str", "c "), V("cnt"))),
                                              ("return", ("bin", "==", ("bin", "%", V("cnt"), lit(2)), lit(1)))]), None, ())
    gx = ("assign", "gx", lit(1), None, ())
    u = ("assign", "u", ("fn", [("i", "int")], "int",
                         [("print", ("bin", "+", ("str", "u "), V("i"))),
                          ("assign", "gx", ("bin", "+", V("gx"), lit(1)), None, ("modify",)), ("return", V("gx"))]), None, ())
    gb = ("assign", "gb", ("bool", True), None, ())
    ub = ("assign", "ub", ("fn", [("i", "int")], "bool",
                           [("print", ("bin", "+", ("str", "ub "), V("i"))),
                            ("assign", "gb", ("not", V("gb")), None, ("modify",)), ("return", V("gb"))]), None, ())
    cls = ("class", "K", [("base", "int")], ([("b", "int")], [("setfield", V("self"), "base", V("b"))]),
           [("m", [("a", "int"), ("b", "int")], "int",
             [("print", ("bin", "+", ("bin", "+", ("str", "m "), V("a")), ("bin", "+", ("str", " "), V("b")))),
              ("return", ("bin", "+", ("bin", "-", V("a"), V("b")), ("field", V("self"), "base")))])])
    ko = ("assign", "ko", ("new", "K", [lit(10)]), None, ())
    li = ("assign", "li", ("list", [lit(2), lit(3)]), "[int...]", ())
    lb = ("assign", "lb", ("list", [("bool", True), ("bool", False)]), "[bool...]", ())
    ix = ("assign", "ix", lit(0), None, ())
    iy = ("assign", "iy", lit(1), None, ())
    hcls = ("class", "Hk", [("fi", "int"), ("fb", "bool")], ([], [("setfield", V("self"), "fi", lit(2)), ("setfield", V("self"), "fb", ("bool", True))]), [])
    hk = ("assign", "hk", ("new", "Hk", []), None, ())
    def mut(name, rt, target_read, store):
        # int mutators return the NEW value of the slot, bool mutators the OLD one (so that `slot && mutator` / `slot || mutator` tell a
        # snapshot of the left operand from a late read of it)
        if rt == "bool":
            return ("assign", name, ("fn", [("i", "int")], rt,
                                     [("print", ("bin", "+", ("str", name + " "), V("i"))), ("assign", "was", target_read, None, ()), store,
                                      ("return", V("was"))]), None, ())
        return ("assign", name, ("fn", [("i", "int")], rt,
                                 [("print", ("bin", "+", ("str", name + " "), V("i"))), store, ("return", target_read)]), None, ())
    e0, b0 = ("index", V("li"), lit(0)), ("index", V("lb"), lit(0))
    ue = mut("ue", "int", e0, ("setindex", V("li"), lit(0), ("bin", "+", e0, lit(1))))
    ueb = mut("ueb", "bool", b0, ("setindex", V("lb"), lit(0), ("not", b0)))
    uf = mut("uf", "int", ("field", V("hk"), "fi"), ("setfield", V("hk"), "fi", ("bin", "+", ("field", V("hk"), "fi"), lit(1))))
    ufb = mut("ufb", "bool", ("field", V("hk"), "fb"), ("setfield", V("hk"), "fb", ("not", ("field", V("hk"), "fb"))))
    lq = ("assign", "lq", ("list", [lit(2), lit(3)]), "[int...]", ())
    pq = ("assign", "pq", ("method", V("lq"), "index_of", [lit(3)]), None, ())
    need = {"ue": [li, ue], "ueb": [lb, ueb], "uf": [hcls, hk, uf], "ufb": [hcls, hk, ufb], "ob": [lq], "obn": [lq], "obv": [lq, pq], "ei": [li, ix], "eb": [lb, ix], "eb0": [lb, iy], "fi": [hcls, hk], "fb": [hcls, hk], "cn": [cnt, cn], "cb": [cnt, cb], "v": [gx], "u": [gx, u], "vb": [gb], "ub": [gb, ub], "t": [t], "r": [t, r], "bt": [bv], "bf": [bv], "o": [ov], "on": [ov], "f2": [f2], "f3": [f3], "f4": [f4],
            "sum3": [sum3], "idx": [pick], "+s": [slen], "msum": [msum], "m": [cls, ko],
            "iife": [], "fldm": [f2, holder, kh], "fldp": [f2, holder, kh], "elem": [f2, fl2], "res": [f2, mk2]}
    out = []
    for k in (used if used is not None else need):
        for d in need.get(k, []):
            if d not in out:
                out.append(d)
    return out


def body_of(tree, ctx, k=""):
    """statements evaluating the tree in its context; k makes the helper names unique when several trees share a program"""
    b = Builder()
    e = b.expr(tree)
    t = ty(tree)
    if ctx == "print":
        return [("print", e)]
    if ctx == "assign":
        return [("assign", "res" + k, e, None, ()), ("print", V("res" + k))]
    if ctx == "if":
        cond = e if t == "B" else ("bin", "<", e, lit(2))
        return [("if", cond, [("print", ("str", "T"))], [("print", ("str", "F"))])]
    if ctx == "arg":
        if t == "B":
            return None
        return [("print", ("call", V("f2"), [e, ("call", V("t"), [lit(99)])]))]
    if ctx == "return":
        rt = {"I": "int", "B": "bool"}[t]
        return [("assign", "host" + k, ("fn", [], rt, [("return", e)]), None, ()), ("print", ("call", V("host" + k), []))]
    if ctx == "while":
        cond = e if t == "B" else ("bin", "<", e, lit(2))
        return [("assign", "cnt" + k, lit(0), None, ()),
                ("while", ("bin", "&&", ("bin", "<", V("cnt" + k), lit(2)), cond),
                 [("assign", "cnt" + k, ("bin", "+", V("cnt" + k), lit(1)), None, ())]), ("print", V("cnt" + k))]
    raise ValueError(ctx)


# op-assignment through a target path that contains calls: `pk(1).n += 3`, `xs[nxt(1)] *= 2`, `a.me(1).n -= 3` ... every call of the path is
# evaluated exactly once (the value is read from and written to the SAME slot), whatever the operator; the calls log and are not idempotent
# (pk alternates between two objects, nxt advances a cursor), so a second evaluation shows in the log and in the final state
# ZERO-ARGUMENT CALLS as operands: a recursive `self()` of a function without parameters (recursion bounded by a captured counter), a zero-argument logging
# function, next to logging leaves with an argument and constants, under the short-circuit operators and their neighbours.  tree := leaf | (op, tree, tree) | ("!", tree)
ZR_LEAVES = ["S", "Z", "bt", "bf", "ct", "cf"]       # S = self(), Z = zb() (logs, returns true), bt / bf = bv(i, true / false), ct / cf = constants
ZR_OPS = ["&&", "||", "^", "=="]


def zr_trees(depth, leaves=ZR_LEAVES, ops=ZR_OPS):
    if depth == 0:
        for l in leaves:
            yield (l,)
        return
    for op in ops:
        for a in zr_trees(depth - 1, leaves, ops):
            for b in leaves:
                yield (op, a, (b,))
                if depth > 1:
                    yield (op, (b,), a)
    for a in zr_trees(depth - 1, leaves, ops):
        yield ("!", a)


def zr_program(tree, base, host):
    cnt = [0]

    def ex(n):
        k = n[0]
        if k == "S":
            return ("selfcall", [])
        if k == "Z":
            return ("call", V("zb"), [])
        if k in ("bt", "bf"):
            cnt[0] += 1
            return ("call", V("bv"), [("int", cnt[0]), ("bool", k == "bt")])
        if k in ("ct", "cf"):
            return ("bool", k == "ct")
        if k == "!":
            return ("not", ex(n[1]))
        return ("bin", k, ex(n[1]), ex(n[2]))
    bv = ("assign", "bv", ("fn", [("i", "int"), ("v", "bool")], "bool", [("print", ("bin", "+", ("str", "b "), V("i"))), ("return", V("v"))]), None, ())
    zb = ("assign", "zb", ("fn", [], "bool", [("print", ("str", "z")), ("return", ("bool", True))]), None, ())
    body = [("assign", "dq", ("bin", "+", V("dq"), ("int", 1)), None, ("modify",)), ("print", ("bin", "+", ("str", "enter "), V("dq"))),
            ("if", ("bin", ">=", V("dq"), ("int", 3)), [("return", ("bool", base))], None)]
    e = ex(tree)
    if host == "return":
        body += [("return", e)]
    elif host == "if":
        body += [("if", e, [("return", ("bool", True))], None), ("return", ("bool", False))]
    else:
        body += [("assign", "res", e, None, ()), ("return", V("res"))]
    rz = ("assign", "rz", ("fn", [], "bool", body), None, ())
    return [bv, zb, ("assign", "dq", ("int", 0), None, ()), rz, ("print", ("call", V("rz"), [])), ("print", V("dq")), ("print", ("str", "end"))]


OPA_FORMS = {
    "pk.n": ("field", ("call", V("pk"), [("int", 1)]), "n"),
    "same.n": ("field", ("call", V("same"), [("int", 1)]), "n"),
    "a.me.n": ("field", ("method", V("oa"), "me", [("int", 1)]), "n"),
    "pk.me.n": ("field", ("method", ("call", V("pk"), [("int", 1)]), "me", [("int", 2)]), "n"),
    "xs[nxt]": ("index", V("xs"), ("call", V("nxt"), [("int", 1)])),
    "gl[1]": ("index", ("call", V("gl"), [("int", 1)]), ("int", 1)),
    "gl[nxt]": ("index", ("call", V("gl"), [("int", 1)]), ("call", V("nxt"), [("int", 2)])),
    "pk.l[nxt]": ("index", ("field", ("call", V("pk"), [("int", 1)]), "l"), ("call", V("nxt"), [("int", 2)])),
}
OPA_OPS = ["+=", "-=", "*=", "/=", "%="]
OPA_RHS = {"literal": ("int", 3), "variable": V("rv"), "logging-call": ("call", V("lr"), [("int", 9)])}
OPA_CTX = ["block", "fn", "loop"]      # first statement of a block: a line that starts with `(` would continue the statement before it


def opa_program(form, op, rhs, ctx):
    nd = ("class", "Nd", [("n", "int"), ("l", "[int...]")],
          ([("n", "int")], [("setfield", V("self"), "n", V("n")), ("setfield", V("self"), "l", ("list", [("int", 7), ("int", 8), ("int", 9)]))]),
          [("me", [("i", "int")], "Self", [("print", ("bin", "+", ("str", "me "), V("i"))), ("return", V("self"))])])
    pre = [nd, ("assign", "oa", ("new", "Nd", [("int", 10)]), None, ()), ("assign", "ob2", ("new", "Nd", [("int", 20)]), None, ()),
           ("assign", "turn", ("int", 0), None, ()), ("assign", "cur", ("int", 0), None, ()), ("assign", "rv", ("int", 3), None, ()),
           ("assign", "xs", ("list", [("int", 10), ("int", 20), ("int", 30)]), "[int...]", ()),
           ("assign", "pk", ("fn", [("i", "int")], "Nd",
                             [("print", ("bin", "+", ("str", "pk "), V("i"))), ("assign", "turn", ("bin", "+", V("turn"), ("int", 1)), None, ("modify",)),
                              ("if", ("bin", "==", ("bin", "%", V("turn"), ("int", 2)), ("int", 1)), [("return", V("oa"))], None),
                              ("return", V("ob2"))]), None, ()),
           ("assign", "same", ("fn", [("i", "int")], "Nd", [("print", ("bin", "+", ("str", "same "), V("i"))), ("return", V("oa"))]), None, ()),
           ("assign", "nxt", ("fn", [("i", "int")], "int",
                              [("print", ("bin", "+", ("str", "nxt "), V("i"))), ("assign", "cur", ("bin", "+", V("cur"), ("int", 1)), None, ("modify",)),
                               ("return", ("bin", "-", V("cur"), ("int", 1)))]), None, ()),
           ("assign", "gl", ("fn", [("i", "int")], "[int...]", [("print", ("bin", "+", ("str", "gl "), V("i"))), ("return", V("xs"))]), None, ()),
           ("assign", "lr", ("fn", [("i", "int")], "int", [("print", ("bin", "+", ("str", "lr "), V("i"))), ("return", ("int", 3))]), None, ())]
    stmt = ("opassign", OPA_FORMS[form], op, OPA_RHS[rhs])
    if ctx == "block":
        body = [("if", ("bool", True), [stmt], None)]
    elif ctx == "fn":
        body = [("assign", "host", ("fn", [], None, [stmt]), None, ()), ("expr", ("call", V("host"), []))]
    else:
        body = [("from", ("int", 0), ("int", 2), False, None, None, [stmt])]
    obs = [("print", ("field", V("oa"), "n")), ("print", ("field", V("ob2"), "n")), ("print", ("field", V("oa"), "l")), ("print", ("field", V("ob2"), "l")),
           ("print", V("xs")), ("print", V("turn")), ("print", V("cur")), ("print", ("str", "end"))]
    return pre + body + obs


ORDER = ["ob", "obn", "obv", "ei", "eb", "eb0", "fi", "fb", "ue", "ueb", "uf", "ufb", "cn", "cb", "v", "u", "vb", "ub", "t", "r", "bt", "bf", "o", "on", "f2", "f3", "f4", "sum3", "idx", "+s", "msum", "m"] + CALLEE_FORMS


def used_of(tree, ctx):
    used = set(_ops(tree))
    if ctx == "arg":
        used |= {"f2", "t"}
    return used


def build(tree, ctx):
    body = body_of(tree, ctx)
    if body is None:
        return None
    used = used_of(tree, ctx)
    return prelude([k for k in ORDER if k in used]) + body + [("print", ("str", "end"))]


def build_group(items):
    """items: [(k, tree, ctx)] -> one program: the union prelude, then per tree a marker line, a reset of the mutable module
    variables it reads, and its body"""
    used = set()
    for _, tree, ctx in items:
        used |= used_of(tree, ctx)
    ast = prelude([k for k in ORDER if k in used])
    for k, tree, ctx in items:
        ast.append(("print", ("str", f"#{k}")))
        u = used_of(tree, ctx)
        if u & {"v", "u"}:
            ast.append(("assign", "gx", lit(1), None, ()))
        if u & {"vb", "ub"}:
            ast.append(("assign", "gb", ("bool", True), None, ()))
        if u & {"cn", "cb"}:
            ast.append(("assign", "cnt", lit(0), None, ()))
        if "ue" in u:
            ast.append(("setindex", V("li"), lit(0), lit(2)))
        if "ueb" in u:
            ast.append(("setindex", V("lb"), lit(0), ("bool", True)))
        if "uf" in u:
            ast.append(("setfield", V("hk"), "fi", lit(2)))
        if "ufb" in u:
            ast.append(("setfield", V("hk"), "fb", ("bool", True)))
        ast += body_of(tree, ctx, str(k))
    ast.append(("print", ("str", "end")))
    return ast


def split_markers(lines):
    """['#0', a, b, '#1', c, 'end'] -> {0: [a, b], 1: [c]}, tail"""
    out, cur = {}, None
    for l in lines:
        if l.startswith("#") and l[1:].isdigit():
            cur = int(l[1:])
            out[cur] = []
        elif cur is not None:
            out[cur].append(l)
    return out


class C15(Check):
    id = "C15"
    level = "model_checking"
    rule = ("typed expression trees whose leaves are logging calls t(i) (int), r(i) (recursive: re-enters the same code one frame deeper and "
            "evaluates a binary expression there), b(i) (bool true/false), o(i) (int? present/nil), and - in the variable-leaf layers - bare reads of a "
            "module variable (int gx / bool gb) next to calls u(i) / ub(i) that log, modify that variable and return it, so that a read "
            "performed too late or too early is visible, in the op-assignment layer statements `path op= rhs` whose target path contains logging, non-idempotent calls (8 path forms x 5 operators x 3 right-hand sides x 3 contexts: every call exactly once, value read from and written to the same slot), in the slot-leaf layers silent reads of a list element / object field next to calls that log and write that very slot, and - in the constant-leaf layers - literals (true, false, 2, 0) next to logging siblings; nodes: every binary operator of the language (+ - * / % & | xor << >> < <= > >= == != && || ^), string concatenation, "
            " f2..f4(E,..), obj.m(E,E), five further callee forms of a two-argument call (function literal called on the spot, function in a field through the object "
            "and through a parenthesised lookup, function from a list element, function returned by a call), list literal [E,E,E], list literal + index, map literal {E:E,E:E}, B&&B, B||B, !B, (O) or E; "
            "zero-argument calls as operands (a recursive self() of a parameterless function, a parameterless logging function) under && || ^ == ! at depth <= 2 in return / if / assignment position; "
            "all trees of depth <=1, depth 2 with every child arbitrary for unary/binary nodes, depths 2-4 by rule 1 (one arbitrary child, "
            "siblings over all leaves); statement contexts print / assignment / if condition / while condition / call argument / return.")
    assumptions = ["leaf values are small so that no arithmetic overflow occurs", "map literal observed through its length only",
                   "eight trees share one program run (marker line, reset of gx/gb, then the tree's statements); a group whose run differs "
                   "from the model in any line is re-run tree by tree, and a group that differs although every tree passes alone is reported as such"]
    chunksize = 16
    quick_cap_s = 300

    def layers(self, tier):
        d1 = depth1()
        ctxs = ["print", "assign", "if", "arg", "return", "while"]
        L0 = [(n, c) for n in d1 for c in ctxs]
        full2 = [n for t in ("I", "B") for n in trees_full(2, t) if tdepth(n) == 2]
        memo = {}
        r2 = [n for t in ("I", "B") for n in trees_rule1(2, t, memo) if tdepth(n) == 2]
        r3 = [n for t in ("I", "B") for n in trees_rule1(3, t, memo) if tdepth(n) == 3]
        sm = {}
        s3 = [n for t in ("I", "B") for n in trees_spine(3, t, sm) if tdepth(n) == 3]
        opa = [("#opa", f, o, r, c) for f in OPA_FORMS for o in OPA_OPS for r in OPA_RHS for c in OPA_CTX]
        zleaves = ZR_LEAVES if tier == "thorough" else ["S", "Z", "bt", "bf"]
        zr = [("#zr", t, b, h) for d in (1, 2) for t in zr_trees(d, zleaves if d == 2 else ZR_LEAVES, ZR_OPS if (d == 1 or tier == "thorough") else ["&&", "||"])
              if "S" in repr(t) or "Z" in repr(t) for b in (False, True) for h in (("return", "if", "assign") if d == 1 else ("return",))]
        ls = [("Lz-zero-argument-calls-(recursive-self(),-logging)-under-short-circuit-operators", zr), ("Lo-op-assignment-through-target-paths-with-calls", opa), ("L0-depth1-all-contexts", L0), ("L1-depth2-rule1", [(n, "print") for n in r2]),
              ("Lp-depth2-operator-pairs-minimal-parentheses", [(n, "print", "min") for n in r2 if syntactic_chain(n, 2)])]
        with leafset(I=IV_LEAVES + [("t",)], B=BV_LEAVES + [("bt",)]):
            v1 = depth1()
        with leafset(I=IV_LEAVES, B=BV_LEAVES):
            vm = {}
            v2 = [n for t in ("I", "B") for n in trees_rule1(2, t, vm) if tdepth(n) == 2]
            v3 = [n for t in ("I", "B") for n in trees_spine(3, t, {}) if tdepth(n) == 3]
        with leafset(I=IC_LEAVES + [("t",)], B=BC_LEAVES + [("bt",)]):
            k1 = [n for n in depth1() if any(x in ("k2", "k0", "ct", "cf") for x in _ops(n))]
        with leafset(I=[("t",), ("k2",)], B=[("bt",), ("bf",), ("ct",), ("cf",)]):
            km = {}
            k2_ = [n for t in ("I", "B") for n in trees_rule1(2, t, km) if tdepth(n) == 2 and any(x in ("k2", "ct", "cf") for x in _ops(n))]
        with leafset(I=ID_I, B=ID_B):
            i1 = depth1()
            i2 = [n for t in ("I", "B") for n in trees_full(2, t) if tdepth(n) == 2]
            i3 = [n for t in ("I", "B") for n in trees_rule1(3, t, {}) if tdepth(n) == 3]
        ls.append(("Li-identical-leaves-depth<=2-full(+depth-3-rule-1)", [(n, c) for n in i1 for c in ("print", "if", "assign")] +
                   [(n, c) for n in i2 for c in (("print",) if tier == "quick" else ("print", "if", "assign"))] +
                   [(n, "print") for n in (i3 if tier == "thorough" else i3[::17])]))
        with leafset(I=CI_LEAVES + [("t",)], B=CB_LEAVES + [("bt",)], O=CO_LEAVES + [("o",)]):
            c1 = [n for n in depth1() if any(x in ("ei", "eb", "eb0", "fi", "fb", "ob", "obn", "obv") for x in _ops(n))]
            cm = {}
            c2 = [n for t in ("I", "B") for n in trees_rule1(2, t, cm) if tdepth(n) == 2 and any(x in ("ei", "eb", "eb0", "fi", "fb", "ob", "obn", "obv") for x in _ops(n))]
        with leafset(I=SI_LEAVES + [("t",)], B=SB_LEAVES + [("bt",)]):
            s1 = [n for n in depth1() if any(x in ("ue", "ueb", "uf", "ufb") for x in _ops(n))]
        SOPS = {"-", "&&", "||", "!", "<", "==", "f2", "ei", "eb", "fi", "fb", "ue", "ueb", "uf", "ufb"}
        s2 = []
        for si, sb in ((SI_LEAVES[:2], SB_LEAVES[:2]), (SI_LEAVES[2:], SB_LEAVES[2:])):      # list slots, then field slots
            with leafset(I=si, B=sb):
                s2 += [n for t in ("I", "B") for n in trees_rule1(2, t, {}) if tdepth(n) == 2 and set(_ops(n)) <= SOPS
                       and any(x in ("ue", "ueb", "uf", "ufb") for x in _ops(n))]
        ls.append(("Ls0-depth1-slot-read+slot-mutator-leaves-all-contexts", [(n, c) for n in s1 for c in ctxs]))
        ls.append(("Ls1-depth2-rule1-slot-read+slot-mutator-leaves", [(n, "print") for n in s2]))
        ls.append(("Lc0-depth1-carrier-leaves(list-element,field)-all-contexts", [(n, c) for n in c1 for c in ctxs]))
        ls.append(("Lc1-depth2-rule1-carrier-leaves", [(n, "print") for n in (c2 if tier == "thorough" else c2[::12])]))
        ls.append(("Lk0-depth1-constant-leaves-all-contexts", [(n, c) for n in k1 for c in ctxs]))
        ls.append(("Lk1-depth2-rule1-constant-leaves", [(n, c) for n in k2_ for c in (("print",) if tier == "quick" else ("print", "assign", "if"))]))
        ls.append(("Lv0-depth1-variable+mutator-leaves-all-contexts", [(n, c) for n in v1 for c in ctxs]))
        if tier == "quick":
            ls.append(("Lv1-depth2-rule1-variable+mutator-leaves", [(n, "print") for n in v2]))
        else:
            ls.append(("Lv1-depth2-rule1-variable+mutator-leaves", [(n, c) for n in v2 for c in ("print", "return", "arg")]))
            ls.append(("Lv2-depth3-spines-variable+mutator-leaves", [(n, "print") for n in v3]))
        if tier == "quick":
            ls.append(("L2q-depth2-full-roots(- && || or !)", [(n, "print") for n in full2 if n[0] in ("-", "&&", "||", "or", "!")]))
            ls.append(("L3q-depth3-spines", [(n, "print") for n in s3]))
        else:
            ls.append(("L2-depth2-full-binary", [(n, c) for n in full2 for c in ("print", "if")]))
            ls.append(("L3q-depth3-spines", [(n, c) for n in s3 for c in ("print", "return", "while")]))
            ls.append(("L4-depth4-spines", ((n, "print") for t in ("I", "B") for n in trees_spine(4, t, sm) if tdepth(n) == 4)))
            ls.append(("Lp3-depth3-operator-triples-minimal-parentheses", [(n, "if", "min") for n in r3 if syntactic_chain(n, 3)]))
            ls.append(("L3-depth3-rule1", ((n, "print") for n in r3)))
        return ls

    def describe(self, case):
        if case[0] == "__batch__":
            return {"group": [repr(c[0]) for c in case[1]]}
        if case[0] == "#opa":
            return {"target": case[1], "operator": case[2], "right-hand side": case[3], "context": case[4]}
        if case[0] == "#zr":
            return {"zero-argument-call tree": repr(case[1]), "value at the recursion bound": case[2], "position": case[3]}
        return {"tree": repr(case[0]), "context": case[1], "rendering": "minimal parentheses" if len(case) > 2 else "fully parenthesised"}

    batch = 8

    def ok_result(self, tree, ctx, nlines):
        ops = sorted({k for k in _ops(tree)})
        kids = sorted({k for c in tree[1:] for k in _ops(c) if len(tree) > 1} & set(ALL_OPS))
        return {"outcome": "ok", "viol": [], "nontrivial": True,
                "tags": [f"op{o}" for o in ops] + [f"child-{o}" for o in kids] + [f"ctx-{ctx}", f"depth{tdepth(tree)}"],
                "counters": {"states": nlines + 1, "transitions": nlines}}

    def run_group(self, cases):
        """one run for the whole group.  -> (results or None, detail)"""
        items, results = [], [None] * len(cases)
        minp = len(cases[0]) > 2
        for k, case in enumerate(cases):
            tree, ctx = case[0], case[1]
            if (len(case) > 2) != minp:
                return None, None
            ast1 = build(tree, ctx)
            if ast1 is None:
                results[k] = {"outcome": "inexpressible", "nontrivial": False}
                continue
            ok, _ = refint.Interp().run(ast1)
            if not ok:
                results[k] = {"outcome": "model-failure", "nontrivial": False, "tags": ["model-failure"]}
                continue
            items.append((k, tree, ctx))
        if not items:
            return results, None
        ast = build_group(items)
        src = refint.program(ast, minparen=minp)
        it = refint.Interp()
        ok, _ = it.run(ast)
        if not ok:
            return None, None
        res = driver.run_ms(src)
        lines = res.lines()
        detail = {"files": {"x.ms": src}, "res": res.brief(), "expected_lines": it.out}
        if res.exit != 0 or lines != it.out:
            return None, detail
        exp = split_markers(it.out)
        for k, tree, ctx in items:
            results[k] = self.ok_result(tree, ctx + ("~minparen" if minp else ""), len(exp.get(k, [])))
        return results, detail

    def run_zr(self, case):
        _, tree, base, host = case
        ast = zr_program(tree, base, host)
        src = refint.program(ast)
        it = refint.Interp()
        ok, failure = it.run(ast)
        res = driver.run_ms(src)
        lines = res.lines()
        if driver.compile_rejected(res):
            return {"outcome": "rejected", "nontrivial": False, "tags": ["rejected", "zr-rejected"], "show": res.out[-300:]}
        if not ok:
            return {"outcome": "model-failure", "nontrivial": False, "tags": ["model-failure"]}
        viol = []
        if res.exit != 0 or lines != it.out:
            viol.append({"sig": {"kind": "zero-arg-call-operand", "ops": ",".join(sorted(set(_ops(tree)))), "ctx": host},
                         "what": f"{tree!r} (base {base}, {host}): expected {it.out}, got exit {res.exit} and {lines}", "detail": {"files": {"x.ms": src}, "res": res.brief(), "expected_lines": it.out}})
        return {"outcome": "zr-ok" if not viol else "zr-DIFF", "viol": viol, "nontrivial": True, "tags": ["zr"], "counters": {"states": len(it.out) + 1, "transitions": len(it.out)}}

    def run_batch(self, cases):
        if any(c[0] in ("#opa", "#zr") for c in cases):
            return [self.run_case(c) for c in cases]
        return self.run_group(cases)[0]

    def run_opa(self, case):
        _, form, op, rhs, ctx = case
        ast = opa_program(form, op, rhs, ctx)
        src = refint.program(ast)
        it = refint.Interp()
        ok, failure = it.run(ast)
        res = driver.run_ms(src)
        lines = res.lines()
        if driver.compile_rejected(res):
            return {"outcome": "rejected", "nontrivial": False, "tags": ["rejected", "opa-rejected:" + form], "show": res.out[-300:]}
        if not ok:
            return {"outcome": "model-failure", "nontrivial": False, "tags": ["model-failure"]}
        detail = {"files": {"x.ms": src}, "res": res.brief(), "expected_lines": it.out}
        viol = []
        islog = lambda l: l.split(" ")[0] in ("pk", "same", "me", "nxt", "gl", "lr")
        exp_log, got_log = [l for l in it.out if islog(l)], [l for l in lines if islog(l)]
        exp_val, got_val = [l for l in it.out if not islog(l)], [l for l in lines if not islog(l)]
        sig = {"form": form, "op": op, "rhs": rhs, "ctx": ctx}
        if res.exit != 0:
            viol.append({"sig": dict(sig, kind="unexpected-failure"), "what": f"{form} {op} <{rhs}> in {ctx}: exit {res.exit} ({driver.classify_failure(res)}) after {lines[-3:]}",
                         "detail": detail})
        elif sorted(exp_log) != sorted(got_log):
            viol.append({"sig": dict(sig, kind="evaluation-count"),
                         "what": f"{form} {op} <{rhs}> in {ctx}: the calls of the target path / right-hand side must each run once per execution: expected log {exp_log}, got {got_log}",
                         "detail": detail})
        elif rhs != "logging-call" and exp_log != got_log:
            viol.append({"sig": dict(sig, kind="order"), "what": f"{form} {op} <{rhs}> in {ctx}: calls of the target path out of order: expected {exp_log}, got {got_log}", "detail": detail})
        elif exp_val != got_val:
            viol.append({"sig": dict(sig, kind="value"), "what": f"{form} {op} <{rhs}> in {ctx}: final state expected {exp_val}, got {got_val}", "detail": detail})
        return {"outcome": "opa-ok" if not viol else "opa-DIFF", "viol": viol, "nontrivial": True, "tags": ["opa", "opa-" + form, "ctx-opa-" + ctx],
                "counters": {"states": len(it.out) + 1, "transitions": len(it.out)}}

    def run_case(self, case):
        if case[0] == "__batch__":
            rs, detail = self.run_group(list(case[1]))
            if rs is not None or detail is None:
                return {"outcome": "ok", "nontrivial": False}
            return {"outcome": "group-DIFF", "nontrivial": True,
                    "viol": [{"sig": {"kind": "group-only", "ops": "", "ctx": ""},
                              "what": f"{len(case[1])} trees evaluated one after the other in one program differ from the model although each "
                                      f"passes on its own: {[c[0] for c in case[1]]!r}", "detail": detail}]}
        if case[0] == "#opa":
            return self.run_opa(case)
        if case[0] == "#zr":
            return self.run_zr(case)
        tree, ctx = case[0], case[1]
        minp = len(case) > 2
        ast = build(tree, ctx)
        if ast is None:
            return {"outcome": "inexpressible", "nontrivial": False}
        src = refint.program(ast, minparen=minp)
        if minp:
            ctx += "~minparen"
        it = refint.Interp()
        ok, failure = it.run(ast)
        res = driver.run_ms(src)
        lines = res.lines()
        viol = []
        detail = {"files": {"x.ms": src}, "res": res.brief(), "expected_lines": it.out}
        ops = sorted({k for k in _ops(tree)})
        if driver.compile_rejected(res):
            return {"outcome": "rejected", "nontrivial": False, "tags": ["rejected"], "show": res.out[-300:]}
        if not ok:
            return {"outcome": "model-failure", "nontrivial": False, "tags": ["model-failure"]}
        if res.exit != 0:
            viol.append({"sig": {"kind": "unexpected-failure", "ops": ",".join(ops), "ctx": ctx},
                         "what": f"{tree!r} in {ctx}: exit {res.exit} ({driver.classify_failure(res)}) after {lines[-3:]}", "detail": detail})
        elif lines != it.out:
            i = next((j for j, (a, b) in enumerate(zip(lines, it.out)) if a != b), min(len(lines), len(it.out)))
            # distinguish: same multiset of log lines but different order / different evaluation count / different value
            exp_log = [l for l in it.out if l.split(" ")[0] in ("t", "r", "b", "o", "u", "ub", "c")]
            got_log = [l for l in lines if l.split(" ")[0] in ("t", "r", "b", "o", "u", "ub", "c")]
            if exp_log == got_log:
                kind = "value"
            elif sorted(exp_log) == sorted(got_log):
                kind = "order"
            else:
                kind = "evaluation-count"
            viol.append({"sig": {"kind": kind, "ops": ",".join(ops), "ctx": ctx},
                         "what": f"{tree!r} in {ctx}: line {i} expected {it.out[i] if i < len(it.out) else '<end>'!r} got "
                                 f"{lines[i] if i < len(lines) else '<end>'!r}", "detail": detail})
        if not viol:
            return self.ok_result(tree, ctx, len(it.out))
        return {"outcome": "ok-DIFF", "viol": viol, "nontrivial": True,
                "tags": [f"op{o}" for o in ops] + [f"ctx-{ctx}", f"depth{tdepth(tree)}"],
                "counters": {"states": len(it.out) + 1, "transitions": len(it.out)}}

    def finish(self, stats, tier):
        errs = []
        for o in ALL_OPS + ["v", "u", "vb", "ub", "k2", "ct", "cf", "cn", "cb", "ei", "eb", "fi", "fb", "ob", "obn", "obv"]:
            if not stats["tags"].get(f"op{o}"):
                errs.append(f"vacuity: node kind {o} never executed")
        for o in ALL_OPS:
            # every operator must also occur BELOW another node (a generator that only ever puts a node kind at the root hides its interactions)
            if not stats["tags"].get(f"child-{o}"):
                errs.append(f"vacuity: node kind {o} never occurs as the child of another node")
        for f in OPA_FORMS:
            if not stats["tags"].get("opa-" + f):
                errs.append(f"vacuity: op-assignment target form {f} never executed (rejected by the compiler?)")
        if not stats["tags"].get("ctx-print~minparen"):
            errs.append("vacuity: no tree rendered with minimal parentheses")
        rej = stats["tags"].get("rejected", 0)
        if rej > stats["evaluations"] * 0.1:
            errs.append(f"vacuity: {rej} programs rejected by the compiler")
        ok = stats["evaluations"] - rej
        stats["extra_coverage"] = {"states": stats["counters"].get("states", 0), "transitions": stats["counters"].get("transitions", 0),
                                   "traces_validated_against_impl": ok, "rejected_by_compiler": rej}
        return errs


def _ops(n):
    if len(n) > 1:
        yield n[0]
        for c in n[1:]:
            yield from _ops(c)
    else:
        yield n[0]


def register_corpus(register):
    memo = {}
    trees = [n for t in ("I", "B") for n in trees_rule1(2, t, memo)][::29]

    def count(tier):
        return len(trees)

    def get(i):
        return {"x.ms": refint.program(build(trees[i], "print"))}
    register("c15", count, get)
