"""C19 — foreign calls: argument vector passed in order and unchanged, result pushed, errors stop
the program.  E-matrix over argument vectors; hand-assembled .mmm files; probe dylib."""
import itertools
import re

from ..core import build, driver
from ..core.explore import Check

OP = {"make_vector": 14, "store_fast": 42, "load_fast": 25, "vec_op": 5, "pop": 3, "make_bool": 6, "make_str": 7, "make_bigint": 8, "make_int": 9, "make_float": 10,
      "make_byte": 11, "void": 15, "printn": 18, "call_lib": 32, "ret_mod": 57}

# (kind, make-instruction, argument text, rendering by the probe (Rust {:?}-style), Display, H2 kind)
VALS = {
    "int": [("make_int", "5", "int:5", "5", "Int"), ("make_int", "-2147483648", "int:-2147483648", "-2147483648", "Int")],
    "bigint": [("make_bigint", "7", "bigint:7", "7", "BigInt"),
               ("make_bigint", str(-2 ** 100), f"bigint:{-2**100}", str(-2 ** 100), "BigInt")],
    "float": [("make_float", "1.5", "float:1.5", "1.5", "Float"), ("make_float", "-0.25", "float:-0.25", "-0.25", "Float")],
    "byte": [("make_byte", "0b101", "byte:5", "0b101", "Byte"), ("make_byte", "255", "byte:255", "0b11111111", "Byte")],
    "bool": [("make_bool", "true", "bool:true", "true", "Bool"), ("make_bool", "false", "bool:false", "false", "Bool")],
    "str": [("make_str", "s", 'str:"s"', "s", "Str"), ("make_str", '"a b"', 'str:"a b"', "a b", "Str")],
}
KINDS = list(VALS)
# values that own garbage-collected memory: a list (built in a register before the argument vector is pushed) - separate layer
LISTS = [([1, 2], "list:[1, 2]", "[1, 2]"), ([], "list:[]", "[]"), ([7], "list:[7]", "[7]")]
FUNCS = ["echo", "last", "nothing", "fail", "nolib", "nosym", "echo2"]


def qarg(text):
    """a string argument in the quoted form of the binary file format"""
    return '"' + text.replace("\\", "\\\\").replace('"', '\\"').replace("\n", "\\n").replace("\r", "\\r").replace("\t", "\\t") + '"'


# messages a foreign function may raise (probe function fail_with raises its first argument): whatever the text - empty, blank, several
# lines, quotes, non-ASCII, long - the call is a failure, nothing after it runs, and the report carries every line of the message
ERR_MESSAGES = ["", " ", "x", "two\nlines", "\nleading-newline", "trailing-newline\n", "\n", "three\nseparate\nlines", "tab\there", 'quo"ted',
                "back\\slash", "h\u00e9llo \U0001F600", "colon: {0} {} %s", "L" * 300, "0", "false", "nil", "Error: fake", "Caused by:\n    0: fake"]
ERR_POSITIONS = ["entry", "entry-tail", "helper", "helper-tail"]


def err_program(position, message, lib):
    call = [("make_str", qarg(message)), ("call_lib", lib, "fail_with")]
    sentinel = [("void",), ("make_str", "SENTINEL"), ("printn", "*"), ("void",)]
    if position == "entry":
        return asm([("__module__", call + [("printn", "*")] + sentinel + [("ret_mod",)])])
    if position == "entry-tail":
        return asm([("__module__", call + [("ret",)])])
    if position == "helper":
        return asm([("__module__", [("make_function", "a.mmm#h"), ("call",), ("pop",)] + sentinel + [("ret_mod",)]),
                    ("h", call + [("printn", "*")] + sentinel + [("void",), ("ret",)])])
    if position == "helper-tail":
        return asm([("__module__", [("make_function", "a.mmm#h"), ("call",), ("printn", "*")] + sentinel + [("ret_mod",)]),
                    ("h", call + [("ret",)])])
    raise ValueError(position)


def ins(op, *args):
    b = bytes([OP[op]])
    if args:
        b += b" " + " ".join(args).encode()
    return b + b"\0"


def assemble(vec, func, lib):
    body = b""
    # lists are built first, each in its own register, because building one uses the operand stack
    for pos, (kind, vi) in enumerate(vec):
        if kind == "list":
            body += ins("make_vector", str(len(LISTS[vi][0]))) + ins("store_fast", f"#{pos}")
            for x in LISTS[vi][0]:
                body += ins("make_int", str(x)) + ins("vec_op", f"+#{pos}")
    for pos, (kind, vi) in enumerate(vec):
        if kind == "list":
            body += ins("load_fast", f"#{pos}")
            continue
        mk, arg = VALS[kind][vi][0], VALS[kind][vi][1]
        body += ins(mk, arg)
    if func == "nolib":
        body += ins("call_lib", lib + ".missing", "echo")
    elif func == "nosym":
        body += ins("call_lib", lib, "no_such_symbol")
    elif func == "echo2":
        # two consecutive foreign calls: the second one receives [result of the first, int 5]
        body += ins("call_lib", lib, "echo") + ins("make_int", "5") + ins("call_lib", lib, "echo")
    else:
        body += ins("call_lib", lib, func)
    body += ins("printn", "*") + ins("void")
    body += ins("make_str", "SENTINEL") + ins("printn", "*") + ins("void") + ins("ret_mod")
    return b"f __module__\0" + body + b"e\0"


# sequences of foreign calls in one program: (library in {A, B, missing}, function) ------------------------------------
SEQ_CALLS = [(lib, fn_) for lib in ("A", "B", "missing") for fn_ in ("echo", "last", "nothing", "fail", "nosym")]


def lib_path(lib):
    return {"A": build.PROBE_LIB, "B": build.PROBE2_LIB, "missing": build.PROBE_LIB + ".missing"}[lib]


def assemble_seq(seq):
    """each step: void; push int k+1 and str "s"; call_lib; printn *; ... ; sentinel"""
    body = b""
    for k, (lib, fn_) in enumerate(seq):
        sym = "no_such_symbol" if fn_ == "nosym" else fn_
        body += ins("void") + ins("make_int", str(k + 1)) + ins("make_str", "s") + ins("call_lib", lib_path(lib), sym) + ins("printn", "*")
    body += ins("void") + ins("make_str", "SENTINEL") + ins("printn", "*") + ins("void") + ins("ret_mod")
    return b"f __module__\0" + body + b"e\0"


# argument vectors of DIFFERENT LENGTHS in sequence: what one call received must not reach the next (the empty vector after a full one, a short one after a long one)
VSEQ_VECS = [(), (("int", 0),), (("str", 0), ("int", 1)), (("bool", 0), ("float", 0), ("byte", 0))]


def assemble_vseq(vecs, first_fn):
    body = b""
    for k, vec in enumerate(vecs):
        body += ins("void")
        for kind, i in vec:
            body += ins(VALS[kind][i][0], VALS[kind][i][1])
        fn_ = first_fn if k == 0 else "echo"
        body += ins("call_lib", build.PROBE_LIB if k % 2 == 0 else build.PROBE2_LIB, fn_) + ins("printn", "*")
    body += ins("void") + ins("make_str", "SENTINEL") + ins("printn", "*") + ins("void") + ins("ret_mod")
    return b"f __module__\0" + body + b"e\0"


def expected_vseq(vecs, first_fn):
    out = []
    for k, vec in enumerate(vecs):
        tag = "B" if k % 2 else ""
        if k == 0 and first_fn == "nothing":
            continue
        out.append(f"Str:{tag}[" + ";".join(VALS[kind][i][2] for kind, i in vec) + "]")
    return out + ["Str:SENTINEL"]


def carries(err, msg):
    """The report must carry the message of the failure: the foreign function's own text, or - for a missing library / symbol, whose
    wording belongs to the interpreter and is free - the established text or at least the name of what is missing."""
    alts = {"Could not open FFI Library": [".missing", "libffiprobe"], "Could not find symbol": ["no_such_symbol"]}
    return msg in err or any(a in err for a in alts.get(msg, []))



def expected_seq(seq):
    """-> (stdout lines, failing step index or None, message fragment)"""
    out = []
    for k, (lib, fn_) in enumerate(seq):
        if lib == "missing":
            return out, k, "Could not open FFI Library"
        if fn_ == "nosym":
            return out, k, "Could not find symbol"
        if fn_ == "fail":
            return out, k, "probe-raised-error"
        tag = "B" if lib == "B" else ""
        if fn_ == "echo":
            out.append(f'Str:{tag}[int:{k + 1};str:"s"]')
        elif fn_ == "last":
            out.append("Str:s")
        else:
            out.append("")
    out.append("Str:SENTINEL")
    return out, None, None


# positions: what surrounds the foreign call --------------------------------------------------------------------------
def _optable():
    from .c18 import opcode_table
    return opcode_table()


def asm(functions):
    """[(name, [(opname, arg, ...), ...])] -> binary .mmm"""
    T = _optable()
    out = b""
    for name, body in functions:
        out += b"f " + name.encode() + b"\0"
        for op, *args in body:
            out += bytes([T[op]]) + ((b" " + " ".join(args).encode()) if args else b"") + b"\0"
        out += b"e\0"
    return out


POSITIONS = ["tail-of-entry", "tail-of-helper", "helper-then-store", "map-callback", "filter-callback", "then-pop", "then-store",
             "helper-called-twice"]
POS_FUNCS = ["echo", "last", "fail", "nolib", "nosym"]
SENT = [("void",), ("make_str", "SENTINEL"), ("printn", "*"), ("void",), ("ret_mod",)]


def pos_call(func, lib):
    if func == "nolib":
        return ("call_lib", lib + ".missing", "echo")
    if func == "nosym":
        return ("call_lib", lib, "no_such_symbol")
    return ("call_lib", lib, func)


def pos_program(position, func, lib):
    """-> (binary, expected stdout lines when the call succeeds).  The foreign call receives [int 7] (callbacks: [element])
    or, for the filter callback, [bool true]."""
    c = pos_call(func, lib)
    val = {"echo": "Str:[int:7]", "last": "Int:7"}.get(func)
    if position == "tail-of-entry":
        return asm([("__module__", [("make_int", "7"), c, ("ret",)] + SENT)]), []
    if position == "tail-of-helper":
        return asm([("h", [("make_int", "7"), c, ("ret",)]),
                    ("__module__", [("call", "a.mmm#h"), ("printn", "*")] + SENT)]), [val, "Str:SENTINEL"]
    if position == "helper-then-store":
        return asm([("h", [("make_int", "7"), c, ("store", "r"), ("load", "r"), ("ret",)]),
                    ("__module__", [("call", "a.mmm#h"), ("printn", "*")] + SENT)]), [val, "Str:SENTINEL"]
    if position == "helper-called-twice":
        return asm([("h", [("make_int", "7"), c, ("ret",)]),
                    ("__module__", [("call", "a.mmm#h"), ("printn", "*"), ("void",), ("call", "a.mmm#h"), ("printn", "*")] + SENT)]), \
            [val, val, "Str:SENTINEL"]
    if position == "then-pop":
        return asm([("__module__", [("make_int", "7"), c, ("pop",)] + SENT)]), ["Str:SENTINEL"]
    if position == "then-store":
        return asm([("__module__", [("make_int", "7"), c, ("store", "r"), ("load", "r"), ("printn", "*")] + SENT)]), [val, "Str:SENTINEL"]
    vec = [("make_vector", "2"), ("store_fast", "#0"), ("make_int", "1"), ("vec_op", "+#0"), ("make_int", "2"), ("vec_op", "+#0"),
           ("delete_name_reference_scoped", "#0"), ("store", "l")]

    def through(method):
        return [("load", "l"), ("store_fast", "#1"), ("load_fast", "#1"), ("lookup", method), ("store_fast", "#2"),
                ("make_function", "a.mmm#cb"), ("store_fast", "#3"), ("load_fast", "#3"), ("ld_self", "#1"), ("load_fast", "#2"),
                ("call",), ("printn", "*")]
    if position == "map-callback":
        exp = {"echo": 'Vector:["[int:1]", "[int:2]"]', "last": "Vector:[1, 2]"}.get(func)
        return asm([("cb", [("arg", "0"), c, ("ret",)]), ("__module__", vec + through("map") + SENT)]), [exp, "Str:SENTINEL"]
    if position == "filter-callback":
        exp = "Vector:[1, 2]" if func == "last" else None
        return asm([("cb", [("make_bool", "true"), c, ("ret",)]), ("__module__", vec + through("filter") + SENT)]), [exp, "Str:SENTINEL"]
    raise ValueError(position)


# library names: the library named by the instruction is the one that is opened, whatever its file name looks like ------------
LIB_NAMES = ["probe.so", "probe.dll", "probe.dylib", "probe", "probe.so.1", "probe.bin", "libs/probe.v2.so", "./probe.x.y", "probe.SO", "pro be.so"]
# (name asked for, sibling that exists): the library asked for is missing; a file with a similar name must not be opened instead
LIB_GHOSTS = [("ghost.dll", "ghost.so"), ("ghost", "ghost.so"), ("ghost.so.1", "ghost.so"), ("ghost.so", "ghost.dll"), ("ghost.so", "ghost"),
              ("libs/ghost.bin", "libs/ghost.so"), ("ghost.so", "libghost.so")]


def rust_str_debug(s):
    return '"' + s.replace("\\", "\\\\").replace('"', '\\"') + '"'


class C19(Check):
    id = "C19"
    level = "exploration"
    need_probe = True
    rule = ("all argument vectors of length 0..L over {int,bigint,float,byte,bool,str} (two values per kind at "
            "length <=2, one value per kind above) x probe functions {echo, last, nothing, fail, missing library, "
            "missing symbol, two chained calls}; all sequences of 2 (thorough: 3) foreign calls over {library A, library B with the same "
            "symbols, missing library} [and 19 error messages (empty, blank, several lines, quotes, backslash, non-ASCII, 300 characters, look-alikes of the report's own lines) raised through probe function fail_with in 4 positions (entry function, tail of it, helper function, tail of helper)]  x {echo, last, nothing, fail, missing symbol}; every call position {last instruction of the entry function, tail of a "
            "helper function, helper storing the result first, helper called twice, callback of list.map, callback of list.filter, result popped, "
            "result stored} x {echo, last, fail, missing library, missing symbol}; each assembled as a binary .mmm and executed with `mscript execute`. "
            "Argument vectors of different lengths (0 .. 3) in sequences of 2 and 3 calls, alternating between the two libraries, the first call returning a value or none.  Symbol names: 17 exported functions whose names (1 .. 300 bytes) are prefixes of one another, each returning its own name, and 14 names in between that are not exported, in both libraries.  "
            "Non-trivial = vector length >= 1; distinct = distinct (vector, function).")
    assumptions = ["probe dylib built against /repo/bytecode in the same cargo target dir",
                   "of the values owning GC memory only lists of ints are in the alphabet (objects, functions, maps are not)",
                   "dev profile, Linux dlopen"]
    chunksize = 32

    def vectors(self, maxlen):
        for n in range(0, maxlen + 1):
            if n <= 2:
                syms = [(k, i) for k in KINDS for i in (0, 1)]
            else:
                syms = [(k, 0) for k in KINDS]
            for vec in itertools.product(syms, repeat=n):
                yield vec

    def layers(self, tier):
        L = 4 if tier == "quick" else 6

        def gen(maxlen, lo=0):
            for vec in self.vectors(maxlen):
                if len(vec) < lo:
                    continue
                for f in FUNCS:
                    yield (vec, f)
        seq2 = [("seq", c) for c in itertools.product(range(len(SEQ_CALLS)), repeat=2)]
        posl = [("pos", p_, f_) for p_ in POSITIONS for f_ in POS_FUNCS if not (p_ == "filter-callback" and f_ == "echo")]
        syms = [("list", i) for i in range(len(LISTS))] + [("int", 0), ("str", 0), ("bool", 1)]
        gcl = [(vec, f) for n in (1, 2, 3) for vec in itertools.product(syms, repeat=n) if any(k == "list" for k, _ in vec)
               for f in ("echo", "last", "nothing", "fail", "echo2")]
        libl = [("lib", "named", i) for i in range(len(LIB_NAMES))] + [("lib", "ghost", i) for i in range(len(LIB_GHOSTS))]
        errl = [("err", p_, i) for p_ in ERR_POSITIONS for i in range(len(ERR_MESSAGES))]
        syml = [("sym", n, lib) for n in sorted(self.SYM_EXPORTED + self.SYM_MISSING) for lib in ("A", "B")]
        vsl = [("vseq", c, f) for n in (2, 3) for c in itertools.product(range(len(VSEQ_VECS)), repeat=n) for f in ("echo", "nothing")]
        ls = [("L0h-argument-vectors-of-different-lengths-in-sequence", vsl), ("L0g-symbol-names-of-1..400-bytes-that-are-prefixes-of-one-another", syml), ("L0f-error-messages-x-positions", errl), ("L0-len<=2", list(gen(2))), ("L0b-call-sequences-of-2", seq2), ("L0c-call-positions", posl), ("L0d-library-file-names", libl), ("L0e-list-arguments-len<=3", gcl),
              ("L1-len<=4", gen(4, 3))]
        if L > 4:
            ls.append(("L1b-call-sequences-of-3", [("seq", c) for c in itertools.product(range(len(SEQ_CALLS)), repeat=3)]))
        if L > 4:
            ls.append(("L2-len5", gen(5, 5)))
            ls.append(("L3-len6", gen(6, 6)))
        return ls

    def describe(self, case):
        if case[0] == "vseq":
            return {"argument vector lengths in sequence": [len(VSEQ_VECS[i]) for i in case[1]], "first call": case[2]}
        if case[0] == "sym":
            return {"symbol-name-bytes": case[1], "exported": case[1] in self.SYM_EXPORTED, "library": case[2]}
        if case[0] == "seq":
            return {"sequence": [f"{SEQ_CALLS[i][1]}@{SEQ_CALLS[i][0]}" for i in case[1]]}
        if case[0] == "pos":
            return {"position": case[1], "function": case[2]}
        if case[0] == "err":
            return {"position": case[1], "message": ERR_MESSAGES[case[2]][:60]}
        if case[0] == "lib":
            return {"library": LIB_NAMES[case[2]] if case[1] == "named" else list(LIB_GHOSTS[case[2]]), "kind": case[1]}
        vec, f = case
        return {"args": [f"{k}:{LISTS[i][0] if k == 'list' else VALS[k][i][1]}" for k, i in vec], "function": f}

    def run_vseq(self, case):
        _, idx, first_fn = case
        vecs = [VSEQ_VECS[i] for i in idx]
        prog = assemble_vseq(vecs, first_fn)
        d = driver.fresh_dir()
        driver.write_files(d, {"a.mmm": prog})
        res = driver.run(["execute", "a.mmm"], d, env={"MSCRIPT_VERIF_TYPED_PRINT": "1"})
        exp = expected_vseq(vecs, first_fn)
        got = [l for l in res.lines() if l != ""]
        viol = []
        if res.exit != 0 or got != exp:
            viol.append({"sig": {"kind": "argument-vectors-in-sequence", "func": "echo", "lengths": ",".join(str(len(v)) for v in vecs), "first": first_fn},
                         "what": f"calls with argument vectors of lengths {[len(v) for v in vecs]} (first call: {first_fn}): expected {exp}, got exit {res.exit} and {got} {res.err[-200:]}",
                         "detail": {"case": self.describe(case), "files": {"a.mmm": prog}, "res": res.brief(), "expected": exp}})
        return {"outcome": "vseq-ok" + ("-DIFF" if viol else ""), "viol": viol, "nontrivial": True, "tags": ["vseq"]}

    def run_seq(self, case):
        seq = [SEQ_CALLS[i] for i in case[1]]
        d = driver.fresh_dir()
        prog = assemble_seq(seq)
        driver.write_files(d, {"a.mmm": prog})
        res = driver.run(["execute", "a.mmm"], d, env={"MSCRIPT_VERIF_TYPED_PRINT": "1"})
        lines = res.lines()
        exp, failing, msg = expected_seq(seq)
        desc = self.describe(case)
        viol = []
        detail = {"case": desc, "files": {"a.mmm": prog}, "res": res.brief(), "expected": exp, "failing_step": failing}

        def bad(kind, what):
            viol.append({"sig": {"kind": kind, "func": "sequence", "shape": ",".join(f"{l}:{f}" for l, f in seq)},
                         "what": f"{desc['sequence']}: {what}", "detail": detail})
        if failing is None:
            if res.exit != 0 or lines != exp:
                bad("wrong-result", f"expected {exp} exit 0, got {lines} exit {res.exit}")
        else:
            if res.exit == 0 or res.cls != "error":
                bad("fault-not-error", f"step {failing} must stop the program with a run-time error; got {res.cls} ({res.exit}) and {lines}")
            else:
                if lines != exp:
                    bad("output-before-fault", f"expected {exp} before the failing call, got {lines}")
                if not carries(res.err, msg):
                    bad("message-lost", f"error text does not carry {msg!r}")
        return {"outcome": "seq-ok" if failing is None else "seq-err", "viol": viol, "nontrivial": True, "tags": ["seq"]}

    def run_pos(self, case):
        _, position, func = case
        prog, exp = pos_program(position, func, build.PROBE_LIB)
        d = driver.fresh_dir()
        driver.write_files(d, {"a.mmm": prog})
        res = driver.run(["execute", "a.mmm"], d, env={"MSCRIPT_VERIF_TYPED_PRINT": "1"})
        lines = res.lines()
        viol = []
        detail = {"case": self.describe(case), "files": {"a.mmm": prog}, "res": res.brief(), "expected": exp}

        def bad(kind, what):
            viol.append({"sig": {"kind": kind, "func": func, "position": position}, "what": f"{func} at {position}: {what}", "detail": detail})
        if func in ("echo", "last"):
            if res.exit != 0 or lines != exp:
                bad("wrong-result", f"expected {exp} exit 0, got {lines} exit {res.exit} {res.err[-200:]}")
        else:
            msg = {"fail": "probe-raised-error", "nolib": "Could not open FFI Library", "nosym": "Could not find symbol"}[func]
            if res.exit == 0 or res.cls != "error":
                bad("fault-not-error", f"expected a run-time error, got {res.cls} (exit {res.exit}) and {lines}")
            else:
                if "SENTINEL" in res.out or lines:
                    bad("ran-on", f"output after / around the failing call: {lines}")
                if not carries(res.err, msg):
                    bad("message-lost", f"error text does not carry {msg!r}")
        return {"outcome": ("pos-ok" if func in ("echo", "last") else "pos-err") + ("-DIFF" if viol else ""), "viol": viol,
                "nontrivial": True, "tags": ["pos", f"pos-{position}"]}

    def run_err(self, case):
        _, position, mi = case
        message = ERR_MESSAGES[mi]
        prog = err_program(position, message, build.PROBE_LIB)
        d = driver.fresh_dir()
        driver.write_files(d, {"a.mmm": prog})
        res = driver.run(["execute", "a.mmm"], d, env={"MSCRIPT_VERIF_TYPED_PRINT": "1"})
        viol = []
        detail = {"case": self.describe(case), "message": message, "files": {"a.mmm": prog}, "res": res.brief()}

        def bad(kind, what):
            viol.append({"sig": {"kind": kind, "position": position, "message-class": "empty" if not message.strip() else "multi-line" if "\n" in message.strip("\n") else "plain"},
                         "what": f"fail_with({message[:40]!r}) at {position}: {what}", "detail": detail})
        if res.exit == 0 or res.cls != "error":
            bad("fault-not-error", f"an error raised by the foreign function must stop the program with a run-time error; got {res.cls} (exit {res.exit}), stdout {res.lines()}")
        else:
            if "SENTINEL" in res.out or res.lines():
                bad("ran-on", f"instructions after the failing call ran: {res.lines()}")
            if not driver.runtime_banner(res):
                bad("no-banner", "no run-time error banner")
            err = res.err.replace("\r", "")
            missing = [ln for ln in message.split("\n") if ln.strip() and ln.strip() not in err]
            if missing:
                bad("message-lost", f"the report does not carry these lines of the message: {missing[:3]}")
        return {"outcome": "err-ok" if not viol else "err-DIFF", "viol": viol, "nontrivial": True, "tags": ["err", f"err-{position}"]}

    def run_lib(self, case):
        import os
        import shutil
        _, kind, i = case
        d = driver.fresh_dir()
        os.makedirs(os.path.join(d, "libs"), exist_ok=True)
        if kind == "named":
            asked = LIB_NAMES[i]
            shutil.copy(build.PROBE_LIB, os.path.join(d, asked))
            # a decoy with the platform suffix that answers differently (library B tags its output)
            decoy = os.path.splitext(asked)[0] + ".so"
            if decoy != asked and not os.path.exists(os.path.join(d, decoy)):
                shutil.copy(build.PROBE2_LIB, os.path.join(d, decoy))
        else:
            asked, sibling = LIB_GHOSTS[i]
            shutil.copy(build.PROBE_LIB, os.path.join(d, sibling))
        path = asked if asked.startswith("./") else "./" + asked
        quoted = '"' + path + '"' if " " in path else path
        prog = b"f __module__\0" + ins("make_int", "7") + ins("call_lib", quoted, "echo") + ins("printn", "*") + ins("void") + \
            ins("make_str", "SENTINEL") + ins("printn", "*") + ins("void") + ins("ret_mod") + b"e\0"
        driver.write_files(d, {"a.mmm": prog})
        res = driver.run(["execute", "a.mmm"], d, env={"MSCRIPT_VERIF_TYPED_PRINT": "1"})
        lines = res.lines()
        viol = []
        detail = {"case": self.describe(case), "files": {"a.mmm": prog}, "res": res.brief(), "directory": sorted(os.listdir(d)) + sorted("libs/" + x for x in os.listdir(os.path.join(d, "libs")))}

        def bad(k, what):
            viol.append({"sig": {"kind": k, "func": "library-name", "name": asked}, "what": f"library `{asked}`: {what}", "detail": detail})
        if kind == "named":
            if res.exit != 0 or lines != ["Str:[int:7]", "Str:SENTINEL"]:
                bad("wrong-library", f"the named file exists and must be the one called; got {lines} exit {res.exit} {res.err[-160:]}")
        else:
            if res.exit == 0 or res.cls != "error" or not driver.runtime_banner(res) or lines:
                bad("missing-library-not-reported", f"the named file does not exist (only `{sibling}` does); got {lines} exit {res.exit} ({res.cls})")
        return {"outcome": f"lib-{kind}" + ("-DIFF" if viol else ""), "viol": viol, "nontrivial": True, "tags": ["lib", f"lib-{kind}"]}

    # symbol names: the probe exports functions whose names are prefixes of one another (each returns its own name); every exported length must reach
    # exactly that function, every length in between is a missing symbol although shorter and longer neighbours exist
    SYM_BASE = "s" + "abcdefghij" * 40
    SYM_EXPORTED = [1, 2, 15, 16, 17, 31, 32, 33, 63, 64, 65, 127, 128, 129, 255, 256, 300]
    SYM_MISSING = [3, 14, 18, 30, 34, 62, 66, 126, 130, 254, 257, 299, 301, 400]

    def run_sym(self, case):
        _, n, lib = case
        name = self.SYM_BASE[:n]
        exported = n in self.SYM_EXPORTED
        d = driver.fresh_dir()
        libpath = build.PROBE_LIB if lib == "A" else build.PROBE2_LIB
        prog = b"f __module__\0" + ins("make_int", "7") + ins("call_lib", libpath, name) + ins("printn", "*") + ins("void") + \
            ins("make_str", "SENTINEL") + ins("printn", "*") + ins("void") + ins("ret_mod") + b"e\0"
        driver.write_files(d, {"a.mmm": prog})
        res = driver.run(["execute", "a.mmm"], d, env={"MSCRIPT_VERIF_TYPED_PRINT": "1"})
        lines = res.lines()
        viol = []
        detail = {"case": self.describe(case), "files": {"a.mmm": prog}, "res": res.brief()}

        def bad(k, what):
            viol.append({"sig": {"kind": k, "func": "symbol-name", "length": str(n)}, "what": f"symbol of {n} bytes ({'exported' if exported else 'not exported'}): {what}", "detail": detail})
        if exported:
            want = ["Str:" + ("B" if lib == "B" else "") + name, "Str:SENTINEL"]
            if res.exit != 0 or lines != want:
                bad("wrong-symbol", f"the exported function must be called and its result delivered; got exit {res.exit} and {[x[:60] for x in lines]} {res.err[-200:]}")
        else:
            if res.exit == 0 or res.cls != "error" or not driver.runtime_banner(res) or lines:
                bad("missing-symbol-not-reported", f"no such symbol exists (shorter and longer names do); got exit {res.exit} ({res.cls}) and {[x[:60] for x in lines]}")
        return {"outcome": ("sym-exported" if exported else "sym-missing") + ("-DIFF" if viol else ""), "viol": viol, "nontrivial": True,
                "tags": ["sym", "sym-exported" if exported else "sym-missing"]}

    def run_case(self, case):
        if case[0] == "sym":
            return self.run_sym(case)
        if case[0] == "vseq":
            return self.run_vseq(case)
        if case[0] == "lib":
            return self.run_lib(case)
        if case[0] == "seq":
            return self.run_seq(case)
        if case[0] == "pos":
            return self.run_pos(case)
        if case[0] == "err":
            return self.run_err(case)
        vec, func = case
        d = driver.fresh_dir()
        prog = assemble(vec, func, build.PROBE_LIB)
        driver.write_files(d, {"a.mmm": prog})
        res = driver.run(["execute", "a.mmm"], d, env={"MSCRIPT_VERIF_TYPED_PRINT": "1"})
        lines = res.lines()
        def r2(k, i):
            return LISTS[i][1] if k == "list" else VALS[k][i][2]

        def shown(k, i):
            return ("Vector:" + LISTS[i][2]) if k == "list" else (VALS[k][i][4] + ":" + VALS[k][i][3])
        rend = "[" + ";".join(r2(k, i) for k, i in vec) + "]"
        viol = []
        detail = {"case": self.describe(case), "files": {"a.mmm": prog}, "cmd": "mscript execute a.mmm",
                  "res": res.brief()}

        def bad(kind, what, **sig):
            s = {"kind": kind, "func": func}
            s.update(sig)
            viol.append({"sig": s, "what": what, "detail": detail})

        if func in ("echo", "last", "nothing", "echo2"):
            if func == "echo":
                exp0 = "Str:" + rend
            elif func == "echo2":
                exp0 = "Str:[str:" + rust_str_debug(rend) + ";int:5]"
            elif func == "last":
                if vec:
                    k, i = vec[-1]
                    exp0 = shown(k, i)
                else:
                    exp0 = "Int:-1"
            else:
                exp0 = ""
            exp = [exp0, "Str:SENTINEL"]
            if res.exit != 0 or lines != exp:
                bad("wrong-result", f"{func}{self.describe(case)['args']}: expected {exp} exit 0, got {lines} exit {res.exit}",
                    n=len(vec))
            outcome = f"{func}-ok" if not viol else f"{func}-bad"
        else:
            msg = {"fail": "probe-raised-error", "nolib": "Could not open FFI Library", "nosym": "Could not find symbol"}[func]
            if res.exit == 0 or res.cls != "error":
                bad("fault-not-error", f"{func}: expected run-time error exit 1, got {res.cls} ({res.exit})")
            if "SENTINEL" in res.out:
                bad("ran-on", f"{func}: an instruction after the failing call_lib ran (sentinel printed)")
            if not carries(res.err, msg):
                bad("message-lost", f"{func}: error text does not carry {msg!r}")
            if not driver.runtime_banner(res):
                bad("no-banner", f"{func}: no run-time error banner")
            outcome = f"{func}-err" if not viol else f"{func}-bad"
        return {"outcome": outcome, "viol": viol, "nontrivial": len(vec) >= 1,
                "tags": [f"len{len(vec)}", func]}

    def finish(self, stats, tier):
        errs = []
        for f in FUNCS + ["seq", "pos", "err", "lib-named", "lib-ghost"] + [f"pos-{p_}" for p_ in POSITIONS]:
            if not stats["tags"].get(f):
                errs.append(f"vacuity: function {f} never exercised")
        return errs
