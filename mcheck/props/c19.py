"""C19 — foreign calls: argument vector passed in order and unchanged, result pushed, errors stop
the program.  E-matrix over argument vectors; hand-assembled .mmm files; probe dylib."""
import itertools
import re

from ..core import build, driver
from ..core.explore import Check

OP = {"pop": 3, "make_bool": 6, "make_str": 7, "make_bigint": 8, "make_int": 9, "make_float": 10,
      "make_byte": 11, "void": 15, "printn": 18, "call_lib": 32, "ret_mod": 57}

# (kind, make-instruction, argument text, rendering by the probe (Rust {:?}-style), Display, H2 kind)
VALS = {
    "int": [("make_int", "5", "int:5", "5", "Int"), ("make_int", "-2147483648", "int:-2147483648", "-2147483648", "Int")],
    "bigint": [("make_bigint", "7", "bigint:7", "7", "BigInt"),
               ("make_bigint", str(-2 ** 100), f"bigint:{-2**100}", str(-2 ** 100), "BigInt")],
    "float": [("make_float", "1.5", "float:1.5", "1.5", "Float"), ("make_float", "-0.25", "float:-0.25", "-0.25", "Float")],
    "byte": [("make_byte", "0b101", "byte:5", "0b101", "Byte"), ("make_byte", "255", "byte:255", "0b11111111", "Byte")],
    "bool": [("make_bool", "true", "bool:true", "true", "Bool"), ("make_bool", "false", "bool:false", "false", "Bool")],
    "str": [("make_str", "s", 'str:"s"', "s", "Str"), ("make_str", '"a b"', 'str:"a b"', "a b", "Str")],
}
KINDS = list(VALS)
FUNCS = ["echo", "last", "nothing", "fail", "nolib", "nosym", "echo2"]


def ins(op, *args):
    b = bytes([OP[op]])
    if args:
        b += b" " + " ".join(args).encode()
    return b + b"\0"


def assemble(vec, func, lib):
    body = b""
    for kind, vi in vec:
        mk, arg = VALS[kind][vi][0], VALS[kind][vi][1]
        body += ins(mk, arg)
    if func == "nolib":
        body += ins("call_lib", lib + ".missing", "echo")
    elif func == "nosym":
        body += ins("call_lib", lib, "no_such_symbol")
    elif func == "echo2":
        # two consecutive foreign calls: the second one receives [result of the first, int 5]
        body += ins("call_lib", lib, "echo") + ins("make_int", "5") + ins("call_lib", lib, "echo")
    else:
        body += ins("call_lib", lib, func)
    body += ins("printn", "*") + ins("void")
    body += ins("make_str", "SENTINEL") + ins("printn", "*") + ins("void") + ins("ret_mod")
    return b"f __module__\0" + body + b"e\0"


# sequences of foreign calls in one program: (library in {A, B, missing}, function) ------------------------------------
SEQ_CALLS = [(lib, fn_) for lib in ("A", "B", "missing") for fn_ in ("echo", "last", "nothing", "fail", "nosym")]


def lib_path(lib):
    return {"A": build.PROBE_LIB, "B": build.PROBE2_LIB, "missing": build.PROBE_LIB + ".missing"}[lib]


def assemble_seq(seq):
    """each step: void; push int k+1 and str "s"; call_lib; printn *; ... ; sentinel"""
    body = b""
    for k, (lib, fn_) in enumerate(seq):
        sym = "no_such_symbol" if fn_ == "nosym" else fn_
        body += ins("void") + ins("make_int", str(k + 1)) + ins("make_str", "s") + ins("call_lib", lib_path(lib), sym) + ins("printn", "*")
    body += ins("void") + ins("make_str", "SENTINEL") + ins("printn", "*") + ins("void") + ins("ret_mod")
    return b"f __module__\0" + body + b"e\0"


def expected_seq(seq):
    """-> (stdout lines, failing step index or None, message fragment)"""
    out = []
    for k, (lib, fn_) in enumerate(seq):
        if lib == "missing":
            return out, k, "Could not open FFI Library"
        if fn_ == "nosym":
            return out, k, "Could not find symbol"
        if fn_ == "fail":
            return out, k, "probe-raised-error"
        tag = "B" if lib == "B" else ""
        if fn_ == "echo":
            out.append(f'Str:{tag}[int:{k + 1};str:"s"]')
        elif fn_ == "last":
            out.append("Str:s")
        else:
            out.append("")
    out.append("Str:SENTINEL")
    return out, None, None


def rust_str_debug(s):
    return '"' + s.replace("\\", "\\\\").replace('"', '\\"') + '"'


class C19(Check):
    id = "C19"
    level = "exploration"
    need_probe = True
    rule = ("all argument vectors of length 0..L over {int,bigint,float,byte,bool,str} (two values per kind at "
            "length <=2, one value per kind above) x probe functions {echo, last, nothing, fail, missing library, "
            "missing symbol, two chained calls}; all sequences of 2 (thorough: 3) foreign calls over {library A, library B with the same "
            "symbols, missing library} x {echo, last, nothing, fail, missing symbol}; each assembled as a binary .mmm and executed with `mscript execute`. "
            "Non-trivial = vector length >= 1; distinct = distinct (vector, function).")
    assumptions = ["probe dylib built against /repo/bytecode in the same cargo target dir",
                   "values owning GC memory (lists, objects, functions) are outside the alphabet",
                   "dev profile, Linux dlopen"]
    chunksize = 32

    def vectors(self, maxlen):
        for n in range(0, maxlen + 1):
            if n <= 2:
                syms = [(k, i) for k in KINDS for i in (0, 1)]
            else:
                syms = [(k, 0) for k in KINDS]
            for vec in itertools.product(syms, repeat=n):
                yield vec

    def layers(self, tier):
        L = 4 if tier == "quick" else 6

        def gen(maxlen, lo=0):
            for vec in self.vectors(maxlen):
                if len(vec) < lo:
                    continue
                for f in FUNCS:
                    yield (vec, f)
        seq2 = [("seq", c) for c in itertools.product(range(len(SEQ_CALLS)), repeat=2)]
        ls = [("L0-len<=2", list(gen(2))), ("L0b-call-sequences-of-2", seq2), ("L1-len<=4", gen(4, 3))]
        if L > 4:
            ls.append(("L1b-call-sequences-of-3", [("seq", c) for c in itertools.product(range(len(SEQ_CALLS)), repeat=3)]))
        if L > 4:
            ls.append(("L2-len5", gen(5, 5)))
            ls.append(("L3-len6", gen(6, 6)))
        return ls

    def describe(self, case):
        if case[0] == "seq":
            return {"sequence": [f"{SEQ_CALLS[i][1]}@{SEQ_CALLS[i][0]}" for i in case[1]]}
        vec, f = case
        return {"args": [f"{k}:{VALS[k][i][1]}" for k, i in vec], "function": f}

    def run_seq(self, case):
        seq = [SEQ_CALLS[i] for i in case[1]]
        d = driver.fresh_dir()
        prog = assemble_seq(seq)
        driver.write_files(d, {"a.mmm": prog})
        res = driver.run(["execute", "a.mmm"], d, env={"MSCRIPT_VERIF_TYPED_PRINT": "1"})
        lines = res.lines()
        exp, failing, msg = expected_seq(seq)
        desc = self.describe(case)
        viol = []
        detail = {"case": desc, "files": {"a.mmm": prog}, "res": res.brief(), "expected": exp, "failing_step": failing}

        def bad(kind, what):
            viol.append({"sig": {"kind": kind, "func": "sequence", "shape": ",".join(f"{l}:{f}" for l, f in seq)},
                         "what": f"{desc['sequence']}: {what}", "detail": detail})
        if failing is None:
            if res.exit != 0 or lines != exp:
                bad("wrong-result", f"expected {exp} exit 0, got {lines} exit {res.exit}")
        else:
            if res.exit == 0 or res.cls != "error":
                bad("fault-not-error", f"step {failing} must stop the program with a run-time error; got {res.cls} ({res.exit}) and {lines}")
            else:
                if lines != exp:
                    bad("output-before-fault", f"expected {exp} before the failing call, got {lines}")
                if msg not in res.err:
                    bad("message-lost", f"error text does not carry {msg!r}")
        return {"outcome": "seq-ok" if failing is None else "seq-err", "viol": viol, "nontrivial": True, "tags": ["seq"]}

    def run_case(self, case):
        if case[0] == "seq":
            return self.run_seq(case)
        vec, func = case
        d = driver.fresh_dir()
        prog = assemble(vec, func, build.PROBE_LIB)
        driver.write_files(d, {"a.mmm": prog})
        res = driver.run(["execute", "a.mmm"], d, env={"MSCRIPT_VERIF_TYPED_PRINT": "1"})
        lines = res.lines()
        rend = "[" + ";".join(VALS[k][i][2] for k, i in vec) + "]"
        viol = []
        detail = {"case": self.describe(case), "files": {"a.mmm": prog}, "cmd": "mscript execute a.mmm",
                  "res": res.brief()}

        def bad(kind, what, **sig):
            s = {"kind": kind, "func": func}
            s.update(sig)
            viol.append({"sig": s, "what": what, "detail": detail})

        if func in ("echo", "last", "nothing", "echo2"):
            if func == "echo":
                exp0 = "Str:" + rend
            elif func == "echo2":
                exp0 = "Str:[str:" + rust_str_debug(rend) + ";int:5]"
            elif func == "last":
                if vec:
                    k, i = vec[-1]
                    exp0 = VALS[k][i][4] + ":" + VALS[k][i][3]
                else:
                    exp0 = "Int:-1"
            else:
                exp0 = ""
            exp = [exp0, "Str:SENTINEL"]
            if res.exit != 0 or lines != exp:
                bad("wrong-result", f"{func}{self.describe(case)['args']}: expected {exp} exit 0, got {lines} exit {res.exit}",
                    n=len(vec))
            outcome = f"{func}-ok" if not viol else f"{func}-bad"
        else:
            msg = {"fail": "probe-raised-error", "nolib": "Could not open FFI Library", "nosym": "Could not find symbol"}[func]
            if res.exit == 0 or res.cls != "error":
                bad("fault-not-error", f"{func}: expected run-time error exit 1, got {res.cls} ({res.exit})")
            if "SENTINEL" in res.out:
                bad("ran-on", f"{func}: an instruction after the failing call_lib ran (sentinel printed)")
            if msg not in res.err:
                bad("message-lost", f"{func}: error text does not carry {msg!r}")
            if "FATAL RUNTIME ERROR" not in res.err:
                bad("no-banner", f"{func}: no run-time error banner")
            outcome = f"{func}-err" if not viol else f"{func}-bad"
        return {"outcome": outcome, "viol": viol, "nontrivial": len(vec) >= 1,
                "tags": [f"len{len(vec)}", func]}

    def finish(self, stats, tier):
        errs = []
        for f in FUNCS + ["seq"]:
            if not stats["tags"].get(f):
                errs.append(f"vacuity: function {f} never exercised")
        return errs
