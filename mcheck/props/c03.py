"""C03 — ill-typed programs are rejected with a diagnostic before anything runs.
Fault enumeration: every (host context, fault of a fixed catalogue) pair; the first statement of the
program prints a marker that must never appear."""
import re

from ..core import driver
from ..core.explore import Check

SETUP = [
    "n: int = 1", 's: str = "a"', "b: bool = true", "l: [int...] = [1]", "m = map[str, int]", "o: int? = nil",
    "f = fn(x: int) -> int {", "\treturn x", "}",
    "ob = K(1)", "al: A = 2",
    "hof = fn(g: fn(str) -> int) -> int {", "\treturn g(\"a\")", "}",
    "const fx = [1, \"a\"]",
    "fl = 1.5", "by = 0b1", "bg = B1",
    "if b == b {", "}",      # the set-up ends with a block: a fault that starts with `[` or `(` must not be read as a postfix of the previous line
]
CLASS = ["class K {", "\tv: int", "\tconstructor(self, v: int) {", "\t\tself.v = v", "\t}", "\tfn mm(self, a: int) -> int {",
         "\t\treturn a + self.v", "\t}", "}", "type A int"]

# fault id -> list of lines (the edited statement)
FAULTS = {
    "init-int-str": ['w1: int = "x"'],
    "init-str-int": ["w2: str = 5"],
    "init-bool-int": ["w3: bool = 1"],
    "init-list-elem": ['w4: [int...] = ["a"]'],
    "init-alias-str": ['w5: A = "x"'],
    "init-int-nil": ["w6: int = nil"],
    "init-int-optional": ["w7: int = o"],
    "init-fn-type": ["w8: fn(int) -> str = f"],
    "init-class-int": ["w9: K = 5"],
    "init-fn-param-type": ["w11: fn(str) -> int = f"],
    "init-fn-param-count": ["w12: fn(int, int) -> int = f"],
    "init-fn-no-return": ["w13: fn(int) = f"],
    "init-fixed-list-longer": ["const w14: [int, str, int] = fx"],
    "init-fixed-list-shorter": ["const w15: [int] = fx"],
    "init-fixed-list-order": ["const w16: [str, int] = fx"],
    "init-list-of-optional": ["w17: [int...] = [1, nil]"],
    "init-map-value-type": ["w18: map[str, str] = m"],
    "init-map-key-type": ["w19: map[int, int] = m"],
    "arg-fn-param-type": ["r10 = hof(f)"],
    "ret-fn-param-type": ["bad6 = fn() -> fn(str) -> int {", "\treturn f", "}"],
    "reassign-fn-param-type": ["hof = f"],
    "init-map-list": ["w10: map[str, int] = l"],
    "reassign-int-str": ['n = "x"'],
    "reassign-str-int": ["s = 1"],
    "reassign-bool-int": ["b = 0"],
    "reassign-list-int": ["l = 5"],
    "reassign-alias-str": ['al = "x"'],
    "reassign-int-optional": ["n = o"],
    "reassign-field-str": ['ob.v = "x"'],
    "reassign-elem-str": ['l[0] = "x"'],
    "reassign-mapval-str": ['m["k"] = "x"'],
    "opassign-int-str": ['n -= "x"'],
    "arg-type": ['r1 = f("x")'],
    "arg-type-method": ['r2 = ob.mm("x")'],
    "arg-type-ctor": ['r3 = K("x")'],
    "arg-type-push": ['l.push("x")'],
    "arg-missing": ["r4 = f()"],
    "arg-extra": ["r5 = f(1, 2)"],
    "arg-missing-method": ["r6 = ob.mm()"],
    "arg-extra-ctor": ["r7 = K(1, 2)"],
    "arg-extra-method": ["r8 = ob.mm(1, 2)"],
    "arg-extra-two": ["r9 = f(1, 2, 3)"],
    "arg-extra-builtin": ["l.push(1, 2)"],
    "ret-wrong": ["bad1 = fn() -> int {", '\treturn "x"', "}"],
    "ret-missing-value": ["bad2 = fn() -> int {", "\tn2 = 1", "}"],
    "ret-missing-on-path": ["bad3 = fn(c: bool) -> int {", "\tif c {", "\t\treturn 1", "\t}", "}"],
    "ret-value-in-void": ["bad4 = fn() {", "\treturn 1", "}"],
    "ret-optional-as-plain": ["bad5 = fn() -> int {", "\treturn o", "}"],
    "cond-if-int": ["if n {", "}"],
    "cond-while-str": ["while s {", "}"],
    "cond-assert-int": ["assert n"],
    "cond-if-optional": ["if o {", "}"],
    "cond-elseif-int": ["if b {", "} else if n {", "}"],
    "cond-not-int": ["x1 = !n"],
    "cond-and-int": ["x2 = b && n"],
    "unknown-name": ["x3 = qq + 1"],
    "unknown-name-print": ["print qq"],
    "unknown-name-call": ["qq(1)"],
    "unknown-type": ["x4: Zork = 1"],
    "unknown-field": ["x5 = ob.nope"],
    "unknown-field-assign": ["ob.nope = 1"],
    "unknown-method": ["x6 = ob.nope()"],
    "unknown-method-str": ["x7 = s.nope()"],
    "unknown-method-list": ["x8 = l.nope()"],
    "unknown-method-int": ["x9 = n.nope()"],
    "call-int": ["x10 = n()"],
    "call-str": ["x11 = s(1)"],
    "call-list": ["x12 = l(0)"],
    "index-int": ["x13 = n[0]"],
    "index-bool": ["x14 = b[0]"],
    "index-fn": ["x15 = f[0]"],
    "index-with-str": ['x16 = l["a"]'],
    "index-with-bool": ["x17 = l[b]"],
    "mapkey-type": ["x18 = m[1]"],
    "op-str-minus-int": ['x19 = "a" - 1'],
    "op-bool-minus-int": ["x20 = true - 1"],
    "op-list-div-int": ["x21 = l / 2"],
    "op-fn-times-fn": ["x22 = f * f"],
    "op-neg-str": ["x23 = -s"],
    "op-ob-plus-int": ["x24 = ob + 1"],
    "op-int-lt-str": ['x25 = n < "a"'],
    "op-bool-and-str": ["x26 = b && s"],
    "op-map-plus-map": ["x27 = m + m"],
    "op-var-str-minus": ["x28 = s - n"],
    "get-non-optional-misuse": ["x29: str = get o"],
    "or-type-mismatch": ['x30: int = (o) or "x"'],
    "from-bound-str": ['from 0 to "a" {', "}"],
    "from-step-str": ['from 0 to 3 step "a" {', "}"],
    # a loop counter that RE-USES an existing variable takes the values start, start + step, ..: their kind has to be the variable's
    "from-counter-reuses-int-with-float-step": ["from 0 to 3 step 0.5, n {", "}"],
    "from-counter-reuses-int-with-bigint-step": ["from 0 to 3 step B1, n {", "}"],
    "from-counter-reuses-int-with-float-start": ["from 0.5 to 3, n {", "}"],
    "from-counter-reuses-str-variable": ["from 0 to 3, s {", "}"],
    "from-counter-reuses-bool-variable": ["from 0 to 3, b {", "}"],
    "unpack-non-list": ["[u1, u2] = n"],
    "unpack-too-many": ["const [u3, u4, u5] = fx"],
    "unpack-map": ["[u6] = m"],
    "unpack-fn": ["[u7] = f"],
    "init-byte-too-wide": ["w20: byte = 0b111111111"],
    "init-int-hex-too-wide": ["w21: int = 0xFFFFFFFFFFFFFFFFFFFFFFFFFFFFFFFFF"],
    "init-bigint-hex-too-wide": ["w22: bigint = B0xFFFFFFFFFFFFFFFFFFFFFFFFFFFFFFFFF"],
    "class-two-constructors": ["class C2 {", "\tconstructor(self) {}", "\tconstructor(self, a: int) {}", "}"],
    "class-member-untyped": ["class C3 {", "\tvv", "\tconstructor(self) {}", "}"],
    "class-member-unknown-type": ["class C4 {", "\tvv: Zork", "\tconstructor(self) {}", "}"],
    "class-method-wrong-return": ["class C5 {", "\tconstructor(self) {}", "\tfn m5(self) -> int {", '\t\treturn "x"', "\t}", "}"],
    "class-method-missing-return": ["class C7 {", "\tconstructor(self) {}", "\tfn m7(self) -> int {", "\t\tq7 = 1", "\t}", "}"],
    "class-method-missing-return-on-path": ["class C8 {", "\tconstructor(self) {}", "\tfn m8(self, c: bool) -> int {", "\t\tif c {", "\t\t\treturn 1", "\t\t}", "\t}", "}"],
    "class-method-return-in-loop-only": ["class C9 {", "\tconstructor(self) {}", "\tfn m9(self) -> int {", "\t\tfrom 0 to 1 {", "\t\t\treturn 1", "\t\t}", "\t}", "}"],
    "class-method-value-in-void": ["class C10 {", "\tconstructor(self) {}", "\tfn m10(self) {", "\t\treturn 1", "\t}", "}"],
    "class-ctor-returns-value": ["class C11 {", "\tconstructor(self) {", "\t\treturn 1", "\t}", "}"],
    "class-field-init-wrong-type": ["class C6 {", "\tvv: int", "\tconstructor(self) {", '\t\tself.vv = "x"', "\t}", "}"],
    "break-outside-loop": ["break"],
    "continue-outside-loop": ["continue"],
    # a return statement written where the host puts its faults: what it must supply is decided by the function that IMMEDIATELY encloses it
    "ret-value-here": ["return 5"],          # only in hosts whose function is void (or at module level)
    "ret-str-here": ['return "x"'],          # a value in a void function / the wrong type in an int function
    "ret-optional-here": ["return o"],       # a value in a void function / an optional as a plain int
    "ret-bare-here": ["return"],             # only in hosts whose function returns int
}

# unknown name, systematically: the name ranges over a fresh identifier and every identifier-shaped word of the grammar
# (a word that is neither declared nor usable as an expression must be rejected like any other unknown name), in every
# expression position
def grammar_words():
    import os
    from ..core import build as _b
    with open(os.path.join(_b.REPO, "compiler", "src", "grammar.pest")) as f:
        words = sorted(set(re.findall(r'"([A-Za-z_][A-Za-z_0-9]*)"', f.read())))
    # single letters (escape characters, literal prefixes) are ordinary identifiers; the hosts declare some of them
    return [w for w in words if len(w) > 1 and w not in ("nil", "true", "false", "self", "Self")]


NAME_POSITIONS = {
    "print": ["print {w}"], "operand": ["y1 = {w} + 1"], "right-operand": ["y2 = 1 + {w}"], "initialiser": ["y3 = {w}"],
    "call": ["y4 = {w}(1)"], "argument": ["y5 = f({w})"], "element": ["y6 = [{w}]"], "condition": ["if {w} {{", "}}"],
    "index": ["y7 = l[{w}]"], "receiver": ["y8 = {w}.len()"], "assert": ["assert {w}"], "last-in-block": ["if 1 == 1 {{", "\tprint {w}", "}}"],
}
for _w in ["qq"] + grammar_words():
    for _pos, _tpl in NAME_POSITIONS.items():
        FAULTS[f"unknown-name:{_w}:{_pos}"] = [t.format(w=_w) for t in _tpl]


# unknown name, the declaration's own name: the name being declared is not in scope inside its own initialiser, whatever the form of the declaration
# (untyped, typed, const) and wherever in the initialiser it occurs; nor is a name that is only declared further down
SELF_DECLS = {"untyped": "{n} = {e}", "typed": "{n}: {t} = {e}", "const": "const {n} = {e}", "const-typed": "const {n}: {t} = {e}"}
SELF_INITS = {"operand": ("int", "{n} + 1"), "right-operand": ("int", "1 + {n}"), "bare": ("int", "{n}"), "argument": ("int", "f({n})"), "index": ("int", "l[{n}]"),
              "negated": ("int", "-{n}"), "parenthesised": ("int", "({n}) * 2"), "element": ("[int...]", "[1, {n}.len()]"), "optional": ("int?", "{n}"),
              "str-concat": ("str", '{n} + "a"'), "bool-not": ("bool", "!{n}"), "or-fallback": ("int", "(o) or {n}"), "compare": ("bool", "{n} == 1"),
              "closure-body": ("fn() -> int", "fn() -> int {{\n\treturn {n}()\n}}"), "closure-read": ("fn() -> int", "fn() -> int {{\n\treturn 1 + l[{n}.len()]\n}}"),
              "method-receiver": ("int", "{n}.abs()"), "nested-list": ("[[int...]...]", "[[1], {n}[0]]")}
for _dk, _dt in SELF_DECLS.items():
    for _ik, (_ty, _ie) in SELF_INITS.items():
        FAULTS[f"self-reference:{_dk}:{_ik}"] = _dt.format(n="srn", t=_ty, e=_ie.format(n="srn")).split("\n")
# a name that is only a PARAMETER of another member of the same class (earlier / later method, constructor) is unknown in this method
for _k, _o in (("earlier-method", 'fn other(self, sibp: int) -> int {\n\t\treturn sibp\n\t}'), ("constructor", None), ("later-method", 'fn other(self, sibp: int) -> int {\n\t\treturn sibp\n\t}')):
    _user = 'fn user(self) -> int {\n\t\treturn sibp + 1\n\t}'
    _ctor = "constructor(self, sibp: int) {}" if _k == "constructor" else "constructor(self) {}"
    _members = [_ctor] + ([_o, _user] if _k == "earlier-method" else [_user, _o] if _k == "later-method" else [_user])
    FAULTS[f"unknown-name-parameter-of-sibling-{_k}"] = ("class Cs {\n" + "\n".join("\t" + m for m in _members) + "\n}").split("\n")
FAULTS["use-before-declaration"] = ["ub1 = later1 + 1", "later1 = 1"]
FAULTS["use-before-declaration-typed"] = ["ub2: int = later2", "later2: int = 1"]
FAULTS["use-before-declaration-in-closure"] = ["ub3 = fn() -> int {", "\treturn later3", "}", "later3 = 1"]
FAULTS["use-before-declaration-call"] = ["ub4 = later4()", "later4 = fn() -> int {", "\treturn 1", "}"]

# index with a non-index, systematically: every container kind x every expression kind that is not a valid index for it
# (literal, variable, non-constant expression) x read / store / op-assignment
IDX_EXPRS = {"float-var": "fl", "float-lit": "1.5", "float-expr": "fl + 0.5", "str-var": "s", "str-lit": '"a"', "bool-var": "b", "byte-var": "by",
             "optional-var": "o", "list-var": "l", "fn-var": "f", "object-var": "ob", "int-var": "n", "bigint-var": "bg"}
IDX_CONTAINERS = {"list": ("l", {"int-var", "bigint-var"}), "fixed-list": ("fx", {"int-var", "bigint-var"}), "str": ("s", {"int-var", "bigint-var"}),
                  "map": ("m", {"str-var", "str-lit"})}
for _cn, (_cv, _valid) in IDX_CONTAINERS.items():
    for _in, _ie in IDX_EXPRS.items():
        if _in in _valid or (_cn == "fixed-list" and _in in ("int-var", "bigint-var")):
            continue
        FAULTS[f"index:{_cn}:{_in}:read"] = [f"z1 = {_cv}[{_ie}]"]
        if _cn in ("list", "map"):
            FAULTS[f"index:{_cn}:{_in}:store"] = [f"{_cv}[{_ie}] = 1"]
            FAULTS[f"index:{_cn}:{_in}:opassign"] = [f"{_cv}[{_ie}] += 1"]

NEED_FN = {"break-outside-loop", "continue-outside-loop"}   # meaningless inside a loop host
HOSTS = ["module", "fn", "closure", "method", "ctor", "elseif", "while", "from", "imported", "nested-block", "module-crlf", "fn-commented",
         "fn-int", "block-in-fn-int", "void-closure-block-in-fn-int", "int-closure-block-in-void-fn", "loop-in-method-int", "void-closure-else-in-method-int",
         "void-closure-in-void-closure-in-fn-int",
         # the fault stands BEHIND a point where its block has already returned on every path (unreachable, but type-checked like everything else)
         "fn-int-after-return", "fn-int-after-all-returning-if", "method-int-after-all-returning-elif", "loop-in-fn-int-after-return", "else-in-fn-int-after-return"]
# what the function that immediately encloses the fault position returns
HOST_RET = {"module": "module", "fn": "void", "closure": "void", "method": "void", "ctor": "void", "elseif": "module", "while": "module", "from": "module",
            "imported": "module", "nested-block": "module", "module-crlf": "module", "fn-commented": "void", "fn-int": "int", "block-in-fn-int": "int",
            "void-closure-block-in-fn-int": "void", "int-closure-block-in-void-fn": "int", "loop-in-method-int": "int",
            "void-closure-else-in-method-int": "void", "void-closure-in-void-closure-in-fn-int": "void",
            "fn-int-after-return": "int", "fn-int-after-all-returning-if": "int", "method-int-after-all-returning-elif": "int", "loop-in-fn-int-after-return": "int",
            "else-in-fn-int-after-return": "int"}


def build(host, fault):
    """-> (files, (file with the fault, first line, last line)) ; None when inexpressible"""
    flines = FAULTS[fault]
    if fault in NEED_FN and host in ("while", "from", "loop-in-method-int", "void-closure-in-void-closure-in-fn-int", "loop-in-fn-int-after-return"):
        return None
    if fault == "ret-value-here" and HOST_RET[host] == "int":
        return None           # legal there
    if fault == "ret-bare-here" and (HOST_RET[host] != "int" or host == "fn-int"):
        return None           # legal there (in fn-int the next line would be read as the returned expression: statements are not separated by newlines)
    if ("-after-return" in host or "-after-all-returning-" in host) and flines[0].lstrip()[:1] in ("[", "(", "-"):
        return None           # newlines do not separate statements: behind `return 0` such a line would continue the returned expression
    main = ['print "MARK"']
    faultfile = "x.ms"

    def body(ind):
        p = "\t" * ind
        return [p + x for x in SETUP] + [p + x for x in flines]

    def locate(lines):
        first = next(i for i, l in enumerate(lines) if l.strip() == flines[0].strip()) + 1
        return first, first + len(flines) - 1
    if host == "module":
        lines = main + CLASS + body(0)
    elif host == "fn":
        lines = main + CLASS + ["host = fn() {"] + body(1) + ["}", "host()"]
    elif host == "closure":
        lines = main + CLASS + ["cap = 1", "outer = fn() {", "\tinner = fn() {", "\t\tq = cap"] + body(2) + ["\t}", "\tinner()", "}", "outer()"]
    elif host == "method":
        lines = main + CLASS + ["class Host {", "\tconstructor(self) {}", "\tfn run(self) {"] + body(2) + ["\t}", "}", "hh = Host()", "hh.run()"]
    elif host == "ctor":
        lines = main + CLASS + ["class Host {", "\tconstructor(self) {"] + body(2) + ["\t}", "}", "hh = Host()"]
    elif host == "elseif":
        lines = main + CLASS + ["sel = 2", "if sel == 1 {", '\tprint "one"', "} else if sel == 2 {"] + body(1) + ["} else {", '\tprint "other"', "}"]
    elif host == "while":
        lines = main + CLASS + ["wq = 0", "while wq < 1 {", "\twq = wq + 1"] + body(1) + ["}"]
    elif host == "from":
        lines = main + CLASS + ["from 0 to 1 {"] + body(1) + ["}"]
    elif host == "nested-block":
        lines = main + CLASS + ["if true {", "\tif true {"] + body(2) + ["\t}", "}"]
    elif host == "fn-int":
        lines = main + CLASS + ["host = fn() -> int {"] + body(1) + ["\treturn 0", "}", "hq = host()"]
    elif host == "block-in-fn-int":
        lines = main + CLASS + ["host = fn() -> int {", "\tif true {"] + body(2) + ["\t}", "\treturn 0", "}", "hq = host()"]
    elif host == "void-closure-block-in-fn-int":
        lines = main + CLASS + ["host = fn() -> int {", "\tinner = fn() {", "\t\tif true {"] + body(3) + ["\t\t}", "\t}", "\tinner()", "\treturn 0", "}", "hq = host()"]
    elif host == "int-closure-block-in-void-fn":
        lines = main + CLASS + ["host = fn() {", "\tinner = fn() -> int {", "\t\tif true {"] + body(3) + ["\t\t}", "\t\treturn 0", "\t}", "\tiq = inner()", "}", "host()"]
    elif host == "loop-in-method-int":
        lines = main + CLASS + ["class Host {", "\tconstructor(self) {}", "\tfn run(self) -> int {", "\t\tfrom 0 to 1 {"] + body(3) + ["\t\t}", "\t\treturn 0", "\t}", "}",
                                "hh = Host()", "hq = hh.run()"]
    elif host == "void-closure-else-in-method-int":
        lines = main + CLASS + ["class Host {", "\tconstructor(self) {}", "\tfn run(self) -> int {", "\t\tinner = fn() {", "\t\t\tif 1 == 2 {", "\t\t\t\tskip = 1", "\t\t\t} else {"] \
            + body(4) + ["\t\t\t}", "\t\t}", "\t\tinner()", "\t\treturn 0", "\t}", "}", "hh = Host()", "hq = hh.run()"]
    elif host == "void-closure-in-void-closure-in-fn-int":
        lines = main + CLASS + ["host = fn() -> int {", "\tmid = fn() {", "\t\tinner = fn() {", "\t\t\twq = 0", "\t\t\twhile wq < 1 {", "\t\t\t\twq = wq + 1"] \
            + body(4) + ["\t\t\t}", "\t\t}", "\t\tinner()", "\t}", "\tmid()", "\treturn 0", "}", "hq = host()"]
    elif host.endswith("-after-return") or "-after-all-returning-" in host:
        def split(ind):
            p = "\t" * ind
            return [p + x for x in SETUP], [p + x for x in flines]
        if host == "fn-int-after-return":
            su, fl = split(1)
            lines = main + CLASS + ["host = fn() -> int {"] + su + ["\treturn 0"] + fl + ["}", "hq = host()"]
        elif host == "fn-int-after-all-returning-if":
            su, fl = split(1)
            lines = main + CLASS + ["host = fn() -> int {"] + su + ["\tif n == 1 {", "\t\treturn 1", "\t} else {", "\t\treturn 2", "\t}"] + fl + ["}", "hq = host()"]
        elif host == "method-int-after-all-returning-elif":
            su, fl = split(2)
            lines = main + CLASS + ["class Host {", "\tconstructor(self) {}", "\tfn run(self) -> int {"] + su + \
                ["\t\tif n == 1 {", "\t\t\treturn 1", "\t\t} else if n == 2 {", "\t\t\treturn 2", "\t\t} else {", "\t\t\treturn 3", "\t\t}"] + fl + ["\t}", "}", "hh = Host()", "hq = hh.run()"]
        elif host == "loop-in-fn-int-after-return":
            su, fl = split(2)
            lines = main + CLASS + ["host = fn() -> int {", "\tfrom 0 to 1 {"] + su + ["\t\treturn 5"] + fl + ["\t}", "\treturn 0", "}", "hq = host()"]
        else:
            su, fl = split(2)
            lines = main + CLASS + ["host = fn() -> int {", "\tif 1 == 2 {", "\t\treturn 1", "\t} else {"] + su + ["\t\treturn 5"] + fl + ["\t}", "\treturn 0", "}", "hq = host()"]
    elif host == "module-crlf":
        # the same module with CR LF line ends: positions must not drift
        lines = main + CLASS + body(0)
        a, bnd = locate(lines)
        return {"x.ms": "\r\n".join(lines) + "\r\n"}, (faultfile, a, bnd)
    elif host == "fn-commented":
        # line comments between and behind the statements, a block comment in front: positions must not drift
        raw = main + CLASS + ["host = fn() {"] + body(1) + ["}", "host()"]
        lines = ["### header", "comment ###"]
        for k, l in enumerate(raw):
            if k % 3 == 0:
                lines.append("# note " + str(k))
            lines.append(l if l.strip() in ("}", "") or l.rstrip().endswith("{") else l + " # t")
        def bare(l):
            return l[:-4].strip() if l.endswith(" # t") else l.strip()
        first = max(i for i, l in enumerate(lines) if bare(l) == flines[0].strip()) + 1
        last = max(i for i, l in enumerate(lines) if bare(l) == flines[-1].strip() and i + 1 >= first) + 1
        return {"x.ms": "\n".join(lines) + "\n"}, (faultfile, first, min(last, first + 2 * len(flines)))
    elif host == "imported":
        mod = CLASS + body(0) + ["export done: int = 1"]
        files = {"x.ms": "\n".join(main + ["import mod", "print mod.done"]) + "\n", "mod.ms": "\n".join(mod) + "\n"}
        a, bnd = locate(mod)
        return files, ("mod.ms", a, bnd)
    else:
        raise ValueError(host)
    a, bnd = locate(lines)
    return {"x.ms": "\n".join(lines) + "\n"}, (faultfile, a, bnd)


def control(host):
    """the same host without any fault: must compile and print the marker"""
    saved = FAULTS.get("__control__")
    FAULTS["__control__"] = ["ctl = 1"]
    try:
        return build(host, "__control__")
    finally:
        del FAULTS["__control__"]


class C03(Check):
    id = "C03"
    level = "fault_enumeration"
    rule = ("every (host context in {module level, function body, closure body, class method, constructor, else-if arm, while body, from body, "
            "doubly nested block, imported module, module with CR LF line ends, function body interleaved with comments, body / block / loop of an int-returning function or method, block of a void closure nested (once, twice, in an else arm) in an int-returning function or method, block of an int closure in a void function}) x (fault of a catalogue of 89 type-breaking edits plus the unknown-name family = {fresh identifier, every "
            "identifier-shaped word of grammar.pest} x 12 expression positions (print, operand, right operand, initialiser, callee, argument, list "
            "element, condition, index, receiver, assert, last statement of a block) and the non-index family = 4 container kinds (open list, fixed list, str, map) x "
            "13 index expressions of a wrong kind (literal, variable, non-constant expression) x read / store / op-assignment: wrong-typed annotated initialiser, "
            "re-assignment with another type (variable, field, list element, map value, op-assignment), wrong argument type / count (function, "
            "method, constructor, built-in), wrong / missing return value, non-boolean condition (if, else-if, while, assert, !, &&), unknown "
            "name / type / field / method, call of a non-callable, index of a non-indexable, non-index index, wrong map key type, operators on "
            "unsupported kinds, optional misuse, from-loop bound / step of the wrong type, break / continue outside a loop; a `return` of a value / of the wrong type / without a value written at the host's fault position and judged by the function immediately enclosing it).  The first statement "
            "of every program prints a marker; every host is also run without a fault (positive control).")
    assumptions = ["the diagnostic must name the file that contains the edited statement and a line inside that statement"]
    chunksize = 16

    def layers(self, tier):
        ctl = [("ctl", h) for h in HOSTS]
        cases = [("f", h, ft) for ft in FAULTS for h in HOSTS]
        return [("L0-positive-controls", ctl), ("L1-faults-x-hosts", cases)]

    def describe(self, case):
        return {"host": case[1], "fault": case[2] if len(case) > 2 else "control"}

    def run_case(self, case):
        if case[0] == "ctl":
            files, _ = control(case[1])
            d = driver.fresh_dir()
            driver.write_files(d, files)
            res = driver.run(["run", "x.ms", "-q"], d)
            if res.exit != 0 or "MARK" not in res.out:
                return {"outcome": "control-broken", "machinery": f"host {case[1]} does not compile / run without a fault: {res.out[-400:]} {res.err[-200:]}"}
            return {"outcome": "control-ok", "nontrivial": True, "tags": ["control-ok"]}
        _, host, fault = case
        b = build(host, fault)
        if b is None:
            return {"outcome": "inexpressible", "nontrivial": False}
        files, (ffile, l1, l2) = b
        d = driver.fresh_dir()
        driver.write_files(d, files)
        res = driver.run(["run", "x.ms", "-q"], d)
        viol = []
        detail = {"files": files, "res": res.brief(), "fault_at": f"{ffile}:{l1}-{l2}"}

        def bad(kind, what):
            viol.append({"sig": {"kind": kind, "fault": fault, "host": host}, "what": f"{fault} in {host}: {what}", "detail": detail})
        text = res.out + res.err
        if res.cls in ("panic", "abort", "timeout"):
            bad("no-diagnostic-crash", f"compiler / tool ended with {res.cls}: {driver.panic_message(res) or res.err[-200:]}")
        elif res.exit == 0:
            bad("accepted", f"the ill-typed program was accepted and ran to completion; stdout {res.out[-200:]!r}")
        elif not driver.compile_rejected(res):
            bad("accepted-then-failed", f"no compile-time diagnostic; the program was executed and failed at run time: {res.err[-300:]}")
        else:
            if "MARK" in [l.strip() for l in res.out.split("\n")]:
                bad("executed", "the marker was printed although compilation failed")
            locs = re.findall(r"([^\s:()\[\]'\"]+\.ms):(\d+):(\d+)", text)
            if not locs:
                bad("no-position", f"diagnostic names no file:line:col: {text[-300:]}")
            else:
                # a grammar word in an expression position is a syntax error; the parser reports it at the token where it
                # gave up, which may be the first token of the following line
                slack = 1 if fault.startswith("unknown-name:") and not fault.startswith("unknown-name:qq:") else 0
                if slack and host == "fn-commented":
                    slack = 3          # comment lines may lie between the statement and the next token
                ok = any(os_base(f) == ffile and l1 <= int(ln) <= l2 + slack for f, ln, _ in locs)
                if not ok:
                    bad("wrong-position", f"edited statement is at {ffile}:{l1}-{l2}; diagnostics point at {[(os_base(f), int(ln)) for f, ln, _ in locs][:4]}")
        tags = [f"host-{host}", "fault"]
        if not viol and not fault.startswith("unknown-name:") and re.search(r"^\s+= (expected |this is a reserved keyword)", text, re.M):
            # rejected, but as a syntax error: the edit was meant to be well-formed and ill-typed, so the template is wrong
            tags.append("syntax-instead-of-type:" + fault)
        return {"outcome": "rejected" if not viol else "VIOL", "viol": viol, "nontrivial": True, "tags": tags}

    def finish(self, stats, tier):
        errs = []
        if stats["tags"].get("control-ok", 0) != len(HOSTS):
            errs.append("vacuity: not every host passed its positive control")
        wrong = sorted(k.split(":", 1)[1] for k in stats["tags"] if k.startswith("syntax-instead-of-type:"))
        if wrong:
            errs.append(f"vacuity: type-breaking edits rejected as syntax errors (template problem): {wrong[:8]}")
        return errs


def os_base(p):
    return p.replace("\\", "/").split("/")[-1]
