"""C14 — string and number built-in methods compute their documented function.
E-matrix: every method x receivers / arguments from boundary sets; reference implementation per method."""
import math

from ..core import driver
from ..core.explore import Check
from ..lang import numeric as N
from ..lang.refint import q

STRS = ["", "a", "ab", "aXbXa", "héllo", "  ", "12", "-12", "+5", "0x10", "0x1f", "0b101", "1f", "true", "false", "2147483648",
        "3.5", " 5", "z", "255", "256", "FF", "-", "1e3", "170141183460469231731687303715884105727",
        "0x", "0xg", "0x-10", "0X10", "0x7fffffff", "0x80000000", "-0x10", "0x0x1"]
PATS = ["", "a", "X", "é", "ab", "zz", "l"]


class Undefined(Exception):
    """outside the method's domain: the program must stop with a failure"""


def blen(s):
    return len(s.encode("utf-8"))


def bslice(s, a, b):
    """byte-offset slice; raises Undefined unless 0 <= a <= b <= len and both offsets are character boundaries"""
    raw = s.encode("utf-8")
    if not (0 <= a <= b <= len(raw)):
        raise Undefined()
    try:
        return raw[:a].decode("utf-8"), raw[a:b].decode("utf-8"), raw[b:].decode("utf-8")
    except UnicodeDecodeError:
        raise Undefined()


def rust_int(s, lo, hi, radix=10):
    """Rust {integer}::from_str_radix: optional sign, at least one digit of the radix, no whitespace / underscore"""
    if not (2 <= radix <= 36):
        raise Undefined()
    t = s
    neg = False
    if t[:1] in "+-" and t[:1]:
        if t[0] == "-":
            neg = True
        t = t[1:]
    if not t:
        return None
    digs = "0123456789abcdefghijklmnopqrstuvwxyz"[:radix]
    v = 0
    for ch in t:
        c = ch.lower()
        if c not in digs or not ch.isascii():
            return None
        v = v * radix + digs.index(c)
    if neg:
        if lo >= 0:
            return None if v != 0 or True else 0      # unsigned types reject a minus sign
        v = -v
    if not (lo <= v <= hi):
        return None
    return v


def rust_float(s):
    t = s
    if not t or t != t.strip() or "_" in t:
        return None
    low = t.lower().lstrip("+-")
    if low in ("inf", "infinity", "nan"):
        return float(t)
    if any(c not in "0123456789+-.eE" for c in t):
        return None
    try:
        return float(t)
    except ValueError:
        return None


def opt(kind, v):
    return ("opt", kind, v)


def str_cases():
    """-> iterator of (descriptor, source expression on receiver variable r, expected) ;
    expected = ("val", kind, value) | ("opt", kind, value|None) | ("list", [str]) | Undefined"""
    for s in STRS:
        n = blen(s)
        nch = len(s)
        yield s, "len", (), "r.len()", ("val", "int", n)
        for i in sorted({-1, 0, 1, nch - 1, nch, nch + 1}):
            exp = ("val", "str", s[i]) if 0 <= i < nch else Undefined
            yield s, "index", (i,), f"r[ix]", exp
            if i == nch:
                # an index of kind bigint is an index like any other; one that does not fit the machine's size type is out of range whatever its low bits are
                for k in (0, nch - 1, nch, 2 ** 32, 2 ** 64, 2 ** 64 + 1, -2 ** 64, -2 ** 64 + 1):
                    e = f"B{k}" if k >= 0 else f"(B0 - B{-k})"
                    yield s, "index-bigint", (k,), f"r[{e} + B0 * bz]", (("val", "str", s[k]) if 0 <= k < nch else Undefined)
            if i >= 0:
                # the same access with a literal index (the compiler checks it against what it believes the length to be), the receiver
                # having reached its value in different ways
                for car in ("plain", "block", "opassign", "const", "longer-first"):
                    yield s, "index-lit@" + car, (i,), f"r[{i}]", exp
        offs = sorted({-1, 0, 1, 2, n - 1, n, n + 1})
        for a in offs:
            for b in offs:
                try:
                    pre, mid, post = bslice(s, a, b)
                    e1, e2 = ("val", "str", mid), ("val", "str", pre + post)
                except Undefined:
                    e1 = e2 = Undefined
                yield s, "substring", (a, b), f"r.substring(ia, ib)", e1
                yield s, "delete", (a, b), f"r.delete(ia, ib)", e2
        for a in offs:
            try:
                pre, _, post = bslice(s, a, a)
                e = ("val", "str", pre + "<>" + post)
            except Undefined:
                e = Undefined
            yield s, "insert", ("<>", a), f"r.insert(\"<>\", ia)", e
            if a < 0 or a >= n:
                e = ("list", [s, ""])
            else:
                try:
                    pre, _, post = bslice(s, a, a)
                    e = ("list", [pre, post])
                except Undefined:
                    e = Undefined
            yield s, "split", (a,), "r.split(ia)", e
        for p in PATS:
            yield s, "contains", (p,), f"r.contains({q(p)})", ("val", "bool", p in s)
            idx = s.find(p)
            yield s, "index_of", (p,), f"r.index_of({q(p)})", opt("int", None if idx < 0 else blen(s[:idx]))
            for rep in ("", "Q"):
                yield s, "replace", (p, rep), f"r.replace({q(p)}, {q(rep)})", ("val", "str", s.replace(p, rep))
        yield s, "reverse", (), "r.reverse()", ("val", "str", s[::-1])
        yield s, "chars", (), "r.chars()", ("list", list(s))
        for k in (0, 1, 3):
            yield s, "repeat", (k,), f"r * {k}", ("val", "str", s * k)
            yield s, "repeat-left", (k,), f"{k} * r", ("val", "str", s * k)
            yield s, "repeat-bigint", (k,), f"r * B{k}", ("val", "str", s * k)
            yield s, "repeat-bigint-left", (k,), f"B{k} * r", ("val", "str", s * k)
        # a count that is negative or does not fit the machine's size type is outside the domain, whatever its low bits are
        for k in (-1, -3, -2 ** 31):
            yield s, "repeat", (k,), f"r * (0 - {-k})", Undefined
        for k in (-1, 2 ** 64, 2 ** 64 + 2, 2 ** 65 + 1, 2 ** 127 - 1, -2 ** 64 + 3, -2 ** 127 + 1, -2 ** 127):
            e = f"B{k}" if k >= 0 else (f"(B0 - B{-k})" if k > -2 ** 127 else f"(B0 - B{2 ** 127 - 1} - B1)")
            yield s, "repeat-bigint", (k,), f"r * {e}", Undefined
            yield s, "repeat-bigint-left", (k,), f"{e} * r", Undefined
        yield s, "concat", ("s",), "r + r", ("val", "str", s + s)
        yield s, "concat", ("int",), "r + 7", ("val", "str", s + "7")
        yield s, "concat", ("rint",), "7 + r", ("val", "str", "7" + s)
        # parsing: parse_int / parse_bigint read decimal digits, or hexadecimal digits after a 0x prefix (the prefix is part of the
        # number syntax of the language itself); never the digits after 0x as decimal
        hx = s.startswith("0x")
        yield s, "parse_int", (), "r.parse_int()", opt("int", rust_int(s[2:] if hx else s, N.I32_MIN, N.I32_MAX, 16 if hx else 10))
        yield s, "parse_bigint", (), "r.parse_bigint()", opt("bigint", rust_int(s[2:] if hx else s, N.I128_MIN, N.I128_MAX, 16 if hx else 10))
        for radix in (1, 2, 10, 16, 36, 37):
            t = s[2:] if (radix == 16 and s.startswith("0x")) else s
            if s.startswith("0x") and radix != 16:
                continue
            for meth, kind, lo, hi in (("parse_int_radix", "int", N.I32_MIN, N.I32_MAX), ("parse_bigint_radix", "bigint", N.I128_MIN, N.I128_MAX)):
                try:
                    e = opt(kind, rust_int(t, lo, hi, radix))
                except Undefined:
                    e = Undefined
                yield s, meth, (radix,), f"r.{meth}({radix})", e
        yield s, "parse_bool", (), "r.parse_bool()", opt("bool", True if s == "true" else False if s == "false" else None)
        yield s, "parse_float", (), "r.parse_float()", opt("float", rust_float(s))
        if s.startswith("0b"):
            pb = rust_int(s[2:], 0, 255, 2) if not s[2:3] in ("+", "-") else None
        else:
            pb = rust_int(s, 0, 255, 10) if not s.startswith("-") else None
        yield s, "parse_byte", (), "r.parse_byte()", opt("byte", pb)


NUMS = {
    "int": [0, 1, -1, 2, 3, -8, 90, 255, 256, 65536, N.I32_MAX, N.I32_MIN],
    "bigint": [0, 1, -1, 3, 255, 256, 2 ** 31, -2 ** 31 - 1, 2 ** 32, 2 ** 40, 2 ** 63, 2 ** 64 + 1, N.I128_MAX, N.I128_MIN],
    "byte": [0, 1, 2, 65, 90, 127, 128, 200, 255],
    "float": [0.0, -0.0, 0.5, -0.5, 1.5, 2.5, -2.5, 3.49999, 255.9, 256.0, -0.9, 2147483647.5, 2147483648.0, -2147483648.9, 1e19, 1e30,
              -1e30, 1e300, 1e-300, 2.0 ** 53, 4.0, 81.0,
              # the doubles AT and next to every conversion boundary (the bounds of int / byte / bigint as doubles; i128::MAX itself is
              # not a double: 2^127 is the first value out of range, 2^127 - 2^74 the last one in range)
              2147483647.0, -2147483648.0, -2147483649.0, 255.0, -1.0, 2.0 ** 63, 2.0 ** 64, 2.0 ** 127, 2.0 ** 127 - 2.0 ** 74,
              -(2.0 ** 127), -(2.0 ** 127) - 2.0 ** 75, 2.0 ** 128],
}
EXPS = [-1, 0, 1, 2, 31, 40, 127]
FEXPS = [0.5, 2.0, -1.0, 0.0]


def _z(r, v):
    """a zero result carries the sign of the argument"""
    return math.copysign(0.0, v) if r == 0 else r


def ftrunc_int(x):
    if x != x or x in (math.inf, -math.inf):
        raise Undefined()
    return int(x)


def num_cases():
    for kind, vals in NUMS.items():
        for v in vals:
            # conversions: in-domain iff the mathematically exact (truncated) result is representable in the target kind
            for meth, tk in (("to_int", "int"), ("to_bigint", "bigint"), ("to_byte", "byte")):
                try:
                    iv = ftrunc_int(v) if kind == "float" else v
                    lo, hi = N.RANGE[tk]
                    e = ("val", tk, iv) if lo <= iv <= hi else Undefined
                except Undefined:
                    e = Undefined
                yield kind, v, meth, (), f"r.{meth}()", e
            yield kind, v, "to_float", (), "r.to_float()", ("val", "float", float(v))
            if kind == "float":
                e = ("val", "float", abs(v))
            elif kind == "byte":
                e = ("val", "byte", v)
            else:
                lo, hi = N.RANGE[kind]
                e = ("val", kind, abs(v)) if abs(v) <= hi else Undefined
            yield kind, v, "abs", (), "r.abs()", e
            yield kind, v, "to_str", (), "r.to_str()", ("val", "str", N.fmt(kind, v))
            for p in EXPS:
                if kind == "float":
                    try:
                        r = float(v) ** p
                    except ZeroDivisionError:
                        r = math.inf if (p % 2 == 0 or math.copysign(1, v) > 0) else -math.inf
                    except OverflowError:
                        r = math.inf if (v > 0 or p % 2 == 0) else -math.inf
                    e = ("val", "float", r)
                else:
                    if p < 0:
                        e = Undefined
                    else:
                        r = v ** p
                        e = ("val", "bigint", r) if N.I128_MIN <= r <= N.I128_MAX else Undefined
                yield kind, v, "pow", (p,), f"r.pow(ie)", e
            for fp in FEXPS:
                try:
                    r = math.pow(float(v), fp)
                except ValueError:
                    if float(v) == 0.0 and fp < 0:
                        odd = fp == int(fp) and int(fp) % 2 == 1
                        r = math.copysign(math.inf, float(v)) if odd else math.inf
                    else:
                        r = math.nan
                except OverflowError:
                    r = math.inf
                except ZeroDivisionError:
                    r = math.inf
                yield kind, v, "powf", (fp,), f"r.powf(fe)", ("val", "float", r)
            try:
                r = math.sqrt(float(v))
            except ValueError:
                r = math.nan
            yield kind, v, "sqrt", (), "r.sqrt()", ("val", "float", r)
            if kind == "float":
                big = abs(v) >= 2.0 ** 52 or v != v
                yield kind, v, "floor", (), "r.floor()", ("val", "float", v if big else _z(float(math.floor(v)), v))
                yield kind, v, "ceil", (), "r.ceil()", ("val", "float", v if big else _z(float(math.ceil(v)), v))
                yield kind, v, "round", (), "r.round()", ("val", "float", v if big else math.copysign(float(math.floor(abs(v) + 0.5)), v))
                yield kind, v, "ipart", (), "r.ipart()", ("val", "float", v if big else math.copysign(float(int(v)), v))
                yield kind, v, "fpart", (), "r.fpart()", ("val", "float", 0.0 if big else v - math.copysign(float(int(v)), v))
            if kind == "byte":
                yield kind, v, "to_ascii", (), "r.to_ascii()", (("val", "str", chr(v)) if v < 128 else Undefined)
    # the non-finite doubles (results of earlier operations; no literal denotes them): no integer kind represents them
    for v in (math.inf, -math.inf, math.nan):
        for meth in ("to_int", "to_bigint", "to_byte"):
            yield "float", v, meth, (), f"r.{meth}()", Undefined
        yield "float", v, "to_float", (), "r.to_float()", ("val", "float", v)
        yield "float", v, "abs", (), "r.abs()", ("val", "float", abs(v))


def typed_expected(e):
    tag = e[0]
    if tag == "val":
        _, kind, v = e
        return N.H2[kind] + ":" + (N.fmt(kind, v) if kind != "str" else v)
    if tag == "opt":
        _, kind, v = e
        if v is None:
            return "Nil:nil"
        return f"Optional({N.H2[kind]}):" + N.fmt(kind, v)
    if tag == "list":
        return "Vector:[" + ", ".join('"' + x + '"' for x in e[1]) + "]"
    raise ValueError(e)


def same(got, e, approx=False):
    want = typed_expected(e)
    if got == want:
        return True
    kind = e[1] if e[0] in ("val", "opt") else None
    if kind == "float" and e[2] is not None:
        pre = "Float:" if e[0] == "val" else "Optional(Float):"
        if got.startswith(pre):
            t = got[len(pre):]
            try:
                y = float(t.replace("NaN", "nan"))
            except ValueError:
                return False
            x = e[2]
            if x != x:
                return y != y
            if approx and x not in (math.inf, -math.inf) and y not in (math.inf, -math.inf):
                # pow / powf are not correctly-rounded operations: a few ulps of difference are not a wrong value
                return abs(y - x) <= 1e-13 * max(abs(x), 1e-300)
            return y == x and math.copysign(1, y) == math.copysign(1, x)
    return False


class C14(Check):
    id = "C14"
    level = "exploration"
    rule = ("every string method (len, character index, substring, contains, index_of, reverse, insert, replace, delete, split, chars, "
            "parse_int / _radix, parse_bigint / _radix, parse_float, parse_bool, parse_byte, * repetition, + concatenation; the character index also with a literal index "
            "on receivers that reached their value plainly / in a nested block / through += / as a const / after a longer string) x 33 receivers "
            "(empty, length 1, ASCII and multi-byte text, blanks, digit / sign / 0x / 0b / hex / exponent forms, extreme decimal strings) x "
            "offsets {-1, 0, 1, 2, len-1, len, len+1}, 7 patterns, radices {1, 2, 10, 16, 36, 37}; every number method (to_int, to_bigint, "
            "to_byte, to_float, abs, pow, powf, sqrt, floor, ceil, round, ipart, fpart, to_str, to_ascii) x boundary values of each kind x "
            "exponents {-1, 0, 1, 2, 31, 40, 127}.  Every cell is executed; the reference implementation is written per method.  "
            "Pairs: neighbouring cells of the tables are also evaluated one after the other in ONE program (each in its own function); the second must print and end as it does alone.")
    assumptions = ["string offsets of len / substring / index_of / insert / delete / split are UTF-8 byte offsets, s[i] is by character "
                   "(the repository's tests say so); an offset that is not a character boundary or is out of range is outside the domain",
                   "conversions are in-domain iff the exact (truncated) value is representable in the target kind; IEEE results (inf, NaN) "
                   "are the defined value of float operations", "parse_int / parse_bigint read decimal digits, or hexadecimal digits after a 0x prefix",
                   "to_ascii is defined for bytes 0..127", "kind observed through hook H2"]
    chunksize = 64

    def layers(self, tier):
        sc = [("s",) + c[:3] + (c[3],) for c in str_cases()]
        nc = [("n",) + c[:4] + (c[4],) for c in num_cases()]
        n0 = [(c[0], c[1], c[2], c[3], c[4]) for c in nc]
        s0 = [(c[0], c[1], c[2], c[3]) for c in sc]
        pairs = [("pair", a, b) for cs in (n0, s0) for a, b in zip(cs, cs[1:])] + [("pair", b, a) for cs in (n0, s0) for a, b in list(zip(cs, cs[1:]))[::3]]
        return [("L0-number-methods", n0), ("L1-string-methods", s0), ("Lp-pairs-of-neighbouring-cells-in-one-program", pairs if tier == "thorough" else pairs[::2]),
                ("L2-number-methods-inside-a-function", [c + ("@fn",) for c in n0]),
                ("L3-string-methods-inside-a-function", [c + ("@fn",) for c in s0])]

    def describe(self, case):
        if case[0] == "pair":
            return {"first": self.describe(case[1]), "then": self.describe(case[2])}
        if case[0] == "s":
            return {"receiver": case[1], "method": case[2], "args": list(case[3])}
        return {"kind": case[1], "receiver": repr(case[2]), "method": case[3], "args": list(case[4])}

    def lookup(self, case):
        if case[0] == "s":
            for s, m, a, expr, e in str_cases():
                if (s, m, a) == (case[1], case[2], case[3]):
                    return expr, e
        else:
            for k, v, m, a, expr, e in num_cases():
                if (k, m, a) == (case[1], case[3], case[4]) and repr(v) == repr(case[2]):
                    return expr, e
        raise KeyError(case)

    _cache = None

    def table(self):
        if C14._cache is None:
            t = {}
            for s, m, a, expr, e in str_cases():
                t[("s", s, m, a)] = (expr, e)
            for k, v, m, a, expr, e in num_cases():
                t[("n", k, repr(v), m, a)] = (expr, e)
            C14._cache = t
        return C14._cache

    def run_pair(self, case):
        """two cells one after the other in ONE program (each in a function of its own): what the second prints and how it ends must be what it
        prints and how it ends on its own - a built-in keeps nothing from one call to the next"""
        _, c1, c2 = case
        l1, l2 = self.cell_lines(c1)[0], self.cell_lines(c2)[0]

        def fn(name, ls):
            return [f"{name} = fn() {{"] + ["\t" + l for l in ls] + ["}", f"{name}()"]
        env = {"MSCRIPT_VERIF_TYPED_PRINT": "1"}
        r1 = driver.run_ms("\n".join(fn("cell", l1)) + "\n", env=env)
        if r1.exit != 0:
            return {"outcome": "pair-first-fails", "nontrivial": False, "tags": ["pair-skip"]}
        r2 = driver.run_ms("\n".join(fn("cell", l2)) + "\n", env=env)
        if driver.compile_rejected(r2):
            return {"outcome": "pair-second-rejected", "nontrivial": False, "tags": ["pair-skip"]}
        src = "\n".join(fn("cell", l1) + fn("cellb", l2)) + "\n"
        rp = driver.run_ms(src, env=env)
        viol = []
        want = r1.lines() + r2.lines()
        if rp.lines() != want or (rp.exit == 0) != (r2.exit == 0):
            d1, d2 = self.describe(c1), self.describe(c2)
            viol.append({"sig": {"kind": "context-dependent", "method": d2["method"], "rkind": d2.get("kind", "str"), "after": d1["method"]},
                         "what": f"{d2} evaluated after {d1} in one program: alone it prints {r2.lines()} (exit {r2.exit}), after the other cell {rp.lines()[len(r1.lines()):]} (exit {rp.exit})",
                         "detail": {"files": {"x.ms": src}, "res": rp.brief(), "alone": r2.brief()}})
        return {"outcome": "pair-ok" + ("-DIFF" if viol else ""), "viol": viol, "nontrivial": True, "tags": ["pair"]}

    def run_case(self, case):
        if case[0] == "pair":
            return self.run_pair(case)
        infn = case[-1] == "@fn"
        if infn:
            case = case[:-1]
        lines, expr, e = self.cell_lines(case)
        return self.judge(case, infn, lines, expr, e)

    def cell_lines(self, case):
        key = case if case[0] == "s" else ("n", case[1], repr(case[2]), case[3], case[4])
        expr, e = self.table()[key]
        lines = []
        if case[0] == "s":
            car = case[2].split("@")[1] if "@" in case[2] else "plain"
            if car == "plain":
                lines.append(f"r = {q(case[1])}")
            elif car == "const":
                lines.append(f"const r = {q(case[1])}")
            elif car == "block":
                lines += ['r = "q"', "if true {", f"\tr = {q(case[1])}", "}"]
            elif car == "opassign":
                lines += ['r = ""', f"r += {q(case[1])}"]
            elif car == "longer-first":
                lines += ['r = "a much longer string than any receiver"', "if true {", f"\tr = {q(case[1])}", "}"]
            args = case[3]
            if case[2] == "index":
                lines += N.construct("int", args[0], "ix", "zx")
            if case[2] == "index-bigint":
                lines.append("bz = B1")
            if case[2] in ("substring", "delete"):
                lines += N.construct("int", args[0], "ia", "za") + N.construct("int", args[1], "ib", "zb")
            if case[2] == "insert":
                lines += N.construct("int", args[1], "ia", "za")
            if case[2] == "split":
                lines += N.construct("int", args[0], "ia", "za")
        else:
            lines += N.construct(case[1], case[2], "r", "zr")
            if case[3] == "pow":
                lines += N.construct("int", case[4][0], "ie", "ze")
            if case[3] == "powf":
                lines += N.construct("float", case[4][0], "fe", "zf")
        lines.append('print "ready"')
        lines.append(f"print {expr}")
        return lines, expr, e

    def judge(self, case, infn, lines, expr, e):
        if infn:
            # the same cell with receiver, arguments and call inside one function body (locals instead of module variables)
            lines = ["cell = fn() {"] + ["\t" + l for l in lines] + ["}", "cell()"]
        src = "\n".join(lines) + "\n"
        res = driver.run_ms(src, env={"MSCRIPT_VERIF_TYPED_PRINT": "1"})
        out = res.lines()
        desc = self.describe(case)
        viol = []
        detail = {"files": {"x.ms": src}, "res": res.brief(), "expected": "failure" if e is Undefined else typed_expected(e)}

        def bad(kind, what):
            sig = {"kind": kind, "method": desc["method"], "rkind": desc.get("kind", "str")}
            viol.append({"sig": sig, "what": f"{desc}: {what}", "detail": detail})

        if driver.compile_rejected(res):
            if desc["method"].startswith("index-lit@"):
                # a literal index lets the compiler judge the access itself: refusing an out-of-domain access is a failure in time,
                # refusing an in-domain one is wrong
                if e is Undefined:
                    return {"outcome": "undefined-rejected-statically", "nontrivial": True, "tags": [f"m-{desc['method']}"]}
                bad("in-domain-rejected", f"expected {typed_expected(e)}; the compiler rejects the access: {res.out[-200:]!r}")
                return {"outcome": "rejected-DIFF", "viol": viol, "nontrivial": True, "tags": [f"m-{desc['method']}"]}
            return {"outcome": "rejected", "nontrivial": False, "tags": ["rejected", f"rej-{desc['method']}"], "show": res.out[-300:]}
        if out[:1] != ["Str:ready"]:
            bad("setup-failed", f"receiver / argument construction failed: {res.err[-200:]}")
            return {"outcome": "setup-failed", "viol": viol, "nontrivial": False}
        got = out[1:]
        if e is Undefined:
            if res.exit == 0:
                bad("out-of-domain-value", f"outside the method's domain: must stop with a failure, produced {got}")
            outcome = "undefined-" + res.cls
        else:
            if res.exit != 0:
                bad("in-domain-failure", f"expected {typed_expected(e)}; execution failed ({res.cls}: {driver.classify_failure(res)})")
            elif len(got) != 1 or not same(got[0], e, approx=desc["method"] in ("pow", "powf")):
                k = "wrong-kind" if got and got[0].split(":")[0] != typed_expected(e).split(":")[0] else "wrong-value"
                bad(k, f"expected {typed_expected(e)} got {got}")
            outcome = "value"
        return {"outcome": outcome, "viol": viol, "nontrivial": True, "tags": [f"m-{desc['method']}"]}

    def finish(self, stats, tier):
        errs = []
        rej = {k: v for k, v in stats["tags"].items() if k.startswith("rej-")}
        if rej:
            errs.append(f"vacuity: cells rejected by the compiler: {rej}")
        return errs
