"""C09 — compiled code is structurally well-formed on every control-flow path.
E-cfg: the instruction lists the real compiler emitted (hook H3) are explored as an abstract machine
over all branch outcomes; invariants on every state; real traces (hook H1) validated against it."""
import os

from ..core import driver
from ..core.explore import Check
from ..lang import bcmodel, cfgen, corpus, refint
from . import c01
from .c18 import opcode_table

CALL_OPS = {"call", "call_object", "call_self", "call_lib", "module_entry"}
_NAMES = None


def op_names():
    global _NAMES
    if _NAMES is None:
        _NAMES = {code: name for name, code in opcode_table().items()}
        # the table spells them in their constant form
        alias = {"if_stmt": "if_stmt", "else_stmt": "else_stmt"}
        _NAMES = {c: alias.get(n, n) for c, n in _NAMES.items()}
    return _NAMES


def load_dump(path):
    """-> {qualified function name: [(name, args)]}"""
    fns = {}
    if not os.path.exists(path):
        return fns
    names = op_names()
    with open(path, encoding="utf-8", errors="replace") as f:
        for line in f:
            parts = line.rstrip("\n").split("\t")
            if len(parts) != 5:
                continue
            file, fn, idx, op, args = parts
            try:
                a = [bytes.fromhex(x).decode("utf-8", "replace") for x in args.split(",")] if args else []
                fns.setdefault(f"{file}#{fn}", []).append((names.get(int(op), f"op{op}"), a))
            except ValueError:
                if line.endswith("\n"):
                    raise             # only a line cut short by the death of the process may be malformed
    return fns


def load_trace(path):
    recs = []
    if not os.path.exists(path):
        return recs
    names = op_names()
    with open(path, encoding="utf-8", errors="replace") as f:
        for line in f:
            p = line.rstrip("\n").split("\t")
            if len(p) != 5:
                continue
            try:
                recs.append((p[0], int(p[1]), names.get(int(p[2]), p[2]), int(p[3]), int(p[4])))
            except ValueError:
                if line.endswith("\n"):
                    raise
    return recs


class C09(Check):
    id = "C09"
    level = "model_checking"
    rule = ("for every function of every program of the corpus (all C01 skeleton layers of the tier, the repository's examples and the programs of its test suite, "
            "generated programs of the other checks) the emitted instruction list (hook H3) is explored as the abstract machine "
            "(ip, open block frames, set of possible operand depths), both outcomes of every conditional instruction; invariants: "
            "jump targets inside the function, done/jmp_pop never pop more block frames than are open, the frame stack at an "
            "instruction is the same on every path, some operand shape satisfies every instruction, exits leave no block frame open. "
            "Each program is also executed and its per-instruction trace (hook H1) must be a path of the model.")
    assumptions = ["opcode semantics table transcribed from bytecode/src/instruction.rs (validated by the traces on the unchanged tree)",
                   "a call yields 0 or 1 operand (result arity is not tracked)"]
    chunksize = 16
    quick_cap_s = 300
    thorough_cap_s = 40 * 60

    def layers(self, tier):
        ex = [("ex", top, rel) for top, rel in corpus.example_files()]
        from ..lang import gencorpus
        gen = [("gen", nm) for nm in gencorpus.names(tier)]
        ex = ex + [("test", t[0]) for t in corpus.test_projects()]
        def cf(it):
            return (("cf",) + c for c in it)
        if tier == "quick":
            # the quick tier keeps to its budget: spines to nesting depth 4 and the pairs layer; the deviation layers and
            # depth-5 spines are explored by the thorough tier (and, for semantics, by C01's quick tier)
            return [("L0-depth<=2-default", cf(c01.L0(2))), ("examples", ex), ("generated-corpus", gen),
                    ("L0b-depth<=2-module+recursion", cf(c01.L0b())), ("L0c-depth<=1-void-functions", cf(c01.L0c(1))), ("L3q-pairs-of-compounds", cf(c01.L3q())), ("L3r-two-loops-at-different-block-depths", cf(c01.L3r())),
                    ("L1q-loop-shapes-single-deviation", cf(c01.L1_loops())),
                    ("L2-spines<=4", cf(c01.L2(4)))]
        ls = []
        for name, it in c01.C01().layers(tier):
            ls.append((name, cf(it)))
        ls.insert(1, ("examples", ex))
        ls.insert(2, ("generated-corpus", gen))
        return ls

    def describe(self, case):
        return {"kind": case[0], "what": repr(case[1:])[:300]}

    def run_case(self, case):
        d = driver.fresh_dir()
        files = {}
        if case[0] == "cf":
            src = refint.program(cfgen.function_program(case[2], case[1]), minparen=case[1].endswith("~min"))
            files = {"x.ms": src}
            driver.write_files(d, files)
            cwd, entry = d, "x.ms"
            feats = ",".join(sorted(c01.features(case[2])))
        elif case[0] == "ex":
            cwd, entry = corpus.stage(d, case[1], case[2])
            feats = case[2]
        elif case[0] == "test":
            _, files, entry, _exp = next(t for t in corpus.test_projects() if t[0] == case[1])
            driver.write_files(d, files)
            cwd = d
            feats = case[1]
        else:
            from ..lang import gencorpus
            files = gencorpus.get(case[1])
            entry = "main.ms" if "main.ms" in files else next(iter(files))
            driver.write_files(d, files)
            cwd = d
            feats = case[1].split(":")[0]
        tr = os.path.join(d, "trace.txt")
        du = os.path.join(d, "dump.txt")
        res = driver.run(["run", entry, "-q"], cwd, env={"MSCRIPT_VERIF_TRACE": tr, "MSCRIPT_VERIF_DUMP": du},
                         timeout=(4 if os.environ.get('VERIF_TIER_') == 'quick' else 20) if case[0] == "ex" else 10)
        fns = load_dump(du)
        if not fns:
            return {"outcome": "not-compiled", "nontrivial": False, "tags": ["not-compiled"]}
        viol = []
        models = {}
        states = transitions = 0
        detail = {"files": files, "res": res.brief(), "case": repr(case)[:500]}
        for qn, instrs in fns.items():
            m = bcmodel.FnModel(qn, instrs)
            try:
                m.explore()
            except KeyError as e:
                return {"outcome": "unknown-opcode", "machinery": f"opcode without abstract semantics: {e}"}
            models[qn] = m
            states += m.states
            transitions += m.transitions
            for kind, ip, msg in m.violations[:3]:
                listing = "\n".join(f"{i:3d} {n} {' '.join(a)}" for i, (n, a) in enumerate(instrs))[:6000]
                dd = dict(detail)
                dd["function"] = qn
                dd["listing"] = listing
                viol.append({"sig": {"kind": kind, "feats": feats, "op": instrs[ip][0] if ip < len(instrs) else "end"},
                             "what": f"{qn.split('#')[-1]}: {msg}", "detail": dd})
        nrec = 0
        if not res.timeout:
            recs = load_trace(tr)
            nrec, problems = bcmodel.validate_trace(models, recs, CALL_OPS)
            for pmsg in problems[:2]:
                viol.append({"sig": {"kind": "trace-outside-model", "feats": feats},
                             "what": f"executed trace is not a path of the model: {pmsg}", "detail": detail})
            if "INTERPRETER STACK MISMATCH" in res.err or "STACK MISMATCH" in res.out:
                viol.append({"sig": {"kind": "exit-stack-mismatch", "feats": feats},
                             "what": "program ended normally but the call stack was not empty", "detail": detail})
        tags = [case[0]]
        if case[0] == "cf":
            tags += [f"depth{cfgen.shape_depth(case[2])}"] + sorted(c01.features(case[2]))
        return {"outcome": f"{case[0]}-{res.cls}" + ("-VIOL" if viol else ""), "viol": viol, "nontrivial": True, "tags": tags,
                "counters": {"states": states, "transitions": transitions, "functions": len(models),
                             "traced_instructions": nrec, "traces": 1 if nrec else 0}}

    def finish(self, stats, tier):
        errs = []
        for t in ["break", "continue", "return", "elif", "while", "from", "ex"]:
            if not stats["tags"].get(t):
                errs.append(f"vacuity: construct {t} never explored")
        c = stats["counters"]
        if not c.get("traced_instructions"):
            errs.append("vacuity: no executed trace was validated against the model (hook H1 inactive?)")
        stats["extra_coverage"] = {"states": c.get("states", 0), "transitions": c.get("transitions", 0),
                                   "traces_validated_against_impl": c.get("traces", 0),
                                   "functions_explored": c.get("functions", 0),
                                   "traced_instructions_validated": c.get("traced_instructions", 0)}
        return errs
