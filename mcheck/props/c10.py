"""C10 — `const` names (and class names, imported modules and their exported members) cannot be
written by any syntactic form.  Fault enumeration over (declaration context, write form, write
context, constant type); each triple is paired with a positive control (same write, non-const)."""
import itertools

from ..core import driver
from ..core.explore import Check

# constant types: (type text, initializer, second value of that type, printable?)
TYPES = {
    "int": ("int", "5", "7", True),
    "bool": ("bool", "true", "false", True),
    "str": ("str", '"init"', '"other"', True),
    "float": ("float", "1.5", "2.5", True),
    "list": ("[int...]", "[1, 2]", "[9]", True),
    "optint": ("int?", "5", "7", True),
    # constants that can be assigned THROUGH: an object with a number field and a list field, a list of lists
    "obj": ("Bx", "Bx()", "Bx()", True),
    "nested": ("[[int...]...]", "[[1, 2], [3]]", "[[9]]", True),
    # constants of OPTIONAL type that are assigned through after unwrapping them (`get`, `or`)
    "optobj": ("Bx?", "Bx()", "Bx()", True),
    "optlist": ("[int...]?", "[1, 2]", "[9]", True),
}
PRELUDE = {"optobj": "class Bx {\n v: int\n items: [int...]\n constructor(self) {\n  self.v = 1\n  self.items = [1, 2]\n }\n}\nalt = Bx()\naltl: [int...] = [3]", "optlist": "altl: [int...] = [3]", "obj": "class Bx {\n v: int\n items: [int...]\n constructor(self) {\n  self.v = 1\n  self.items = [1, 2]\n }\n}"}
OBSERVE = {"obj": "cst.v.to_str() + cst.items.to_str()", "nested": "cst", "optobj": "(get cst).v.to_str() + (get cst).items.to_str()", "optlist": "get cst"}
INIT_PRINT = {"int": "5", "bool": "true", "str": "init", "float": "1.5", "list": "[1, 2]", "optint": "5", "obj": "1[1, 2]", "nested": "[[1, 2], [3]]", "optobj": "1[1, 2]", "optlist": "[1, 2]"}

WRITES = ["assign", "typed", "+=", "-=", "*=", "/=", "%=", "?=stmt", "?=if", "?=while", "modify", "modify-typed",
          "index", "index+=", "loopcounter", "unpack",
          # assignment THROUGH the name: field and nested paths, with and without a parenthesised inner step
          "field", "field+=", "field-list", "(field)[i]", "(field)[i]+=", "field.m()[i]+=", "index2", "index2+=", "(index)[i]", "(index)[i]+=", "elem",
          # ... and through the unwrapped value of an optional constant
          "(get).field+=", "(or).field+=", "((get).field)[i]+=", "(get)[i]+=", "(or)[i]+=",
          # a type alias declared with the constant's name, then an assignment to the name
          "alias-then-assign",
          # unpacking onto SEVERAL existing names at once (a second constant cst2 stands next to the first)
          "unpack-two-consts", "unpack-two-consts-swapped", "unpack-fresh-and-two-consts", "unpack-const-and-variable"]
CONTEXTS = ["same", "block", "block2", "while", "from", "fn", "fn-in-fn", "method", "else", "method-sibling-param", "method-ctor-param", "method-later-sibling-param",
            # the nested function first makes a LOCAL with the constant's name, then writes from a nested block (a `modify` there still means the captured constant)
            "fn-local-then-block"]
DECLS = ["module", "function", "block"]


PATH_FORMS = {"field": ("obj", "N.v = 9"), "field+=": ("obj", "N.v += 9"), "field-list": ("obj", "N.items = [7]"),
              "(field)[i]": ("obj", "(N.items)[0] = 9"), "(field)[i]+=": ("obj", "(N.items)[0] += 9"),
              "field.m()[i]+=": ("obj", "(N.items.clone())[0] += 9"),
              "index2": ("nested", "N[0][1] = 9"), "index2+=": ("nested", "N[0][1] += 9"),
              "(index)[i]": ("nested", "(N[0])[1] = 9"), "(index)[i]+=": ("nested", "(N[0])[1] += 9"), "elem": ("nested", "N[0] = [7]"),
              "(get).field+=": ("optobj", "(get N).v += 9"), "(or).field+=": ("optobj", "((N) or alt).v += 9"), "((get).field)[i]+=": ("optobj", "((get N).items)[0] += 9"),
              "(get)[i]+=": ("optlist", "(get N)[0] += 9"), "(or)[i]+=": ("optlist", "((N) or altl)[0] += 9")}


def write_stmt(w, name, ty):
    tt, init, other, _ = TYPES[ty]
    if w == "assign":
        return f"{name} = {other}"
    if w == "typed":
        return f"{name}: {tt} = {other}"
    if w in ("+=", "-=", "*=", "/=", "%="):
        if ty in ("int", "float"):
            return f"{name} {w} {other}"
        if ty == "str" and w == "+=":
            return f"{name} += {other}"
        return None
    if w == "?=stmt":
        if ty == "list":
            return None
        return f"{name} ?= give()"
    if w == "?=if":
        if ty == "list":
            return None
        return f"if {name} ?= give() {{\n}}"
    if w == "?=while":
        if ty == "list":
            return None
        return f"cnt = 0\nwhile cnt < 1 && ({name} ?= give()) {{\n cnt = cnt + 1\n}}"
    if w == "modify":
        return f"modify {name} = {other}"
    if w == "modify-typed":
        return f"modify {name}: {tt} = {other}"
    if w == "index":
        return f"{name}[0] = 9" if ty == "list" else None
    if w == "index+=":
        return f"{name}[0] += 9" if ty == "list" else None
    if w in PATH_FORMS:
        need, text = PATH_FORMS[w]
        return text.replace("N", name) if ty == need else None
    if w == "alias-then-assign":
        return f"type {name} {tt}\n{name} = {other}" if ty in ("int", "str", "obj", "list") else None
    if ty in ("obj", "nested", "optobj", "optlist") and w not in ("assign", "typed", "modify", "modify-typed", "unpack") and not w.startswith("unpack-"):
        return None
    if w == "loopcounter":
        return f"from 0 to 3, {name} {{\n}}" if ty == "int" else None
    if w == "unpack":
        return f"[{name}, unp2] = [{other}, {other}]"
    if w == "unpack-two-consts":
        return f"[{name}, {name}2] = [{other}, {other}]"
    if w == "unpack-two-consts-swapped":
        return f"[{name}2, {name}] = [{other}, {other}]"
    if w == "unpack-fresh-and-two-consts":
        return f"[unp1, {name}, {name}2] = [{other}, {other}, {other}]"
    if w == "unpack-const-and-variable":
        return f"[{name}, pv9] = [{other}, {other}]"
    raise ValueError(w)


def give_fn(ty):
    tt, init, other, _ = TYPES[ty]
    base = tt.rstrip("?")
    return f"give = fn() -> {base}? {{\n return {other}\n}}"


def wrap(ctx, stmt, tt="int"):
    ind = "\n".join(" " + l for l in stmt.split("\n"))
    if ctx.startswith("method-") and ctx.endswith("-param"):
        # the write sits in a method of a class one of whose OTHER members has a parameter with the name of the constant
        body = "\n".join("  " + l for l in stmt.split("\n"))
        other = f" fn other(self, cst: {tt}) {{\n }}\n"
        ctor = f" constructor(self, cst: {tt}) {{}}\n" if ctx == "method-ctor-param" else " constructor(self) {}\n"
        m = " fn m(self) {\n" + body + "\n }\n"
        mk = "kk = K(cst)" if ctx == "method-ctor-param" else "kk = K()"
        if ctx == "method-sibling-param":
            return "class K {\n" + ctor + other + m + "}\n" + mk + "\nkk.m()"
        if ctx == "method-later-sibling-param":
            return "class K {\n" + ctor + m + other + "}\n" + mk + "\nkk.m()"
        return "class K {\n" + ctor + m + "}\n" + mk + "\nkk.m()"
    if ctx == "same":
        return stmt
    if ctx == "block":
        return "if true {\n" + ind + "\n}"
    if ctx == "else":
        return "if false {\n} else {\n" + ind + "\n}"
    if ctx == "block2":
        return "if true {\n if true {\n" + ind + "\n }\n}"
    if ctx == "while":
        return "wc = 0\nwhile wc < 1 {\n wc = wc + 1\n" + ind + "\n}"
    if ctx == "from":
        return "from 0 to 1 {\n" + ind + "\n}"
    if ctx == "fn":
        return "inner = fn() {\n" + ind + "\n}\ninner()"
    if ctx == "fn-local-then-block":
        return "inner = fn() {\n cst = SHADOW\n if true {\n" + "\n".join("  " + l for l in stmt.split("\n")) + "\n }\n}\ninner()"
    if ctx == "fn-in-fn":
        return "outer2 = fn() {\n inner2 = fn() {\n" + "\n".join("  " + l for l in stmt.split("\n")) + "\n }\n inner2()\n}\nouter2()"
    if ctx == "method":
        return "class K {\n constructor(self) {}\n fn m(self) {\n" + "\n".join("  " + l for l in stmt.split("\n")) + "\n }\n}\nkk = K()\nkk.m()"
    raise ValueError(ctx)


# what happened to the NAME before the const declaration, in the same scope: nothing; it was an ordinary variable (untyped / typed declaration);
# it is a parameter of the host function; it was a loop counter; it was declared in an earlier sibling block.  Whether the compiler accepts
# the const re-declaration at all is its business - if it does, the name is const from there on
PRES = ["var-before", "typed-var-before", "param", "counter-before", "sibling-block-before", "const-before-in-sibling-block"]


def program(decl, w, ctx, ty, const, pre="none"):
    tt, init, other, _ = TYPES[ty]
    stmt = write_stmt(w, "cst", ty)
    if stmt is None:
        return None
    if w.startswith("modify") and ctx not in ("fn", "fn-in-fn", "method", "fn-local-then-block") and not ctx.startswith("method-"):
        return None   # `modify` outside a function is a different (always rejected) misuse
    kw = "const " if const else ""
    declline = f"{kw}cst: {tt} = {init}"
    before = []
    if pre == "var-before":
        if ty in ("list", "nested", "optint"):
            return None
        before = [f"cst = {other}"]
    elif pre == "typed-var-before":
        before = [f"cst: {tt} = {other}"]
    elif pre == "param":
        if decl != "function":
            return None
    elif pre == "counter-before":
        if ty != "int":
            return None
        before = ["from 0 to 2, cst {\n}"]
    elif pre == "sibling-block-before":
        before = [f"if true {{\n cst: {tt} = {other}\n}}"]
    elif pre == "const-before-in-sibling-block":
        before = [f"if true {{\n const cst: {tt} = {other}\n}}"]
    if w.startswith("unpack-"):
        # the companions of the unpacking forms: a second constant and an ordinary variable, declared next to the first
        declline += f"\n{kw}cst2: {tt} = {init}\npv9: {tt} = {init}"
    body = [give_fn(ty)] + before + [declline, wrap(ctx, stmt, tt).replace("SHADOW", other), "print " + OBSERVE.get(ty, "cst")]
    text = "\n".join(body)
    pre_ = PRELUDE[ty] + "\n" if ty in PRELUDE else ""
    if decl == "module":
        return pre_ + text + "\n"
    ind = "\n".join(" " + l for l in text.split("\n"))
    if decl == "function" and pre == "param":
        return pre_ + f"host = fn(cst: {tt}) {{\n" + ind + f"\n}}\nhost({other})\n"
    pre = pre_
    if decl == "function":
        return pre + "host = fn() {\n" + ind + "\n}\nhost()\n"
    if decl == "block":
        return pre + "if true {\n" + ind + "\n}\n"
    raise ValueError(decl)


# special declaration kinds: class name, module name, exported member ---------------------------------
SPECIAL = []
for _w, _stmt in [("assign", "Klass = 5"), ("typed", "Klass: int = 5"), ("+=", "Klass += 1"),
                  ("loopcounter", "from 0 to 3, Klass {\n}"), ("unpack", "[Klass, u2] = [1, 2]"),
                  ("?=stmt", "Klass ?= give()")]:
    for _ctx in ["same", "block", "fn", "while", "own-ctor", "own-method", "own-method-closure"]:
        SPECIAL.append(("class", _w, _ctx, _stmt))
# `modify` of a class / module name: with a value of the same type (so that only const-ness can stop it) and with another type
for _w, _stmt in [("modify-same-type", "modify Klass = Klass"), ("modify", "modify Klass = 5")]:
    for _ctx in ["fn", "fn-in-fn", "method", "own-ctor", "own-method", "own-method-closure"]:
        SPECIAL.append(("class", _w, _ctx, _stmt))
for _w, _stmt in [("modify-same-type", "modify mod = mod"), ("modify", "modify mod = 5")]:
    for _ctx in ["fn", "fn-in-fn", "method"]:
        SPECIAL.append(("import", _w, _ctx, _stmt))
for _w, _stmt in [("assign", "mod = 5"), ("typed", "mod: int = 5"), ("+=", "mod += 1"),
                  ("loopcounter", "from 0 to 3, mod {\n}"), ("unpack", "[mod, u2] = [1, 2]"),
                  ("?=stmt", "mod ?= give()")]:
    for _ctx in ["same", "block", "fn", "while"]:
        SPECIAL.append(("import", _w, _ctx, _stmt))
for _member in ["cmem", "vmem", "lmem", "fmem"]:
    for _w, _stmt in [("assign", "mod.%s = 7"), ("+=", "mod.%s += 1"), ("index", "mod.%s[0] = 9"), ("?=stmt", "mod.%s ?= give()")]:
        if (_member == "lmem") != (_w == "index"):
            continue
        if _member == "fmem" and _w != "assign":
            continue
        for _ctx in ["same", "block", "fn", "method"]:
            SPECIAL.append(("member-" + _member, _w, _ctx, _stmt % _member))

# the module bound to a second name (`ma = mod`), members written through that name
for _member in ["cmem", "vmem", "lmem"]:
    for _w, _stmt in [("assign", "ma.%s = 7"), ("+=", "ma.%s += 1"), ("index", "ma.%s[0] = 9"), ("index+=", "ma.%s[0] += 9"), ("?=stmt", "ma.%s ?= give()")]:
        if (_member == "lmem") != (_w.startswith("index")):
            continue
        for _ctx in ["same", "block", "fn", "method"]:
            SPECIAL.append(("aliasmember-" + _member, _w, _ctx, _stmt % _member))

# a constant bound TWICE by the unpacking declaration that introduces it: which initializer would it hold?
for _w, _stmt in [("const-unpack-twice", "const [dd, dd] = [5, 7]\nprint dd"), ("const-unpack-twice-of-three", "const [dd, ee, dd] = [5, 6, 7]\nprint dd"),
                  ("unpack-twice", "[dd, dd] = [5, 7]\nprint dd")]:
    for _ctx in ["same", "block", "fn"]:
        SPECIAL.append(("dupunpack", _w, _ctx, _stmt))

# members brought in by name (`import cmem, vmem, lmem, fmem from mod`) and written through the bare name
for _member in ["cmem", "vmem", "lmem", "fmem"]:
    for _w, _stmt in [("assign", "%s = 7"), ("typed", "%s: int = 7"), ("+=", "%s += 1"), ("index", "%s[0] = 9"), ("index+=", "%s[0] += 9"),
                      ("?=stmt", "%s ?= give()"), ("loopcounter", "from 0 to 3, %s {\n}"), ("unpack", "[%s, u2] = [1, 2]"),
                      ("modify", "modify %s = 7")]:
        if (_member == "lmem") != (_w.startswith("index")):
            continue
        if _member == "fmem" and _w not in ("assign", "modify"):
            continue
        for _ctx in (["fn", "fn-in-fn", "method"] if _w == "modify" else ["same", "block", "fn", "while"]):
            SPECIAL.append(("named-" + _member, _w, _ctx, _stmt % _member))

MOD_SRC = ('export const cmem: int = 5\nexport vmem: int = 5\nexport const lmem: [int...] = [1, 2]\n'
           'export const fmem: fn() -> int = fn() -> int {\n return 5\n}\n'
           'export peek: fn() -> int = fn() -> int {\n return cmem + vmem + lmem[0]\n}\n')


def special_program(kind, stmt, ctx):
    give = "give = fn() -> int? {\n return 7\n}"
    if kind == "class":
        if ctx.startswith("own-"):
            # the write sits inside the class's own constructor / method / a closure created in its method
            ind = "\n".join("  " + l for l in stmt.split("\n"))
            in_ctor = ind if ctx == "own-ctor" else ""
            in_m = ind if ctx == "own-method" else ("  cl = fn() {\n" + "\n".join("   " + l for l in stmt.split("\n")) + "\n  }\n  cl()" if ctx == "own-method-closure" else "")
            cls = "class Klass {\n v: int\n constructor(self) {\n  self.v = 5\n" + in_ctor + "\n }\n fn m(self) {\n" + in_m + "\n }\n}"
            return {"x.ms": "\n".join([give, cls, "ob1 = Klass()", "ob1.m()", "ob2 = Klass()", "print ob2.v"]) + "\n"}, ["5"]
        return {"x.ms": "\n".join(["class Klass {\n v: int\n constructor(self) {\n  self.v = 5\n }\n}", give,
                                   wrap(ctx, stmt), "ob1 = Klass()", "print ob1.v"]) + "\n"}, ["5"]
    if kind == "import":
        return {"x.ms": "\n".join(["import mod", give, wrap(ctx, stmt), "print mod.peek()"]) + "\n", "mod.ms": MOD_SRC}, ["11"]
    if kind.startswith("member-"):
        val = stmt.replace("fmem = 7", "fmem = fn() -> int {\n return 7\n}")
        return {"x.ms": "\n".join(["import mod", give, wrap(ctx, val), "print mod.peek()", "print mod.fmem()"]) + "\n",
                "mod.ms": MOD_SRC}, ["11", "5"]
    if kind == "dupunpack":
        # (an unpacking statement must not follow a line it could be read as an index of: it is the first statement of its block)
        if stmt == "ctl9 = 1":
            body = "const [dd, ee] = [5, 7]\nprint dd"
        else:
            body = stmt
        return {"x.ms": wrap("block" if ctx == "same" else ctx, "if true {\n" + "\n".join(" " + l for l in body.split("\n")) + "\n}") .replace("if true {\n if true {", "if true {\n if true {") + "\nprint 5\n"}, ["5"]
    if kind.startswith("aliasmember-"):
        return {"x.ms": "\n".join(["import mod", "ma = mod", give, wrap(ctx, stmt), "print mod.peek()"]) + "\n", "mod.ms": MOD_SRC}, ["11"]
    if kind.startswith("named-"):
        val = stmt.replace("fmem = 7", "fmem = fn() -> int {\n return 7\n}")
        # the importer's view of the four members after the write, then the module's own view
        return {"x.ms": "\n".join(["import cmem, vmem, lmem, fmem, peek from mod", give, wrap(ctx, val),
                                   "print cmem + vmem + lmem[0] + fmem()", "print peek()"]) + "\n", "mod.ms": MOD_SRC}, ["16", "11"]
    raise ValueError(kind)


class C10(Check):
    id = "C10"
    level = "fault_enumeration"
    rule = ("all expressible (declaration context in {module, function, block, class name, imported module, exported member}, "
            "write form in 16 assignment forms, write context in {same scope, block, nested block, else, while, from, nested function, "
            "function in function, method, a method whose sibling method / constructor has a parameter with the constant's name; for class names also the class's own constructor / method / a closure in its method, and `modify` with a value of the "
            "same type}, constant type) triples; the same with the const declared OVER AN EARLIER BINDING of the name in the same scope (ordinary variable, typed variable, parameter, loop counter, a variable / const of an earlier sibling block); each const case is paired with a positive control (same write on a "
            "non-const name must compile and run).  Non-trivial = the triple is syntactically expressible and its control is accepted.")
    assumptions = ["a plain (non-`modify`) assignment inside a nested function declares a local by the language's rules: there the "
                   "program may be accepted, but the constant must still hold its initializer afterwards"]
    chunksize = 16

    def layers(self, tier):
        tys = ["int", "str", "list", "obj", "nested", "optobj", "optlist"] if tier == "quick" else list(TYPES)
        gen = [("g", d, w, c, t) for d, w, c, t in itertools.product(DECLS, WRITES, CONTEXTS, tys)]
        sp = [("s", i) for i in range(len(SPECIAL))]
        hist = [("g", d, w, c, t, pr) for pr in PRES for d in DECLS for w in ("assign", "typed", "+=", "?=stmt", "modify", "index", "index+=", "field", "field+=", "loopcounter", "unpack")
                for c in ("same", "block", "fn", "while") for t in tys]
        return [("L0-special-declarations", sp), ("L1h-const-declared-over-an-earlier-binding-of-the-name", hist), ("L1-const-triples", gen)]

    def describe(self, case):
        if case[0] == "s":
            k, w, c, stmt = SPECIAL[case[1]]
            return {"decl": k, "write": w, "context": c, "stmt": stmt}
        return dict({"decl": case[1], "write": case[2], "context": case[3], "type": case[4]}, **({"before": case[5]} if len(case) > 5 else {}))

    def run_case(self, case):
        viol = []
        desc = self.describe(case)

        def bad(kind, what, detail):
            sig = {"kind": kind}
            sig.update({k: v for k, v in desc.items() if k != "stmt"})
            viol.append({"sig": sig, "what": f"{desc}: {what}", "detail": detail})

        if case[0] == "s":
            kind, w, ctx, stmt = SPECIAL[case[1]]
            files, expect = special_program(kind, stmt, ctx)
            # positive control: the same program with a harmless statement instead of the write must compile and print the expected lines
            cfiles, _ = special_program(kind, "ctl9 = 1", ctx)
            for _attempt in range(3):       # (a control that fails once on a busy machine - a time-out, the gc crate's debug assertion - is run again before it counts)
                dc = driver.fresh_dir()
                driver.write_files(dc, cfiles)
                rc = driver.run(["run", "x.ms", "-q"], dc)
                if rc.exit == 0 and rc.lines()[-len(expect):] == expect:
                    break
            if rc.exit != 0 or rc.lines()[-len(expect):] != expect:
                return {"outcome": "control-broken", "machinery": f"special declaration {kind}/{ctx}: the program without the write does not run: "
                                                                  f"{(rc.out + rc.err)[-300:]}"}
            d = driver.fresh_dir()
            driver.write_files(d, files)
            res = driver.run(["run", "x.ms", "-q"], d)
            detail = {"files": files, "res": res.brief()}
            rejected = driver.compile_rejected(res)
            in_fn = ctx in ("fn", "fn-in-fn", "method", "own-ctor", "own-method", "own-method-closure")
            plain_local = in_fn and not kind.startswith("member-") and not kind.startswith("aliasmember-") and kind != "dupunpack" and not w.startswith("modify") and not w.startswith("index")
            if res.cls in ("panic", "abort", "timeout"):
                if "compiler/src" in res.err:
                    return {"outcome": "compiler-panic", "nontrivial": True, "tags": ["compiler-panic"]}
                bad("crash", f"{res.cls}: {res.err[-200:]}", detail)
            elif not rejected:
                # the non-const exported member `vmem` may be assigned?  C11 says importers cannot reassign exports.
                if res.exit == 0 and res.lines()[-len(expect):] == expect and plain_local:
                    return {"outcome": "accepted-local-unchanged", "nontrivial": True, "tags": ["accepted-unchanged"]}
                if kind.startswith("named-") and not w.startswith("index") and res.exit == 0 and res.lines()[-1:] == expect[-1:]:
                    # `import a from m` gives the importer a binding of its own, initialised from the export; the repository's test
                    # `not_import_const_bypass` pins that rebinding it is legal as long as the module's member is untouched.  So for
                    # the rebinding forms the member "is never rebound" is judged on the module's own view (last line printed).
                    return {"outcome": "accepted-own-binding-member-intact", "nontrivial": True, "tags": ["special-named", "named-rebinding-own-copy"]}
                if res.exit == 0 and res.lines()[-len(expect):] == expect:
                    bad("accepted-unchanged", "write accepted by the compiler (value observed unchanged)", detail)
                else:
                    bad("accepted-changed", f"write accepted; afterwards the program prints {res.lines()[-2:]} exit {res.exit}", detail)
            return {"outcome": "rejected" if rejected else "accepted", "viol": viol, "nontrivial": True,
                    "tags": ["special-" + kind.split("-")[0]]}

        _, decl, w, ctx, ty = case[:5]
        pre = case[5] if len(case) > 5 else "none"
        src = program(decl, w, ctx, ty, True, pre)
        if src is None:
            return {"outcome": "inexpressible", "nontrivial": False}
        ctl = program(decl, w, ctx, ty, False, pre)
        rc = driver.run_ms(ctl)
        control_ok = rc.exit == 0
        res = driver.run_ms(src)
        detail = {"files": {"x.ms": src, "control.ms": ctl}, "res": res.brief(), "control": rc.brief()}
        rejected = driver.compile_rejected(res)
        init_print = INIT_PRINT[ty]
        in_fn = ctx in ("fn", "fn-in-fn", "method", "fn-local-then-block") or ctx.startswith("method-")
        tags = [f"w-{w}", f"c-{ctx}", "control-ok" if control_ok else "control-rejected"]
        if res.cls in ("panic", "abort", "timeout"):
            if "compiler/src" in res.err:
                return {"outcome": "compiler-panic", "nontrivial": True, "tags": tags + ["compiler-panic"]}
            bad("crash", f"{res.cls}: {res.err[-200:]}", detail)
        elif not rejected:
            unchanged = res.exit == 0 and res.lines()[-1:] == [init_print]
            local_ok = in_fn and not w.startswith("modify") and ((w not in PATH_FORMS and not w.startswith("index")) or ctx == "fn-local-then-block")
            if unchanged and local_ok:
                pass        # declared a local in the nested function; the constant is intact
            elif unchanged:
                bad("accepted-unchanged", "write to a const accepted by the compiler (value observed unchanged)", detail)
            else:
                bad("accepted-changed", f"write accepted; afterwards `print cst` shows {res.lines()[-1:]} (exit {res.exit})", detail)
        return {"outcome": ("rejected" if rejected else "accepted") + ("/ctl-ok" if control_ok else "/ctl-rej"),
                "viol": viol, "nontrivial": control_ok, "tags": tags}

    def finish(self, stats, tier):
        errs = []
        if not stats["tags"].get("control-ok"):
            errs.append("vacuity: no positive control compiled")
        for w in WRITES:
            if not stats["tags"].get(f"w-{w}"):
                errs.append(f"vacuity: write form {w} never expressible")
        stats["extra_coverage"] = {"controls_accepted": stats["tags"].get("control-ok", 0),
                                   "controls_rejected": stats["tags"].get("control-rejected", 0)}
        return errs
