"""C01 — core statements and control flow execute per the language semantics.
E-prog: every control-flow skeleton up to the bound is printed, executed by the real CLI and
compared line by line with the reference interpreter."""
import itertools

from ..core import driver
from ..core.explore import Check
from ..lang import cfgen, refint


def features(shape, depth=0, acc=None):
    acc = acc if acc is not None else set()
    k = shape[0]
    acc.add(k)
    if k == "from":
        _, b, incl, step, ck, x = shape
        if ck != "fresh":
            acc.add(f"{ck}@{'nested' if depth else 'top'}")
        if incl:
            acc.add("through")
        if step is not None:
            acc.add("step")
        if step in ("var", "expr", "call"):
            acc.add("step-" + step)
        if b == ("e", "e"):
            acc.add("bounds-expr")
    if k == "fault":
        acc.add("fault-" + shape[1])
    for i in cfgen.children_idx(shape):
        if k != "seq":
            acc.add(f"{k}[{i}]>{shape[i][0]}")        # which statement kind sits in which arm of which compound (guard per position)
        features(shape[i], depth + (0 if k == "seq" else 1), acc)
    return acc


ARMS = {"if": [2], "ifelse": [2, 3], "elif": [3, 4, 5], "while": [2], "from": [5]}
ARM_CHILDREN = ["plain", "return", "fault", "if", "ifelse", "elif", "while", "from", "break", "continue"]


def evaluate(ast, files=None, minparen=False):
    """Run the AST on the model and on the implementation.  -> (viol-kind or None, what, detail, info)"""
    src = refint.program(ast, minparen=minparen)
    it = refint.Interp()
    try:
        ok, failure = it.run(ast)
    except refint.StepLimit:
        return "skip", "model step limit", None, {}
    res = driver.run_ms(src, extra_files=files)
    lines = res.lines()
    detail = {"files": {"x.ms": src}, "res": res.brief(), "expected_lines": it.out[-40:],
              "expected_ok": ok, "expected_failure": failure.kind if failure else None}
    info = {"ok": ok, "failure": failure.kind if failure else None, "res": res}
    if driver.compile_rejected(res):
        return "rejected", f"the compiler rejects a well-typed core program: {res.out[-300:]}", detail, info
    if ok:
        if res.exit != 0:
            return "unexpected-failure", (f"program should succeed; exit {res.exit} ({driver.classify_failure(res)}) after "
                                          f"{len(lines)} lines; first difference at line {first_diff(lines, it.out)}"), detail, info
        if lines != it.out:
            i = first_diff(lines, it.out)
            return "stdout", (f"line {i}: expected {it.out[i] if i < len(it.out) else '<end>'!r} got "
                              f"{lines[i] if i < len(lines) else '<end>'!r}"), detail, info
        return None, "", detail, info
    # expected failure: output stops at exactly that statement, exit status non-zero
    if res.exit == 0:
        return "missing-failure", f"expected failure ({failure.kind}) after {len(it.out)} lines; program exited 0", detail, info
    if lines != it.out:
        i = first_diff(lines, it.out)
        return "stdout-before-failure", (f"expected failure ({failure.kind}); line {i}: expected "
                                         f"{it.out[i] if i < len(it.out) else '<end>'!r} got {lines[i] if i < len(lines) else '<end>'!r}"), detail, info
    return None, "", detail, info


def first_diff(a, b):
    for i, (x, y) in enumerate(zip(a, b)):
        if x != y:
            return i
    return min(len(a), len(b))


def L0(depth):
    for s in cfgen.shapes(depth):
        yield ("fn", s)


def L0b():
    for s in cfgen.shapes(2):
        if not cfgen.has_kind(s, ("return",)):
            yield ("module", s)
        yield ("rec", s)


def L0c(depth=2):
    """functions without a return type: value-less returns; with the shape followed by more statements / as the last statement"""
    for s in cfgen.shapes(depth):
        yield ("void", s)
        yield ("voidlast", s)


def cond_values(s):
    out = []
    if s[0] in ("if", "ifelse"):
        out.append(s[1])
    if s[0] == "elif":
        out += [s[1], s[2]]
    for i in cfgen.children_idx(s):
        out += cond_values(s[i])
    return out


def L1(depth, variants=("fn",), skip=(), core_conds_beyond_depth1=False):
    seen = set()
    for s in cfgen.shapes(depth):
        if skip and cfgen.has_kind(s, skip):
            continue
        if core_conds_beyond_depth1 and cfgen.shape_depth(s) >= 2:
            # quick tier: the extended condition alphabet (!, &&, ||, >=, !=, string ==, call) is deviated at depth <= 1 only
            devs = (d for d in cfgen.deviations(s) if max(cond_values(d) or [0]) < 6)
        else:
            devs = cfgen.deviations(s)
        for d in devs:
            if d not in seen:
                seen.add(d)
                for v in variants:
                    if v == "module" and cfgen.has_kind(d, ("return",)):
                        continue
                    yield (v, d)
        continue
        for d in cfgen.deviations(s):
            if d not in seen:
                seen.add(d)
                for v in variants:
                    if v == "module" and cfgen.has_kind(d, ("return",)):
                        continue
                    yield (v, d)


def L1_loops():
    """single deviations of every depth-<=2 shape that has a from-loop with a break or continue somewhere"""
    seen = set()
    for s in cfgen.shapes(2):
        if not (cfgen.has_kind(s, ("from",)) and cfgen.has_kind(s, ("break", "continue"))):
            continue
        for d in cfgen.deviations(s):
            if d not in seen:
                seen.add(d)
                yield ("fn", d)


def L2(n):
    for s in cfgen.spines(n):
        if cfgen.shape_depth(s) >= 3:
            yield ("fn", s)


def L3():
    for s in cfgen.pairs(False):
        yield ("fn", s)
        if not cfgen.has_kind(s, ("return",)):
            yield ("module", s)
    for s in cfgen.pairs(True):
        yield ("fn", ("while", 2, s))
        yield ("fn", ("from", (0, 2), False, None, "fresh", s))


def L3q():
    """pairs of depth-1 compounds (no bare leaves, no fault/call) at function level and inside a while body"""
    items = [s for s in cfgen.shapes(1) if s[0] not in cfgen.LEAF_KINDS and not cfgen.has_kind(s, ("fault", "call", "store", "defcall", "tplain"))]
    for a, b in itertools.product(items, items):
        yield ("fn", ("seq", a, b))
    litems = [s for s in cfgen.shapes(1, True) if s[0] not in cfgen.LEAF_KINDS and not cfgen.has_kind(s, ("fault", "call", "return", "store", "defcall", "tplain"))]
    for a, b in itertools.product(litems, litems):
        yield ("fn", ("while", 2, ("seq", a, b)))


def L3r():
    """two loops at different block depths, every counter kind (cfgen.loop_sequences), in a function and at module level"""
    for s in cfgen.loop_sequences():
        yield ("fn", s)
        yield ("module", s)


def L5_double(depth):
    seen = set()
    for s in cfgen.shapes(depth):
        for d1 in cfgen.deviations(s):
            for d2 in cfgen.deviations(d1):
                if d2 != s and d2 not in seen:
                    seen.add(d2)
                    yield ("fn", d2)


def L6_long():
    items = [s for s in cfgen.shapes(2) if not cfgen.has_kind(s, ("return", "fault"))]
    # sequences of 10 depth-2 items (the 80-statement bound): sliding windows over the whole item list
    for i in range(0, len(items), 3):
        seq = items[i % len(items)]
        for j in range(1, 10):
            seq = ("seq", seq, items[(i + j * 37) % len(items)])
        yield ("fn", seq)
        yield ("module", seq)


# identifier spellings: a program means the same under any consistent renaming of an identifier to another non-reserved identifier.
# Names = every identifier-shaped word of grammar.pest (keywords, literal prefixes and suffixes) extended by a letter, an underscore
# or a digit, so that they are ordinary identifiers which merely START like a word of the grammar.
IDENT_ROLES = {
    "variable": ("{N} = 1\nprint {N}\n{N} = {N} + 1\nif {N} == 2 {{\n\t{N} = 5\n}}\n{N} += 2\nprint {N}\n", ["1", "7"]),
    "function": ("{N} = fn() -> int {{\n\tprint \"in\"\n\treturn 3\n}}\n{N}()\nprint {N}() + 1\nwhile true {{\n\t{N}()\n\tbreak\n}}\n", ["in", "in", "4", "in"]),
    "parameter": ("g = fn({N}: int) -> int {{\n\treturn {N} * 2\n}}\nprint g(4)\n", ["8"]),
    "loop-counter": ("from 0 to 2, {N} {{\n\tprint {N}\n}}\n", ["0", "1"]),
    "field-and-method": ("class K {{\n\t{N}: int\n\tconstructor(self, v: int) {{\n\t\tself.{N} = v\n\t}}\n\tfn {N}m(self) -> int {{\n\t\treturn self.{N}\n\t}}\n}}\n"
                         "k = K(3)\nprint k.{N}\nprint k.{N}m()\n", ["3", "3"]),
    "optional": ("{N}: int? = nil\nprint {N} == nil\n{N} = 4\nprint ({N}) or 0\n", ["true", "4"]),
    "const": ("const {N} = 9\nprint {N}\n", ["9"]),
    "list": ("{N}: [int...] = [1]\n{N}.push(2)\nprint {N}[1]\n{N}[0] = 5\nprint {N}\n", ["2", "[5, 2]"]),
    "after-expression-line": ("a = 1\nprint a\n{N} = 5\nprint {N} + a\nb = a\n{N} = 6\nprint {N}\n", ["1", "6", "6"]),
    "unpack": ("const [{N}, zz9] = [1, 2]\nprint {N} + zz9\n", ["3"]),
    "closure-capture": ("{N} = 1\ninc = fn() {{\n\tmodify {N} = {N} + 1\n}}\ninc()\nprint {N}\n", ["2"]),
    "call-argument-and-return": ("h = fn(q: int) -> int {{\n\t{N} = q + 1\n\treturn {N}\n}}\n{N} = 2\nprint h({N})\n", ["3"]),
}


# statement forms: the spellings and layouts of the core statements that the skeleton generator's printer never produces
# (it prints one statement per line, LF line ends, tabs, `return <value>`, no comments)
_VOID = "f = fn(c: bool) {{\n\tprint \"in\"\n{BODY}\tprint \"rest\"\n}}\nf(true)\nf(false)\nprint \"end\"\n"
STATEMENT_FORMS = {
    "void-return-line-end": (_VOID.format(BODY="\tif c {\n\t\treturn\n\t}\n"), ["in", "in", "rest", "end"]),
    "void-return-before-brace": (_VOID.format(BODY="\tif c { return }\n"), ["in", "in", "rest", "end"]),
    "void-return-trailing-space": (_VOID.format(BODY="\tif c {\n\t\treturn \n\t}\n"), ["in", "in", "rest", "end"]),
    "void-return-comment": (_VOID.format(BODY="\tif c {\n\t\treturn # early\n\t}\n"), ["in", "in", "rest", "end"]),
    "void-return-in-while": (_VOID.format(BODY="\twhile true {\n\t\tif c {\n\t\t\treturn\n\t\t}\n\t\tbreak\n\t}\n"), ["in", "in", "rest", "end"]),
    "void-return-in-from": (_VOID.format(BODY="\tfrom 0 to 3 {\n\t\tif c {\n\t\t\treturn\n\t\t}\n\t}\n"), ["in", "in", "rest", "end"]),
    "void-return-in-else": (_VOID.format(BODY="\tif !c {\n\t\tprint \"no\"\n\t} else {\n\t\treturn\n\t}\n"), ["in", "in", "no", "rest", "end"]),
    "void-return-last": ("f = fn() {{\n\tprint \"in\"\n\treturn\n}}\nf()\nprint \"end\"\n".format(), ["in", "end"]),
    "void-method-return": ("class K {{\n\tconstructor(self) {{}}\n\tfn m(self, c: bool) {{\n\t\tif c {{\n\t\t\treturn\n\t\t}}\n\t\tprint \"m\"\n\t}}\n}}\n"
                           "k = K()\nk.m(true)\nk.m(false)\n".format(), ["m"]),
    "comments": ("a = 1 # c\n# full line\nprint a # t\n### block\nmore ###\nprint a + 1\nif a == 1 {{ # open\n\tprint \"y\" # in\n}} # close\n".format(), ["1", "2", "y"]),
    "crlf": ("a = 1\r\nif a == 1 {{\r\n\tprint \"y\"\r\n}} else {{\r\n\tprint \"n\"\r\n}}\r\nwhile a < 3 {{\r\n\ta = a + 1\r\n}}\r\nfrom 0 to 2, i {{\r\n\tprint i\r\n}}\r\nprint a\r\n".format(),
             ["y", "0", "1", "3"]),
    "else-on-next-line": ("a = 1\nif a == 2 {{\n\tprint \"y\"\n}}\nelse if a == 3 {{\n\tprint \"z\"\n}}\nelse {{\n\tprint \"n\"\n}}\n".format(), ["n"]),
    "empty-blocks": ("a = 1\nif a == 2 {{}}\nelse if a == 1 {{\n\tprint \"e\"\n}}\nwhile false {{}}\nfrom 0 to 2 {{}}\nf = fn() {{}}\nf()\nprint \"z\"\n".format(), ["e", "z"]),
    "no-final-newline": ("print \"a\"\nprint \"b\"", ["a", "b"]),
    "blank-and-indented-lines": ("\n\n   \n\t\nprint \"lead\"\n\n\n        print \"deep\"\n", ["lead", "deep"]),
    "trailing-whitespace": ("a = 1   \nprint a\t\nif a == 1 {{ \n\tprint \"y\" \t\n}} \n".format(), ["1", "y"]),
    "one-line-blocks": ("f = fn(a: int) -> int {{ return a * 2 }}\nprint f(2)\na = 1\nwhile a < 3 {{ a = a + 1 }}\nprint a\nif a == 3 {{ print \"t\" }} else {{ print \"e\" }}\n".format(), ["4", "3", "t"]),
    "several-statements-per-line": ("a = 1 print a b = 2 print b\n", ["1", "2"]),
    "from-forms": ("from 0 to 2 {{\n\tprint \"a\"\n}}\nfrom 0 through 2 step 2 {{\n\tprint \"b\"\n}}\nfrom 0 through 2 step 2, i {{\n\tprint i\n}}\nfrom 1 to 3, j {{\n\tprint j\n}}\n".format(),
                   ["a", "a", "b", "b", "0", "2", "1", "2"]),
    "typed-assignments-update": ("acc: int = 0\nfrom 0 to 3 {{\n\tacc: int = acc + 1\n}}\nprint acc\nif true {{\n\tacc: int = 10\n}}\nprint acc\n"
                                 "f = fn() -> int {{\n\tacc: int = 5\n\treturn acc\n}}\nprint f()\nprint acc\nwhile acc > 8 {{\n\tacc: int = acc - 1\n}}\nprint acc\n".format(),
                                 ["3", "10", "5", "10", "8"]),
    "typed-assignments-other-types": ("s: str = \"a\"\nif true {{\n\ts: str = s + \"b\"\n}}\nprint s\nl: [int...] = [1]\nif true {{\n\tl: [int...] = [2, 3]\n}}\nprint l\n"
                                      "o: int? = nil\nif true {{\n\to: int? = 4\n}}\nprint o\nb: bool = false\nwhile !b {{\n\tb: bool = true\n}}\nprint b\n".format(),
                                      ["ab", "[2, 3]", "4", "true"]),
    "assert-forms": ("a = 1\nassert a == 1\nassert(a == 1)\nassert !(a == 2)\nprint \"ok\"\n", ["ok"]),
    "parenthesised-and-spaced-calls": ("f = fn(a: int, b: int) -> int {{\n\treturn a - b\n}}\nprint f( 5 , 2 )\nprint f(5,2)\nprint (f(5, 2))\nprint f(\n\t5,\n\t2\n)\n".format(), ["3", "3", "3", "3"]),
}


# lexical transformations that must not change what a program does (applied to the programs of ALL generators, see gencorpus)
def _no_multiline_strings(text):
    return all(l.count('"') % 2 == 0 for l in text.split("\n"))


def transform(text, how):
    lines = text.split("\n")
    if how == "crlf":
        return "\r\n".join(lines)
    if how == "comments":
        out = ["### generated", "block comment ###"]
        for k, l in enumerate(lines):
            if k % 4 == 0:
                out.append("# note " + str(k))
            out.append(l + (" # t" if l.strip() else ""))
        return "\n".join(out)
    if how == "spaced":
        out = []
        for l in lines:
            out.append("  " + l + ("  \t" if l.strip() else ""))
            out.append("")
        return "\n".join(out)
    raise ValueError(how)


TRANSFORMS = ["crlf", "comments", "spaced"]


def ident_names():
    import os
    import re
    from ..core import build as _b
    with open(os.path.join(_b.REPO, "compiler", "src", "grammar.pest")) as f:
        words = sorted(set(re.findall(r'"([A-Za-z_][A-Za-z_0-9]*) ?"', f.read())))
    names = ["zq"]
    for w in words:
        for v in (w + "x", w + "_", w + "1", w + "1x", w.capitalize() + "x" if w.capitalize() != w else w + "X"):
            if re.fullmatch(r"B[0-9]+|_+", v) or v in names:
                continue
            names.append(v)
    return names


class C01(Check):
    id = "C01"
    level = "model_checking"
    rule = ("all control-flow skeletons over {plain, call, break, continue, return, fault(assert|div|idx), if, if/else, else-if chain, "
            "while(n), from(bounds, to|through, step, anonymous|fresh|colliding counter)} built by rule 1 (one arbitrary child per "
            "compound, siblings simple leaves) up to the layer's depth, with default parameters (L0), every single parameter deviation "
            "(L1), spines of length <= 5 (L2), ordered pairs of depth-<=1 items in a function / module / loop body (L3), and in the "
            "thorough tier depth 4, double deviations and long sequences; each skeleton is emitted inside fn(p:int)->int called with "
            "p = 0, 1, 2 (and at module level / through one level of recursion / inside a function without a return type, whose returns carry no value, both followed by "
            "further statements and as the last statement of the body), framed by probes that print a site id and all live "
            "counters.  Identifier spellings: 12 roles of an identifier (variable, function incl. call statements, parameter, loop counter, field / method, "
            "optional, const, list, first token after an expression line, unpack target, captured variable, argument / return) x every identifier-shaped word "
            "of grammar.pest extended by a letter, underscore or digit; the program must behave as with a neutral name.  Statement forms: 21 spellings / layouts of the core statements the skeleton printer never "
            "produces (value-less return in 9 positions, typed assignments that update a variable of an enclosing block, comments, CRLF, else on the next line, empty and one-line blocks, several statements per line, "
            "blank / indented lines, trailing blanks, no final newline, all from-loop headers, assert and call spellings).  Lexical transformations: every program of the other checks' generators (closures, objects, containers, "
            "optionals, failure chains, module graphs, expression trees) re-run with CR LF line ends / interleaved comments / extra blanks and empty lines; "
            "the output must not change.  State = the reference interpreter's configuration; every program is one model trace replayed on the implementation.")
    assumptions = ["variable names are distinct per function (shadowing across functions belongs to C07)",
                   "any non-zero exit counts as the prescribed failure (its delivery is C17's business)",
                   "reference interpreter mcheck/lang/refint.py is the semantics (validated against the unchanged tree by this very check)"]
    chunksize = 16
    quick_cap_s = 300
    thorough_cap_s = 40 * 60

    def layers(self, tier):
        if tier == "quick":
            return [("L0-depth<=2-default", L0(2)), ("L0b-depth<=2-module+recursion", L0b()), ("L0c-depth<=2-void-functions", L0c()),
                    ("Li-identifier-spellings", [("ident", r, n) for n in ident_names() for r in IDENT_ROLES]),
                    ("Ls-statement-forms", [("form", k) for k in STATEMENT_FORMS]),
                    ("Lm-lexical-transformations-of-the-generated-corpus", self.meta_cases(tier)),
                    ("Lp-depth<=1-single-deviation-minimal-parentheses", L1(1, ("fn~min",))),
                    ("L2-spines<=4", L2(4)), ("L3q-pairs-of-compounds", L3q()), ("L3r-two-loops-at-different-block-depths-every-counter-kind", L3r()),
                    ("L1-depth<=2-single-deviation(no call/store/defcall leaves)", L1(2, skip=("call", "store", "defcall", "tplain"), core_conds_beyond_depth1=True))]
        return [("L0-depth<=3-default", L0(3)), ("L0b-depth<=2-module+recursion", L0b()), ("L0c-depth<=2-void-functions", L0c()),
                ("Li-identifier-spellings", [("ident", r, n) for n in ident_names() for r in IDENT_ROLES]),
                ("Ls-statement-forms", [("form", k) for k in STATEMENT_FORMS]),
                ("Lm-lexical-transformations-of-the-generated-corpus", self.meta_cases(tier)),
                ("L1-depth<=2-single-deviation", L1(2, ("fn", "module", "rec", "fn~min"))), ("L3-pairs", L3()), ("L3r-two-loops-at-different-block-depths-every-counter-kind", L3r()),
                ("L2-spines<=5", L2(5)), ("L6-long-sequences", L6_long()), ("L5a-depth<=2-double-deviation", L5_double(2)),
                ("L5b-depth<=3-single-deviation", L1(3)), ("L4-depth<=4-default", L0(4))]

    def describe(self, case):
        if case[0] == "ident":
            return {"identifier": case[2], "role": case[1]}
        if case[0] == "form":
            return {"statement_form": case[1]}
        if case[0] == "meta":
            return {"corpus_program": case[1], "transformation": case[2]}
        if case[0] == "metaex":
            return {"example": case[2], "transformation": case[3]}
        return {"variant": case[0], "shape": repr(case[1])}

    def run_ident(self, case):
        _, role, nm = case
        tpl, exp = IDENT_ROLES[role]
        src = tpl.format(N=nm)
        res = driver.run_ms(src)
        lines = res.lines()
        viol = []
        if res.exit != 0 or lines != exp:
            import re
            stem = re.sub(r"(x|_|1|1x|X)$", "", nm).lower()
            rejected = driver.compile_rejected(res)
            viol.append({"sig": {"kind": "identifier-spelling", "stem": stem, "role": role, "how": "rejected" if rejected else "misbehaves"},
                         "what": f"`{nm}` as {role}: the program prints {exp} with any other name; here " +
                                 (f"the compiler rejects it: {res.out[-160:]!r}" if rejected else f"it prints {lines} (exit {res.exit}) {res.err[-120:]}"),
                         "detail": {"files": {"x.ms": src}, "res": res.brief(), "expected_lines": exp}})
        return {"outcome": "ident-ok" + ("-DIFF" if viol else ""), "viol": viol, "nontrivial": True, "tags": ["ident", f"role-{role}"]}

    def meta_cases(self, tier):
        from ..lang import gencorpus, corpus
        ex = [("metaex", top, rel, t) for top, rel in corpus.example_files() for t in TRANSFORMS] if tier == "thorough" else []
        return [("meta", nm, t) for nm in gencorpus.names(tier) for t in TRANSFORMS] + ex

    def run_metaex(self, case):
        """the same differential on the repository's own example programs (whole example directory transformed)"""
        import os
        from ..lang import corpus, paths
        _, top, rel, how = case
        base = driver.fresh_dir()
        d0, d1 = os.path.join(base, "a"), os.path.join(base, "b")
        os.makedirs(d0)
        os.makedirs(d1)
        cwd0, entry = corpus.stage(d0, top, rel)
        cwd1, _ = corpus.stage(d1, top, rel)
        for root, _, fs in os.walk(os.path.join(d1, "ex")):
            for f in fs:
                if f.endswith(".ms"):
                    pth = os.path.join(root, f)
                    try:
                        text = open(pth, encoding="utf-8").read()
                    except (OSError, UnicodeDecodeError):
                        return {"outcome": "meta-skipped-unreadable", "nontrivial": False}
                    if not _no_multiline_strings(text) or (how == "comments" and "###" in text):
                        return {"outcome": "meta-skipped-multiline-string", "nontrivial": False}
                    with open(pth, "w", encoding="utf-8", newline="") as fh:
                        fh.write(transform(text, how))
        r0 = driver.run(["run", entry, "-q"], cwd0, timeout=8)
        r1 = driver.run(["run", entry, "-q"], cwd1, timeout=8)
        if r0.timeout or r1.timeout:
            return {"outcome": "meta-skipped-timeout", "nontrivial": False}
        viol = []
        ok0 = r0.exit == 0
        loose = paths.iterates_a_map(cwd0)
        same = (paths.canon_stdout(r0.out, loose) == paths.canon_stdout(r1.out, loose) and r1.exit == 0) if ok0 else r1.exit != 0
        if not same:
            viol.append({"sig": {"kind": "lexical-transformation", "how": how, "generator": "example:" + rel},
                         "what": f"{rel} after `{how}`: exit {r0.exit} -> {r1.exit}; output {r0.out[-120:]!r} -> {(r1.out + r1.err)[-200:]!r}",
                         "detail": {"files": {}, "example": rel, "original": r0.brief(), "transformed": r1.brief()}})
        return {"outcome": "metaex-ok" + ("-DIFF" if viol else ""), "viol": viol, "nontrivial": True, "tags": ["meta", f"meta-{how}"]}

    def run_meta(self, case):
        """differential: the program of another generator before and after a transformation that only touches line ends, comments and blanks"""
        from ..lang import gencorpus, paths
        _, nm, how = case
        files = gencorpus.get(nm)
        if not all(_no_multiline_strings(t) for t in files.values()):
            return {"outcome": "meta-skipped-multiline-string", "nontrivial": False}
        entry = "main.ms" if "main.ms" in files else ("x.ms" if "x.ms" in files else sorted(files)[0])
        d0 = driver.fresh_dir()
        driver.write_files(d0, files)
        r0 = driver.run(["run", entry, "-q"], d0, timeout=20)
        files2 = {k: (transform(v, how) if k.endswith(".ms") else v) for k, v in files.items()}
        d1 = driver.fresh_dir()
        driver.write_files(d1, files2)
        r1 = driver.run(["run", entry, "-q"], d1, timeout=20)
        viol = []
        loose = paths.mentions_map_iteration(files.values())
        same = r0.exit == r1.exit and paths.canon_stdout(r0.out, loose) == paths.canon_stdout(r1.out, loose) if r0.exit == 0 else (r1.exit != 0 and r0.lines()[:3] == r1.lines()[:3] or
                                                                            (driver.compile_rejected(r0)) == (driver.compile_rejected(r1)) and r1.exit != 0)
        if not same:
            viol.append({"sig": {"kind": "lexical-transformation", "how": how, "generator": nm.split(":")[0]},
                         "what": f"{nm} after `{how}`: exit {r0.exit} -> {r1.exit}; output {r0.out[-120:]!r} -> {(r1.out + r1.err)[-200:]!r}",
                         "detail": {"files": {"original/" + k: v for k, v in files.items()} | files2, "original": r0.brief(), "transformed": r1.brief()}})
        return {"outcome": "meta-ok" + ("-DIFF" if viol else ""), "viol": viol, "nontrivial": True, "tags": ["meta", f"meta-{how}"]}

    def run_form(self, case):
        src, exp = STATEMENT_FORMS[case[1]]
        res = driver.run_ms(src)
        lines = res.lines()
        viol = []
        if res.exit != 0 or lines != exp:
            viol.append({"sig": {"kind": "statement-form", "form": case[1]},
                         "what": f"statement form {case[1]}: expected {exp} exit 0; got {lines} exit {res.exit} {res.out[-200:] if res.exit else ''}{res.err[-150:]}",
                         "detail": {"files": {"x.ms": src}, "res": res.brief(), "expected_lines": exp}})
        return {"outcome": "form-ok" + ("-DIFF" if viol else ""), "viol": viol, "nontrivial": True, "tags": ["form"]}

    def run_case(self, case):
        if case[0] == "form":
            return self.run_form(case)
        if case[0] == "meta":
            return self.run_meta(case)
        if case[0] == "metaex":
            return self.run_metaex(case)
        if case[0] == "ident":
            return self.run_ident(case)
        variant, shape = case
        ast = cfgen.function_program(shape, variant)
        kind, what, detail, info = evaluate(ast, minparen=variant.endswith("~min"))
        feats = features(shape)
        if kind == "skip":
            return {"outcome": "skipped-step-limit", "nontrivial": False}
        viol = []
        if kind:
            viol.append({"sig": {"kind": kind, "variant": variant, "feats": ",".join(sorted(feats))},
                         "what": f"{what}  [{variant} {shape!r}]", "detail": detail})
        res = info["res"]
        tags = sorted(feats) + [f"depth{cfgen.shape_depth(shape)}", variant]
        outcome = ("ok" if info["ok"] else "fail-" + str(info["failure"])) + ("-DIFF" if viol else "")
        return {"outcome": outcome, "viol": viol, "nontrivial": True, "tags": tags,
                "counters": {"states": len(res.lines()) + 1, "transitions": len(res.lines())}}

    def finish(self, stats, tier):
        errs = []
        for t in ["store", "defcall", "tplain", "break", "continue", "return", "fault-div", "fault-assert" if tier == "thorough" else "fault-div", "elif",
                  "while", "from", "fn~min", "ident", "form", "void", "voidlast", "meta-crlf", "meta-comments", "meta-spaced", "collide@nested", "collide@top", "anon@nested", "step", "step-expr", "step-call", "bounds-expr", "through", "module", "rec"]:
            if not stats["tags"].get(t):
                errs.append(f"vacuity: construct {t} never explored")
        for k, arms in ARMS.items():
            for i in arms:
                for ch in ARM_CHILDREN:
                    if not stats["tags"].get(f"{k}[{i}]>{ch}"):
                        errs.append(f"vacuity: no explored program has a `{ch}` directly in arm {i} of `{k}`")
        ok = stats["evaluations"] - stats["outcomes"].get("skipped-step-limit", 0)
        stats["extra_coverage"] = {
            "states": stats["counters"].get("states", 0), "transitions": stats["counters"].get("transitions", 0),
            "traces_validated_against_impl": ok,
            "explanation": "states/transitions = printed probe configurations and steps between them, summed over all explored programs; "
                           "each program is a complete model trace (reference interpreter) replayed on the real CLI"}
        return errs


def register_corpus(register):
    shapes = [s for s in cfgen.shapes(2)]
    picks = shapes[::7]

    def count(tier):
        return len(picks) if tier == "thorough" else len(picks[::4])

    def get(i):
        s = picks[i]
        return {"x.ms": refint.program(cfgen.function_program(s, "fn"))}
    register("c01", count, get)
