"""C13 — lists and maps: reference sharing and agreement with a mathematical sequence / finite map.
E-hist: BFS over operation histories with de-duplication on the canonical model heap; every transition
is replayed on the real CLI."""
import copy
import re

from ..core.ehist import EHistCheck, Model


def lit(v):
    if v is None:
        return "nil"
    if isinstance(v, bool):
        return "true" if v else "false"
    if isinstance(v, str):
        return '"' + v + '"'
    return str(v)


def show(v, depth=0):
    if v is None:
        return "nil"
    if isinstance(v, bool):
        return "true" if v else "false"
    if isinstance(v, str):
        return '"' + v + '"' if depth else v
    if isinstance(v, L):
        return "[" + ", ".join(show(x, depth + 1) for x in v.items) + "]"
    if isinstance(v, M):
        return "{" + ", ".join(sorted(f"{show(k, 1)}: {show(x, 1)}" for k, x in v.d.items())) + "}"
    return str(v)


class Boxed(int):
    """a PRESENT optional in the boxed form a built-in hands out: to the language it IS the plain value (==, index_of, printing); to the search it is
    a different state component, so that a history which stores the boxed form is not merged with one that stores the plain value"""
    def __deepcopy__(self, memo):
        return Boxed(int(self))


class L:
    def __init__(self, items):
        self.items = items


class M:
    def __init__(self, d):
        self.d = d


CAP = 3


class ListMapModel(Model):
    name = "lists-and-maps"

    # ---- templates -----------------------------------------------------------------------------
    def templates(self, tier):
        return ["ints", "strs", "opts", "nested", "maps", "xfer"]

    def init(self, tpl):
        if tpl == "ints":
            l1 = L([])
            return {"l1": l1, "a1": l1, "l2": L([1])}
        if tpl == "strs":
            s1 = L(["a"])
            return {"s1": s1, "sa": s1}
        if tpl == "opts":
            o1 = L([None])
            return {"o1": o1, "oa": o1}
        if tpl == "nested":
            inner = L([1])
            n1 = L([inner, L([])])
            return {"n1": n1, "in0": inner, "n2": L([])}
        if tpl == "maps":
            m1 = M({})
            return {"m1": m1, "ma": m1, "m2": M({"a": 1})}
        if tpl == "xfer":
            # values TRANSFERRED between containers: read out of one (element, map entry) and put into another by every form there is
            return {"l1": L([1, 2]), "l2": L([]), "m1": M({})}
        raise ValueError(tpl)

    def clone(self, st):
        return copy.deepcopy(st)

    def canon(self, tpl, st):
        ids = {}

        def c(v):
            if isinstance(v, L):
                if id(v) in ids:
                    return ("ref", ids[id(v)])
                ids[id(v)] = len(ids)
                return ("L", ids[id(v)], tuple(c(x) for x in v.items))
            if isinstance(v, M):
                if id(v) in ids:
                    return ("ref", ids[id(v)])
                ids[id(v)] = len(ids)
                return ("M", ids[id(v)], tuple(sorted((k, c(x)) for k, x in v.d.items())))
            if isinstance(v, Boxed):
                return ("boxed", int(v))
            return v
        return tuple((n, c(st[n])) for n in sorted(st))

    PRELUDE = {
        "ints": 'l1: [int...] = []\na1 = l1\nl2: [int...] = [1]\n'
                'inc = fn(x: int) -> int {\n\treturn x + 1\n}\nev = fn(x: int) -> bool {\n\treturn x % 2 == 0\n}\n'
                # callbacks that change the list they are iterating over (the iteration is live: element i is read when its turn comes, it ends when i >= len)
                + "".join(f'{nm}{how} = fn(x: int) -> {rt} {{\n\t{mut}\n\treturn {rv}\n}}\n'
                          for nm, rt, rv in (("ev", "bool", "x % 2 == 0"), ("inc", "int", "x + 1"))
                          for how, mut in (("clr", "l1.clear()"), ("rm", "if l1.len() > 0 {\n\t\tl1.remove(0)\n\t}"), ("pu", "if l1.len() < 3 {\n\t\tl1.push(2)\n\t}"))),
        "strs": 's1: [str...] = ["a"]\nsa = s1\nup = fn(x: str) -> str {\n\treturn x + "!"\n}\nisb = fn(x: str) -> bool {\n\treturn x == "b"\n}\n',
        "opts": 'o1: [int?...] = [nil]\noa = o1\nbsrc: [int...] = [5, 1, 2]\n',
        "nested": 'in0: [int...] = [1]\nn1: [[int...]...] = [in0, []]\nn2: [[int...]...] = []\n',
        "maps": 'm1 = map[str, int]\nma = m1\nm2 = map[str, int]\nm2["a"] = 1\nkl: [str...] = ["a", "b"]\n',
        "xfer": 'l1: [int...] = [1, 2]\nl2: [int...] = []\nm1 = map[str, int]\nidf = fn(x: int) -> int {\n\treturn x\n}\n'
                'el0 = fn() -> int {\n\treturn l1[0]\n}\nel0m = fn(x: int) -> int {\n\treturn l1[0]\n}\nbq: [bool...] = [true]\nkeepq = fn(x: int) -> bool {\n\treturn bq[0]\n}\n',
    }

    def prelude(self, tpl):
        return self.PRELUDE[tpl]

    # ---- alphabet ------------------------------------------------------------------------------
    def idx_set(self, n):
        out = []
        for i in (-1, 0, n - 1, n):
            if i not in out:
                out.append(i)
        return out

    def ops(self, tpl, st):
        out = []
        if tpl == "ints":
            for name in ("l1", "a1", "l2"):
                lst = st[name]
                n = len(lst.items)
                full = name == "l1"
                if n < CAP:
                    for v in ((0, 1, 2) if full else (2,)):
                        out.append(("push", name, v))
                for i in self.idx_set(n):
                    out.append(("read", name, i))
                    if full or name == "l2":
                        out.append(("remove", name, i))
                    if full or name == "a1":
                        out.append(("set", name, i, 2))
                    if full:
                        out.append(("addset", name, i, 1))
                        # the other op-assignments through an index; enabled where the result stays inside the value alphabet
                        if 0 <= i < n:
                            cur = lst.items[i]
                            if isinstance(cur, int):
                                if cur >= 1:
                                    out.append(("opset", name, i, "-=", 1))
                                if cur <= 1:
                                    out.append(("opset", name, i, "*=", 2))
                                out.append(("opset", name, i, "/=", 2))
                                out.append(("opset", name, i, "%=", 2))
                if full:
                    out += [("reverse", name), ("clear", name), ("map", name), ("filter", name), ("len", name), ("str", name)]
                    if n:
                        out += [(k, name, how) for k in ("filter_mut", "map_mut") for how in ("clr", "rm", "pu")]
                    for v in (0, 2):
                        out.append(("index_of", name, v))
            out += [("clone", "l2", "l1"), ("clone", "a1", "l1"), ("alias", "a1", "l2"), ("alias", "l2", "l1"),
                    ("eq", "l1", "l2"), ("eq", "l1", "a1")]
            for a, b in (("l1", "l2"), ("l2", "l1"), ("a1", "l2")):
                if st[a] is not st[b] and len(st[a].items) + len(st[b].items) <= CAP:
                    out.append(("join", a, b))
            # the RESULT of join is the receiver itself (not a copy): bound to a name it is one more alias; a call chained onto it works on the receiver
            if st["l1"] is not st["l2"] and len(st["l1"].items) + len(st["l2"].items) <= CAP:
                out.append(("joinret", "a1", "l1", "l2"))
                out.append(("joinret", "l2", "l1", "l2"))
                if len(st["l1"].items) + len(st["l2"].items) < CAP:
                    out.append(("joinchain", "l1", "l2", 2))
        elif tpl == "strs":
            lst = st["s1"]
            n = len(lst.items)
            if n < CAP:
                out += [("push", "s1", "b"), ("push", "sa", "a")]
            for i in self.idx_set(n):
                out += [("read", "s1", i), ("remove", "s1", i), ("set", "sa", i, "b"), ("addset", "s1", i, "c")]
            out += [("reverse", "s1"), ("map", "s1"), ("filter", "s1"), ("index_of", "s1", "b"), ("str", "s1"),
                    ("clone", "sa", "s1"), ("eq", "s1", "sa"), ("len", "sa"), ("clear", "sa")]
        elif tpl == "opts":
            lst = st["o1"]
            n = len(lst.items)
            if n < CAP:
                out += [("push", "o1", None), ("push", "oa", 1)]
                # a PRESENT optional handed out by a built-in arrives boxed: as an element it must behave like the plain value (==, index_of, reads)
                out += [("pushbox", "o1", 1), ("pushbox", "o1", None)]
            for i in self.idx_set(n):
                out += [("read", "o1", i), ("remove", "o1", i), ("set", "oa", i, None), ("set", "o1", i, 2), ("isnil", "o1", i), ("nilis", "o1", i)]
            out += [("reverse", "o1"), ("index_of", "o1", 1), ("index_of", "o1", None), ("index_of", "oa", 2), ("clone", "oa", "o1"), ("len", "oa"), ("eq", "o1", "oa")]
        elif tpl == "nested":
            n1 = st["n1"]
            n = len(n1.items)
            for i in self.idx_set(n):
                out += [("read", "n1", i), ("inner_push", "n1", i, 2), ("remove", "n1", i)]
            if n < CAP:
                out += [("push_inner", "n1"), ("push_new", "n1")]
            if len(st["in0"].items) < CAP:
                out.append(("push", "in0", 3))
            out += [("clone", "n2", "n1"), ("reverse", "n1"), ("len", "n1"), ("inner_set", "n1", 0), ("eq", "n1", "n2"),
                    ("clear", "in0"), ("alias", "n2", "n1")]
            if st["n2"].items and len(st["n2"].items[0].items) < CAP:
                out.append(("inner_push", "n2", 0, 9))
        elif tpl == "xfer":
            n1, n2 = len(st["l1"].items), len(st["l2"].items)
            for i in (0, 1):
                if i < n1:
                    out += [("x_mlit", i), ("x_mset", "a", i), ("x_mreplace", "a", i), ("x_llit", i), ("x_lmap", i)]
                    if n2 < CAP:
                        out.append(("x_push", i))
                    if n2 > 0:
                        out.append(("x_lset", 0, i))
                    cur = st["l1"].items[i]
                    if cur < 2:
                        out.append(("addset", "l1", i, 1))
                    out.append(("set", "l1", i, 0))
            if n1 >= 1:
                out += [("x_mlit_fn",), ("x_push_fn",) if n2 < CAP else ("len", "l2"), ("x_lmap_ref",), ("x_filter_ref",)]
            if "a" in st["m1"].d:
                if n2 < CAP:
                    out.append(("x_push_from_map", "a"))
                if n1 > 0:
                    out.append(("x_lset_from_map", 0, "a"))
                if st["m1"].d["a"] < 2:
                    out.append(("maddset", "m1", "a", 1))
            out += [("reverse", "l1"), ("mset", "m1", "a", 0), ("mread", "m1", "a"), ("mvalues", "m1"), ("clear", "l2")]
            if n1 > 1:
                out.append(("remove", "l1", 0))
            if n1 < 2:
                out.append(("push", "l1", 2))
        elif tpl == "maps":
            for name in ("m1", "ma", "m2"):
                full = name == "m1"
                for k in (("a", "b") if full else ("a",)):
                    out.append(("mset", name, k, 2 if name != "ma" else 7))
                    out.append(("mread", name, k))
                    if full:
                        # the key itself is read out of a list (`m1[kl[0]] = 3`): a reference into that list, not a plain value
                        out += [("msetk", name, k, 3), ("maddsetk", name, k, 1), ("mreadk", name, k)]
                        out += [("maddset", name, k, 1), ("mreplace", name, k, 5), ("mremove", name, k), ("mcontains", name, k)]
                        cur = st[name].d.get(k)
                        if isinstance(cur, int):
                            out += [("mopset", name, k, "-=", 1), ("mopset", name, k, "/=", 2), ("mopset", name, k, "%=", 3)]
                            if cur <= 4:
                                out.append(("mopset", name, k, "*=", 2))
                if full:
                    out += [("mlen", name), ("mkeys", name), ("mvalues", name), ("mpairs", name), ("mclear", name)]
            out += [("mclone", "m2", "m1"), ("mclone", "ma", "m1"), ("alias", "ma", "m2"), ("mlit", "m2"), ("mlen", "m2")]
        return out

    # ---- model semantics -----------------------------------------------------------------------
    def dump(self, tpl, st):
        return [show(st[n]) for n in sorted(st)]

    def apply(self, tpl, st, op):
        k = op[0]
        obs = []
        fail = False

        def inrange(lst, i):
            return 0 <= i < len(lst.items)
        if k == "push":
            st[op[1]].items.append(op[2])
        elif k == "read":
            lst = st[op[1]]
            if not inrange(lst, op[2]):
                return obs, True
            obs.append(show(lst.items[op[2]]))
        elif k == "isnil":
            lst = st[op[1]]
            if not inrange(lst, op[2]):
                return obs, True
            obs.append(show(lst.items[op[2]] is None))
        elif k == "nilis":
            lst = st[op[1]]
            if not inrange(lst, op[2]):
                return obs, True
            obs.append(show(lst.items[op[2]] is None))
            obs.append(show(lst.items[op[2]] is not None))
        elif k == "remove":
            lst = st[op[1]]
            if not inrange(lst, op[2]):
                return obs, True
            obs.append(show(lst.items.pop(op[2])))
        elif k == "set":
            lst = st[op[1]]
            if not inrange(lst, op[2]):
                return obs, True
            lst.items[op[2]] = op[3]
        elif k == "addset":
            lst = st[op[1]]
            if not inrange(lst, op[2]):
                return obs, True
            lst.items[op[2]] = lst.items[op[2]] + op[3]
        elif k in ("opset", "mopset"):
            box = st[op[1]].items if k == "opset" else st[op[1]].d
            if k == "opset" and not inrange(st[op[1]], op[2]):
                return obs, True
            if k == "mopset" and op[2] not in box:
                return obs, True
            a, b = box[op[2]], op[4]
            box[op[2]] = {"-=": a - b, "*=": a * b, "/=": int(a / b), "%=": a - b * int(a / b)}[op[3]]
        elif k == "reverse":
            st[op[1]].items.reverse()
        elif k == "clear":
            del st[op[1]].items[:]
        elif k == "clone":
            st[op[1]] = L(list(st[op[2]].items))
        elif k == "alias":
            st[op[1]] = st[op[2]]
        elif k == "join":
            st[op[1]].items.extend(st[op[2]].items)
        elif k == "joinret":
            st[op[2]].items.extend(st[op[3]].items)
            st[op[1]] = st[op[2]]
        elif k == "joinchain":
            st[op[1]].items.extend(st[op[2]].items)
            st[op[1]].items.append(op[3])
        elif k == "map":
            if tpl == "ints":
                obs.append(show(L([x + 1 for x in st[op[1]].items])))
            else:
                obs.append(show(L([x + "!" for x in st[op[1]].items])))
        elif k == "filter":
            if tpl == "ints":
                obs.append(show(L([x for x in st[op[1]].items if x % 2 == 0])))
            else:
                obs.append(show(L([x for x in st[op[1]].items if x == "b"])))
        elif k == "pushbox":
            st[op[1]].items.append(Boxed(op[2]) if op[2] is not None else None)
        elif k in ("filter_mut", "map_mut"):
            items, res, i = st[op[1]].items, [], 0
            while i < len(items):
                x = items[i]
                i += 1
                if op[2] == "clr":
                    items.clear()
                elif op[2] == "rm":
                    if items:
                        items.pop(0)
                elif len(items) < CAP:
                    items.append(2)
                if k == "map_mut":
                    res.append(x + 1)
                elif x % 2 == 0:
                    res.append(x)
            obs.append(show(L(res)))
        elif k == "index_of":
            it = st[op[1]].items
            obs.append(show(it.index(op[2]) if op[2] in it else None))
        elif k == "len":
            obs.append(str(len(st[op[1]].items)))
        elif k == "str":
            obs.append("<" + show(st[op[1]]) + ">" + str(len(st[op[1]].items)))
        elif k == "eq":
            obs.append(show(self.deep_eq(st[op[1]], st[op[2]])))
        elif k == "inner_push":
            lst = st[op[1]]
            if not inrange(lst, op[2]):
                return obs, True
            inner = lst.items[op[2]]
            if len(inner.items) < CAP:
                inner.items.append(op[3])
        elif k == "push_inner":
            st[op[1]].items.append(st["in0"])
        elif k == "push_new":
            st[op[1]].items.append(L([5]))
        elif k == "inner_set":
            lst = st[op[1]]
            if not inrange(lst, op[2]):
                return obs, True
            lst.items[op[2]] = L([6, 6])
        elif k in ("mset", "msetk"):
            st[op[1]].d[op[2]] = op[3]
        elif k in ("mread", "mreadk"):
            obs.append(show(st[op[1]].d.get(op[2])))
        elif k in ("maddset", "maddsetk"):
            d = st[op[1]].d
            if op[2] not in d:
                return obs, True
            d[op[2]] = d[op[2]] + op[3]
        elif k == "mreplace":
            d = st[op[1]].d
            obs.append(show(d.get(op[2])))
            d[op[2]] = op[3]
        elif k == "mremove":
            obs.append(show(st[op[1]].d.pop(op[2], None)))
        elif k == "mcontains":
            obs.append(show(op[2] in st[op[1]].d))
        elif k == "mlen":
            obs.append(str(len(st[op[1]].d)))
        elif k == "mkeys":
            obs.append("K" + show(L(sorted(st[op[1]].d.keys()))))
        elif k == "mvalues":
            obs.append("V" + show(L(sorted(st[op[1]].d.values()))))
        elif k == "mpairs":
            obs.append("P" + show(L([L([a, b]) for a, b in sorted(st[op[1]].d.items())])))
        elif k == "mclear":
            st[op[1]].d.clear()
        elif k == "mclone":
            st[op[1]] = M(dict(st[op[2]].d))
        elif k == "mlit":
            st[op[1]] = M({"a": 4, "b": 6})
        elif k == "x_mlit":
            st["m1"] = M({"a": st["l1"].items[op[1]], "b": 1})
        elif k == "x_mlit_fn":
            st["m1"] = M({"a": st["l1"].items[0]})
        elif k in ("x_mset", "x_mreplace"):
            if k == "x_mreplace":
                obs.append(show(st["m1"].d.get(op[1])))
            st["m1"].d[op[1]] = st["l1"].items[op[2]]
        elif k == "x_llit":
            st["l2"] = L([st["l1"].items[op[1]], 0])
        elif k == "x_lmap":
            st["l2"] = L(list(st["l1"].items))
        elif k == "x_lmap_ref":
            st["l2"] = L([st["l1"].items[0]] * len(st["l1"].items))
        elif k == "x_filter_ref":
            st["l2"] = L(list(st["l1"].items))
        elif k == "x_push":
            st["l2"].items.append(st["l1"].items[op[1]])
        elif k == "x_push_fn":
            st["l2"].items.append(st["l1"].items[0])
        elif k == "x_lset":
            st["l2"].items[op[1]] = st["l1"].items[op[2]]
        elif k == "x_push_from_map":
            st["l2"].items.append(st["m1"].d[op[1]])
        elif k == "x_lset_from_map":
            st["l1"].items[op[1]] = st["m1"].d[op[2]]
        else:
            raise ValueError(op)
        return obs + self.dump(tpl, st), fail

    def deep_eq(self, a, b):
        if isinstance(a, L) and isinstance(b, L):
            return len(a.items) == len(b.items) and all(self.deep_eq(x, y) for x, y in zip(a.items, b.items))
        return a == b

    # ---- source --------------------------------------------------------------------------------
    def op_src(self, tpl, op, k_):
        k = op[0]
        names = sorted(self.init(tpl))
        dump = "".join(f"print {n}\n" for n in names)
        iv = f"ix{k_}"
        tv = f"tv{k_}"

        def with_idx(i, body):
            return f"{iv} = {i if i >= 0 else '0 - ' + str(-i)}\n" + body
        if k == "push":
            s = f"{op[1]}.push({lit(op[2])})\n"
        elif k == "read":
            s = with_idx(op[2], f"print {op[1]}[{iv}]\n")
        elif k == "isnil":
            s = with_idx(op[2], f"print {op[1]}[{iv}] == nil\n")
        elif k == "nilis":
            s = with_idx(op[2], f"print nil == {op[1]}[{iv}]\nprint nil != {op[1]}[{iv}]\n")
        elif k == "remove":
            s = with_idx(op[2], f"print {op[1]}.remove({iv})\n")
        elif k == "set":
            s = with_idx(op[2], f"{op[1]}[{iv}] = {lit(op[3])}\n")
        elif k == "addset":
            s = with_idx(op[2], f"{op[1]}[{iv}] += {lit(op[3])}\n")
        elif k == "opset":
            s = with_idx(op[2], f"{op[1]}[{iv}] {op[3]} {lit(op[4])}\n")
        elif k == "mopset":
            s = f"{op[1]}[{lit(op[2])}] {op[3]} {op[4]}\n"
        elif k == "reverse":
            s = f"{op[1]}.reverse()\n"
        elif k == "clear":
            s = f"{op[1]}.clear()\n"
        elif k == "clone":
            s = f"{op[1]} = {op[2]}.clone()\n"
        elif k == "alias":
            s = f"{op[1]} = {op[2]}\n"
        elif k == "join":
            s = f"{op[1]}.join({op[2]})\n"
        elif k == "joinret":
            s = f"{op[1]} = {op[2]}.join({op[3]})\n"
        elif k == "joinchain":
            s = f"{op[1]}.join({op[2]}).push({lit(op[3])})\n"
        elif k == "map":
            s = f"print {op[1]}.map({'inc' if tpl == 'ints' else 'up'})\n"
        elif k == "filter":
            s = f"print {op[1]}.filter({'ev' if tpl == 'ints' else 'isb'})\n"
        elif k == "pushbox":
            s = f"{op[1]}.push(bsrc.index_of({1 if op[2] == 1 else 9}))\n"
        elif k == "filter_mut":
            s = f"print {op[1]}.filter(ev{op[2]})\n"
        elif k == "map_mut":
            s = f"print {op[1]}.map(inc{op[2]})\n"
        elif k == "index_of":
            s = f"print {op[1]}.index_of({lit(op[2])})\n"
        elif k == "len":
            s = f"print {op[1]}.len()\n"
        elif k == "str":
            s = f"print \"<\" + {op[1]}.to_str() + \">\" + {op[1]}.len()\n"
        elif k == "eq":
            s = f"print {op[1]} == {op[2]}\n"
        elif k == "inner_push":
            s = with_idx(op[2], f"{tv} = {op[1]}[{iv}]\nif {tv}.len() < {CAP} {{\n\t{tv}.push({op[3]})\n}}\n")
        elif k == "push_inner":
            s = f"{op[1]}.push(in0)\n"
        elif k == "push_new":
            s = f"{op[1]}.push([5])\n"
        elif k == "inner_set":
            s = with_idx(op[2], f"{op[1]}[{iv}] = [6, 6]\n")
        elif k == "msetk":
            s = f"{op[1]}[kl[{0 if op[2] == 'a' else 1}]] = {op[3]}\n"
        elif k == "maddsetk":
            s = f"{op[1]}[kl[{0 if op[2] == 'a' else 1}]] += {op[3]}\n"
        elif k == "mreadk":
            s = f"print {op[1]}[kl[{0 if op[2] == 'a' else 1}]]\n"
        elif k == "mset":
            s = f"{op[1]}[{lit(op[2])}] = {op[3]}\n"
        elif k == "mread":
            s = f"print {op[1]}[{lit(op[2])}]\n"
        elif k == "maddset":
            s = f"{op[1]}[{lit(op[2])}] += {op[3]}\n"
        elif k == "mreplace":
            s = f"print {op[1]}.replace({lit(op[2])}, {op[3]})\n"
        elif k == "mremove":
            s = f"print {op[1]}.remove({lit(op[2])})\n"
        elif k == "mcontains":
            s = f"print {op[1]}.contains_key({lit(op[2])})\n"
        elif k == "mlen":
            s = f"print {op[1]}.len()\n"
        elif k == "mkeys":
            s = f"print \"K\" + {op[1]}.keys().to_str()\n"
        elif k == "mvalues":
            s = f"print \"V\" + {op[1]}.values().to_str()\n"
        elif k == "mpairs":
            s = f"print \"P\" + {op[1]}.pairs().to_str()\n"
        elif k == "mclear":
            s = f"{op[1]}.clear()\n"
        elif k == "mclone":
            s = f"{op[1]} = {op[2]}.clone()\n"
        elif k == "mlit":
            s = f"{op[1]} = map[str, int] {{\"a\": 4, \"b\": 6}}\n"
        elif k == "x_mlit":
            s = f"m1 = map[str, int] {{\"a\": l1[{op[1]}], \"b\": 1}}\n"
        elif k == "x_mlit_fn":
            s = "m1 = map[str, int] {\"a\": el0()}\n"
        elif k == "x_mset":
            s = f"m1[{lit(op[1])}] = l1[{op[2]}]\n"
        elif k == "x_mreplace":
            s = f"print m1.replace({lit(op[1])}, l1[{op[2]}])\n"
        elif k == "x_llit":
            s = f"l2: [int...] = [l1[{op[1]}], 0]\n"
        elif k == "x_lmap":
            s = "l2 = l1.map(idf)\n"
        elif k == "x_lmap_ref":
            s = "l2 = l1.map(el0m)\n"           # a callback whose result is a read out of a container
        elif k == "x_filter_ref":
            s = "l2 = l1.filter(keepq)\n"
        elif k == "x_push":
            s = with_idx(op[1], f"l2.push(l1[{iv}])\n")
        elif k == "x_push_fn":
            s = "l2.push(el0())\n"
        elif k == "x_lset":
            s = f"l2[{op[1]}] = l1[{op[2]}]\n"
        elif k == "x_push_from_map":
            s = f"l2.push(get m1[{lit(op[1])}])\n"
        elif k == "x_lset_from_map":
            s = f"l1[{op[1]}] = get m1[{lit(op[2])}]\n"
        else:
            raise ValueError(op)
        return s + dump

    _MAPLINE = re.compile(r"^\{.*\}$")

    def canon_out(self, lines):
        out = []
        for l in lines:
            if self._MAPLINE.match(l):
                inner = l[1:-1]
                parts = sorted(p for p in inner.split(", ") if p)
                out.append("{" + ", ".join(parts) + "}")
            elif l[:2] in ("K[", "V["):
                inner = l[2:-1]
                parts = sorted((p for p in inner.split(", ") if p), key=lambda x: (len(x), x))
                out.append(l[:2] + ", ".join(parts) + "]")
            elif l[:2] == "P[":
                pairs = sorted(re.findall(r"\[[^\[\]]*\]", l[2:-1]))
                out.append("P[" + ", ".join(pairs) + "]")
            else:
                out.append(l)
        return out


class VariantModel(ListMapModel):
    """The same models rendered differently: `~const` writes non-negative list indices as literals (the compiler then knows the index),
    `~int` gives the maps int keys 1 / 2 instead of "a" / "b" (a constant numeric key on a map looks like a list index), `@fn` performs
    every operation inside a closure that refers to the containers as outer variables."""
    name = "lists-and-maps"
    VARIANTS = ["ints~const", "maps~int", "ints@fn", "ints~const@fn", "maps@fn", "maps~int@fn", "nested@fn", "strs@fn", "xfer@fn"]
    KEYS = {"a": "1", "b": "2"}

    def templates(self, tier):
        return ListMapModel.templates(self, tier) + self.VARIANTS

    def depth_of(self, tpl, depth):
        if tpl in ListMapModel.templates(self, ""):
            return depth
        return max(2, depth - (2 if "@fn" in tpl else 1))

    @staticmethod
    def base(tpl):
        return tpl.split("@")[0].split("~")[0]

    def _keys(self, tpl, lines):
        if "~int" not in tpl:
            return lines
        return [l.replace('"a"', "1").replace('"b"', "2") for l in lines]

    def init(self, tpl):
        return ListMapModel.init(self, self.base(tpl))

    def canon(self, tpl, st):
        return ListMapModel.canon(self, self.base(tpl), st)

    def ops(self, tpl, st):
        return ListMapModel.ops(self, self.base(tpl), st)

    def dump(self, tpl, st):
        return self._keys(tpl, ListMapModel.dump(self, self.base(tpl), st))

    def apply(self, tpl, st, op):
        obs, fail = ListMapModel.apply(self, self.base(tpl), st, op)
        return self._keys(tpl, obs), fail

    def prelude(self, tpl):
        p = ListMapModel.prelude(self, self.base(tpl))
        if "~int" in tpl:
            p = p.replace("map[str, int]", "map[int, int]").replace('"a"', "1").replace('"b"', "2").replace("kl: [str...]", "kl: [int...]")
        return p

    def op_src(self, tpl, op, k_):
        src = ListMapModel.op_src(self, self.base(tpl), op, k_)
        names = sorted(self.init(tpl))
        dump = "".join(f"print {n}\n" for n in names)
        assert src.endswith(dump)
        body = src[:len(src) - len(dump)]
        if "~int" in tpl:
            body = body.replace("map[str, int]", "map[int, int]").replace('"a"', "1").replace('"b"', "2")
        if "~const" in tpl:
            # `ixK = 2` + `... l1[ixK] ...`  ->  `... l1[2] ...` for non-negative indices
            m = re.match(r"^(ix\d+) = (\d+)\n", body)
            if m:
                body = re.sub(r"\b" + m.group(1) + r"\b", m.group(2), body[m.end():])
        if "@fn" in tpl and not re.match(r"^[a-z][a-z0-9]*(: [^=]+)? = ", body.split("\n")[-2] if body.count("\n") > 1 else body):
            # operations that re-bind a container variable stay at module level (a plain assignment inside a function would declare a local)
            inner = "".join("\t" + l + "\n" for l in body.rstrip("\n").split("\n"))
            body = f"w{k_} = fn() {{\n{inner}}}\nw{k_}()\n"
        return body + dump


class C13(EHistCheck):
    id = "C13"
    model = VariantModel()
    quick_depth = 4
    thorough_depth = 7
    chunksize = 16
    quick_cap_s = 300
    thorough_cap_s = 40 * 60
    rule = ("breadth-first search over operation histories on five container templates (int lists with an alias and an independent list; "
            "string lists; lists of optionals; nested lists with an aliased inner list; maps with an alias and an independent map); alphabet: "
            "push, remove / read / index assignment / op-assignment at indices {-1, 0, len-1, len}, reverse, clear, clone, re-aliasing, join (as a statement, with its result bound to a name, with a call chained onto its result), "
            "map, filter (also with callbacks that clear / shorten / extend the list being iterated), index_of, len, ==, to_str concatenation; maps: literal, read, index assignment, op-assignment, replace, remove, "
            "contains_key, len, keys, values, pairs, clear, clone; a sixth template TRANSFERS values between a list, a second list and a map by every form there is (map literal, list literal, "
            "index assignment, push, replace, map() with the identity, through a function that returns an element, out of a map entry into a list) and then writes the slot they came from.  Values in {0,1,2}, list length capped at 3 by the alphabet.  States are "
            "de-duplicated on the canonical model heap (entities renamed by first reachability, map entries sorted); every transition is "
            "executed on the real CLI along the shortest history reaching its source state, every step printing its result and all containers.  Eight variant "
            "templates repeat the search one level shallower with literal list indices, int-keyed maps (constant numeric keys) and with every operation "
            "performed inside a closure that refers to the containers as outer variables.")
    assumptions = ["map-derived output is compared as sorted multisets", "an out-of-range index / removal must stop the program (any non-zero exit)",
                   "clone is shallow (nested lists stay shared), as the language documents"]


# ---- scenarios outside the alphabet of the search: a map written through keys / values that are references INTO THE SAME MAP
SELFREF = {
    "key-read-out-of-the-same-map": (["m = map[int, int] {1: 2, 2: 3}", "m[m[1]] = 50", "print get m[2]", "print m.len()"], ["50", "2"]),
    "key-and-value-read-out-of-the-same-map": (["m = map[int, int] {1: 2, 2: 3}", "m[m[1]] = get m[1]", "print get m[2]", "print get m[1]"], ["2", "2"]),
    "op-assignment-with-a-key-read-out-of-the-same-map": (["m = map[int, int] {1: 2, 2: 3}", "m[m[1]] += 4", "print get m[2]", "print get m[1]"], ["7", "2"]),
    "value-read-out-of-the-same-map-new-key": (["m = map[int, int] {1: 2}", "m[5] = get m[1]", "m[1] = 9", "print get m[5]", "print m.len()"], ["2", "2"]),
    "replace-with-a-value-read-out-of-the-same-map": (["m = map[int, int] {1: 2, 2: 3}", "print m.replace(2, get m[1])", "print get m[2]"], ["3", "2"]),
    "list-element-written-with-an-element-of-the-same-list": (["l: [int...] = [1, 2, 3]", "l[0] = l[2]", "l[2] = 7", "print l"], ["[3, 2, 7]"]),
    # a present optional in the boxed form a built-in hands out is, as an element, indistinguishable from the plain value - also when the container is printed
    "boxed-string-element-prints-like-a-plain-one": (['bm = map[str, str] {"k": "v"}', 'ls: [str?...] = [bm.replace("k", "w")]', "print ls", 'lp: [str?...] = ["v"]', "print lp", "print ls == lp",
                                                     'print "<" + ls.to_str() + ">"'], ['["v"]', '["v"]', "true", '<["v"]>']),
    "boxed-string-value-of-a-map-prints-like-a-plain-one": (['bm = map[str, str] {"k": "v"}', 'mo = map[str, str?] {"a": bm.replace("k", "w")}', "print mo", 'sv: str? = "v"', 'mp = map[str, str?] {"a": sv}', "print mp"],
                                                            ['{"a": "v"}', '{"a": "v"}']),
    "list-pushed-with-its-own-element": (["l: [int...] = [1, 2]", "l.push(l[0])", "l[0] = 9", "print l"], ["[9, 2, 1]"]),
}


def _c13_layers(self, tier):
    return [("writes-through-references-into-the-same-container", [("selfref", n, h) for n in SELFREF for h in ("module", "fn")])] + EHistCheck.layers(self, tier)


def _c13_describe(self, case):
    if case[0] == "selfref":
        return {"scenario": case[1], "host": case[2]}
    return EHistCheck.describe(self, case)


def _c13_run_case(self, case):
    if case[0] != "selfref":
        return EHistCheck.run_case(self, case)
    from ..core import driver
    lines, exp = SELFREF[case[1]]
    src = "\n".join(lines if case[2] == "module" else ["host = fn() {"] + ["\t" + l for l in lines] + ["}", "host()"]) + "\n"
    res = driver.run_ms(src)
    if driver.compile_rejected(res):
        return {"outcome": "selfref-rejected", "nontrivial": False, "tags": ["selfref-rejected"], "show": res.out[-300:]}
    viol = []
    if res.exit != 0 or res.lines() != exp:
        viol.append({"sig": {"kind": "self-referential-write", "scenario": case[1], "host": case[2]},
                     "what": f"{case[1]} ({case[2]}): expected {exp}, got exit {res.exit} ({res.cls}) and {res.lines()} {res.err[-200:]}",
                     "detail": {"files": {"x.ms": src}, "res": res.brief(), "expected_lines": exp}})
    return {"outcome": "selfref-ok" + ("-DIFF" if viol else ""), "viol": viol, "nontrivial": True, "tags": ["selfref"]}


C13.layers = _c13_layers
C13.describe = _c13_describe
C13.run_case = _c13_run_case


def register_corpus(register):
    m = ListMapModel()
    hs = []
    for tpl in m.templates("quick"):
        st = m.init(tpl)
        ops = m.ops(tpl, st)
        hs.append((tpl, tuple(ops[:12])))

    def count(tier):
        return len(hs)

    def get(i):
        tpl, ops = hs[i]
        # independent operations one after the other; failing ones removed
        st = m.init(tpl)
        good = []
        for op in ops:
            st2 = m.clone(st)
            _, failed = m.apply(tpl, st2, op)
            if not failed:
                st = st2
                good.append(op)
        return {"x.ms": m.prelude(tpl) + "".join(m.op_src(tpl, op, k) for k, op in enumerate(good))}
    register("c13", count, get)
