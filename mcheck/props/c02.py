"""C02 — static typing is sound: accepted programs never hit a dynamic type error, and every non-nil
value observed at run time has the kind of the static type `typeof` reports.
(a) operator table  (b) compatibility relation x typed positions  (c) return-path analysis  (d) catalogue."""
import itertools
import re

from ..core import driver
from ..core.explore import Check
from ..lang import refint

PRELUDE = ("class C {\n\tv: int\n\tconstructor(self, v: int) {\n\t\tself.v = v\n\t}\n}\n"
           "type A int\n"
           "give = fn() -> int? {\n\treturn 7\n}\n")

# type representative -> (type text, value expression, H2 kinds the value may show)
TYPES = {
    "int": ("int", "6"),
    "bigint": ("bigint", "B7"),
    "float": ("float", "2.5"),
    "byte": ("byte", "0b11"),
    "bool": ("bool", "true"),
    "str": ("str", '"s"'),
    "list": ("[int...]", "[1, 2]"),
    "fixed": ("[int, str]", '[1, "a"]'),
    "map": ("map[str, int]", "map[str, int]"),
    "optint": ("int?", "5"),
    "optnil": ("int?", "nil"),
    "optboxed": ("int?", "give()"),
    "optstr": ("str?", '"o"'),
    "fn": ("fn() -> int", "fn() -> int {\n\treturn 1\n}"),
    "fn1i": ("fn(int) -> int", "fn(q: int) -> int {\n\treturn q + 1\n}"),
    "fn1s": ("fn(str) -> int", "fn(q: str) -> int {\n\treturn q.len()\n}"),
    "obj": ("C", "C(1)"),
    "alias": ("A", "3"),
}
OPS = ["+", "-", "*", "/", "%", "<", "<=", ">", ">=", "==", "!=", "&&", "||", "^", "&", "|", "xor", "<<", ">>", "is"]
OPASSIGN = ["+=", "-=", "*=", "/=", "%="]
UNARY = ["-", "!", "get", "typeof"]


def decl(name, t):
    ty, val = TYPES[t]
    const = "const " if t == "fixed" else ""
    return f"{const}{name}: {ty} = {val}\n"


def kind_ok(typeof_text, h2):
    """does the run-time kind tag `h2` fit the static type text?"""
    t = typeof_text.strip()
    h = h2
    if h.startswith("&"):
        h = h[1:]
    if h == "Nil":
        return True                      # nil is exempt
    if t.endswith("?"):
        inner = t[:-1]
        if h.startswith("Optional(") and h.endswith(")"):
            return kind_ok(inner, h[9:-1])
        return kind_ok(inner, h)
    if h.startswith("Optional("):
        return False
    base = {"int": "Int", "bigint": "BigInt", "float": "Float", "byte": "Byte", "bool": "Bool", "str": "Str", "A": "Int"}
    if t in base:
        return h == base[t]
    if t.startswith("map["):
        return h == "Map"
    if t.startswith("["):
        return h == "Vector"
    if t.startswith("fn"):
        return h in ("Function", "BuiltInFunction")
    if t in ("C", "Self") or re.fullmatch(r"[A-Z]\w*", t):
        return h == "Object"
    return None       # unknown type text: not judged


# (c) return-path skeletons -------------------------------------------------------------------------------------------
# body := leaf | if(c){B} | if(c){B}else{B} | if(c){B} else if(c){B} else {B} | while(c){B} | from{B} ; leaf := return | plain
def skeletons(depth):
    leaves = [("ret",), ("plain",)]
    if depth == 0:
        return leaves
    sub = skeletons(depth - 1)
    out = list(leaves)
    for a in sub:
        out.append(("if", a))
        out.append(("while", a))
        out.append(("from", a))
    for a, b in itertools.product(sub, sub):
        out.append(("ifelse", a, b))
    small = skeletons(0) if depth > 1 else sub
    for a, b, c in itertools.product(small, small, small):
        out.append(("elif", a, b, c))
    return out


def count_conds(s):
    k = s[0]
    if k in ("ret", "plain"):
        return 0
    if k in ("if", "while"):
        return 1 + count_conds(s[1])
    if k == "from":
        return count_conds(s[1])
    if k == "ifelse":
        return 1 + count_conds(s[1]) + count_conds(s[2])
    return 2 + sum(count_conds(x) for x in s[1:])


def skel_src(s, ind, cn, rn):
    p = "\t" * ind
    k = s[0]
    if k == "ret":
        rn[0] += 1
        return f"{p}return {rn[0]}\n"
    if k == "plain":
        return f"{p}acc = acc + 1\n"

    def cond():
        cn[0] += 1
        return cn[1][cn[0] - 1] if len(cn) > 1 else f"c{cn[0]}"
    if k == "if":
        return f"{p}if {cond()} {{\n{skel_src(s[1], ind + 1, cn, rn)}{p}}}\n"
    if k == "while":
        c = cond()
        return f"{p}wq = 0\n{p}while {c} && wq < 1 {{\n{p}\twq = wq + 1\n{skel_src(s[1], ind + 1, cn, rn)}{p}}}\n"
    if k == "from":
        return f"{p}from 0 to 1 {{\n{skel_src(s[1], ind + 1, cn, rn)}{p}}}\n"
    if k == "ifelse":
        return f"{p}if {cond()} {{\n{skel_src(s[1], ind + 1, cn, rn)}{p}}} else {{\n{skel_src(s[2], ind + 1, cn, rn)}{p}}}\n"
    if k == "elif":
        c1, c2 = cond(), cond()
        return (f"{p}if {c1} {{\n{skel_src(s[1], ind + 1, cn, rn)}{p}}} else if {c2} {{\n{skel_src(s[2], ind + 1, cn, rn)}{p}}} "
                f"else {{\n{skel_src(s[3], ind + 1, cn, rn)}{p}}}\n")
    raise ValueError(s)


LIT_CONDS = ["false", "true", "!true", "!false", "(1 > 2)", "(2 > 1)"]
DYNAMIC_TYPE_ERROR = "type-error"
# where the function whose return paths are analysed is written: a function value, a class method, a closure returned by a factory,
# a function nested in a void function
RET_FORMS = ["fn", "method", "closure", "nested-in-void"]

# (d) catalogue of boundary cases of the typing rules: values that reach a typed position through an element pointer,
# an optional box, a fixed-shape list, an alias, Self ... ; each entry: (name, body lines)
_PICK = ["pick = fn(l: [int...], i: int) -> int {", "\treturn l[i]", "}", "a: [int...] = [1, 2]"]
_SUM3 = ["sum3 = fn(l: [int...]) -> int {", "\treturn l[0] + l[2] - l[1]", "}"]
CATALOGUE = {
    "elemptr-in-list-literal-arg": _PICK + _SUM3 + ["print typeof sum3([7, pick(a, 1), 9])", "print sum3([7, pick(a, 1), 9])"],
    "elemptr-in-list-literal-var": _PICK + ["b: [int...] = [pick(a, 0), 5]", "print typeof (b[0] - b[1])", "print b[0] - b[1]"],
    "elemptr-in-map-literal": _PICK + ["mm = map[str, int] {\"k\": pick(a, 1)}", "w = get mm[\"k\"]", "print typeof (w + 1)", "print w + 1"],
    "elemptr-returned-twice": _PICK + ["again = fn() -> int {", "\treturn pick(a, 1)", "}", "print typeof (again() * 2)", "print again() * 2"],
    "elemptr-as-argument": _PICK + ["inc = fn(x: int) -> int {", "\treturn x + 1", "}", "print typeof inc(pick(a, 0))", "print inc(pick(a, 0))"],
    "elemptr-pushed": _PICK + ["b: [int...] = []", "b.push(pick(a, 1))", "a[1] = 7", "print typeof b[0]", "print b[0]"],
    "elemptr-in-nested-list": _PICK + ["nn: [[int...]...] = [[pick(a, 1)]]", "q0 = nn[0]", "print typeof (q0[0] + 1)", "print q0[0] + 1"],
    "elemptr-field-store": _PICK + ["oc = C(pick(a, 1))", "print typeof (oc.v + 1)", "print oc.v + 1"],
    "elemptr-str-concat": _PICK + ["print typeof (\"v\" + pick(a, 1))", "print \"v\" + pick(a, 1)"],
    "elemptr-compare": _PICK + ["print typeof (pick(a, 0) < pick(a, 1))", "print pick(a, 0) < pick(a, 1)"],
    "elemptr-map-value-returned": ["mv = map[str, int]", "mv[\"k\"] = 4", "gm = fn() -> int? {", "\treturn mv[\"k\"]", "}",
                                   "lst2: [int?...] = [gm(), nil]", "print typeof lst2[0]", "print lst2[0]"],
    "field-ptr-returned": ["oc = C(3)", "gf = fn() -> int {", "\treturn oc.v", "}", "lst3: [int...] = [gf(), 1]", "oc.v = 9",
                           "print typeof (lst3[0] - lst3[1])", "print lst3[0] - lst3[1]"],
    "boxed-optional-arith": ["bo = \"5\".parse_int()", "print typeof (bo + 1)", "print bo + 1"],
    "boxed-optional-compare": ["bo = \"5\".parse_int()", "print typeof (bo < 9)", "print bo < 9"],
    "boxed-optional-eq": ["bo = \"5\".parse_int()", "print typeof (bo == 5)", "print bo == 5"],
    "boxed-optional-index-of": ["hay: [int...] = [4, 5]", "io = hay.index_of(5)", "print typeof (io * 2)", "print io * 2"],
    "boxed-optional-in-list": ["bo = \"5\".parse_int()", "lo: [int?...] = [bo]", "print typeof lo[0]", "print lo[0]"],
    "boxed-optional-or": ["bo = \"x\".parse_int()", "print typeof ((bo) or 3)", "print (bo) or 3"],
    "boxed-optional-or-present": ["bo = \"5\".parse_int()", "print typeof ((bo) or 3)", "print (bo) or 3"],
    "boxed-optional-or-present-stored": ["bo = \"5\".parse_int()", "st = (bo) or 3", "print typeof st", "print st", "print typeof (st + 1)", "print st + 1"],
    "boxed-optional-or-direct": ["hay: [int...] = [4, 5]", "print typeof ((hay.index_of(5)) or 9)", "print (hay.index_of(5)) or 9"],
    "boxed-optional-or-as-map-key": ["hay: [int...] = [4, 5]", "mk2 = map[int, int] {(hay.index_of(5)) or 9: 1, 1: 2}", "print typeof mk2.len()", "print mk2.len()"],
    "boxed-optional-or-in-list": ["hay: [int...] = [4, 5]", "lo2: [int...] = [(hay.index_of(5)) or 9]", "print typeof lo2[0]", "print lo2[0]"],
    "boxed-optional-unwrap-into": ["uq: int? = nil", "if uq ?= \"5\".parse_int() {", "\tprint typeof (get uq)", "\tprint get uq", "}"],
    "boxed-optional-opassign-sub": ["bo = \"12\".parse_int()", "mm = 100", "mm -= bo", "print typeof mm", "print mm"],
    "boxed-optional-opassign-add-elem": ["bo = \"12\".parse_int()", "le: [int...] = [100]", "le[0] += bo", "print typeof le[0]", "print le[0]"],
    "boxed-optional-opassign-mul-field": ["bo = \"12\".parse_int()", "oc = C(3)", "oc.v *= bo", "print typeof oc.v", "print oc.v"],
    "boxed-optional-opassign-direct": ["mm = 100", "mm += \"12\".parse_int()", "print typeof mm", "print mm"],
    "boxed-optional-method": ["bo = \"5\".parse_int()", "print typeof bo.pow(2)", "print bo.pow(2)"],
    "boxed-optional-method-to-str": ["bo = \"5\".parse_int()", "print typeof bo.to_str()", "print bo.to_str()"],
    "boxed-optional-method-direct": ["print typeof \"5\".parse_int().abs()", "print \"5\".parse_int().abs()"],
    "boxed-optional-method-index-of": ["hay: [int...] = [4, 5]", "print typeof hay.index_of(5).to_float()", "print hay.index_of(5).to_float()"],
    "boxed-optional-bool-and": ["bb = \"true\".parse_bool()", "yes = fn() -> bool {", "\treturn true", "}", "print typeof (bb && yes())", "print bb && yes()"],
    "boxed-optional-bool-or": ["bb = \"false\".parse_bool()", "yes = fn() -> bool {", "\treturn true", "}", "print typeof (bb || yes())", "print bb || yes()"],
    "boxed-optional-bool-right": ["bb = \"true\".parse_bool()", "yes = fn() -> bool {", "\treturn true", "}", "print typeof (yes() && bb)", "print yes() && bb"],
    "boxed-optional-bool-xor": ["bb = \"true\".parse_bool()", "print typeof (bb ^ true)", "print bb ^ true"],
    "boxed-optional-get": ["bo = \"5\".parse_int()", "print typeof (get bo)", "print get bo"],
    "fixed-list-index-types": ["const fx = [1, \"a\", 2.5]", "print typeof fx[0]", "print fx[0]", "print typeof fx[1]", "print fx[1]"],
    "fixed-list-last": ["const fx = [1, \"a\", 2.5]", "print typeof fx[2]", "print fx[2]"],
    "unpack-types": ["[u1, u2] = [1, \"a\"]", "print typeof u1", "print u1", "print typeof u2", "print u2"],
    # (a line that starts with `[` continues the statement before it, so an unpacking statement is the first one of a block here)
    "unpack-single-name": ["if true {", "\t[u1] = [7]", "\tprint typeof u1", "\tprint u1", "}"],
    "unpack-single-name-str": ["if true {", "\t[u1] = [\"a\"]", "\tprint typeof u1", "\tprint u1", "\tprint typeof (u1 + \"b\")", "\tprint u1 + \"b\"", "}"],
    "unpack-single-name-trailing-comma": ["if true {", "\t[u1,] = [7]", "\tprint typeof u1", "\tprint u1", "}"],
    "unpack-three": ["[u1, u2, u3] = [1, \"a\", 2.5]", "print typeof u3", "print u3", "print typeof u1", "print u1"],
    "unpack-from-const": ["const fx = [1, \"a\"]", "[u1, u2] = fx", "print typeof u2", "print u2"],
    "unpack-single-from-const": ["const fx = [\"a\"]", "if true {", "\t[u1] = fx", "\tprint typeof u1", "\tprint u1", "}"],
    "str-index-assign": ["st = \"hello\"", "st[0] = \"a\"", "print typeof st", "print st"],
    "str-index-opassign": ["st = \"hello\"", "st[0] += \"a\"", "print typeof st", "print st"],
    "str-index-assign-in-fn": ["sf = fn(st: str) -> str {", "\tst[1] = \"z\"", "\treturn st", "}", "print typeof sf(\"ab\")", "print sf(\"ab\")"],
    "alias-of-class-fn-field": ["class A {", "\tf: fn(int) -> int", "\tconstructor(self) {", "\t\tself.f = fn(x: int) -> int {", "\t\t\treturn x + 1", "\t\t}", "\t}",
                                "\tfn m(self, y: int) -> int {", "\t\treturn y * 2", "\t}", "}", "type B A", "ab: B = A()", "print typeof ab.f(1)", "print ab.f(1)", "print typeof ab.m(4)", "print ab.m(4)"],
    "alias-of-alias-of-class-fn-field": ["class A {", "\tf: fn(int) -> int", "\tconstructor(self) {", "\t\tself.f = fn(x: int) -> int {", "\t\t\treturn x + 1", "\t\t}", "\t}", "}",
                                         "type B A", "type D B", "ad: D = A()", "print typeof ad.f(1)", "print ad.f(1)"],
    "optional-class-fn-field": ["class A {", "\tf: fn(int) -> int", "\tconstructor(self) {", "\t\tself.f = fn(x: int) -> int {", "\t\t\treturn x + 1", "\t\t}", "\t}", "}",
                                "oa: A? = A()", "ua = get oa", "print typeof ua.f(1)", "print ua.f(1)"],
    "param-alias-of-class-fn-field": ["class A {", "\tf: fn(int) -> int", "\tconstructor(self) {", "\t\tself.f = fn(x: int) -> int {", "\t\t\treturn x + 1", "\t\t}", "\t}", "}",
                                      "type B A", "use = fn(q: B) -> int {", "\treturn q.f(5)", "}", "print typeof use(A())", "print use(A())"],
    "wide-int-literal-operand": ["wv = 1", "print typeof (wv + 2147483648)", "print wv + 2147483648", "print typeof (4294967296 * wv)", "print 4294967296 * wv"],
    "wide-int-literal-argument": ["wf = fn(q: bigint) -> bigint {", "\treturn q + B1", "}", "wv = 1", "print typeof wf(wv + 2147483648)", "print wf(wv + 2147483648)"],
    "wide-int-literal-compared": ["wv = 1", "print typeof (wv < 2147483648)", "print wv < 2147483648"],
    "optional-class-eq-itself": ["oc1: C? = C(1)", "print typeof (oc1 == oc1)", "print oc1 == oc1"],
    "optional-class-eq-other": ["oc1: C? = C(1)", "oc2: C? = C(1)", "print typeof (oc1 != oc2)", "print oc1 != oc2"],
    "optional-class-eq-nil": ["oc1: C? = C(1)", "print typeof (oc1 == nil)", "print oc1 == nil"],
    "optional-fn-eq": ["of1: (fn() -> int)? = give", "print typeof (of1 == of1)", "print of1 == of1"],
    "optional-map-eq": ["om1: map[str, int]? = map[str, int]", "print typeof (om1 == om1)", "print om1 == om1"],
    "alias-negate": ["am: A = 4", "print typeof (-am)", "print -am"],
    "alias-negate-as-second-argument": ["am: A = 4", "ad2 = fn(p: int, q: int) -> int {", "\treturn p + q", "}", "print typeof ad2(1, -am)", "print ad2(1, -am)"],
    "alias-negate-float-in-list": ["type F float", "af: F = 1.5", "print typeof [0.5, -af]", "print [0.5, -af]"],
    "alias-arith": ["type M int", "am: M = 4", "print typeof (am * 2)", "print am * 2"],
    "self-returning-method": ["class S {", "\tn: int", "\tconstructor(self) {", "\t\tself.n = 1", "\t}", "\tfn me(self) -> Self {", "\t\treturn self",
                              "\t}", "}", "so = S()", "print typeof so.me().n", "print so.me().n"],
    "str-index-char": ["st = \"héllo\"", "print typeof st[1]", "print st[1]"],
    "int-div-float": ["print typeof (7 / 2.0)", "iv = 7", "fv = 2.0", "print iv / fv"],
    "byte-plus-int": ["by = 0b11", "print typeof (by + 1)", "print by + 1"],
    "map-missing-key": ["mk = map[str, int]", "print typeof mk[\"z\"]", "print mk[\"z\"]"],
    "list-of-fn": ["fa = fn() -> int {", "\treturn 1", "}", "lf: [fn() -> int...] = [fa]", "f0 = lf[0]", "print typeof f0()", "print f0()"],
    "from-float-counter": ["from 0.0 to 2.0 step 0.5, fc {", "\tprint typeof fc", "\tprint fc", "}"],
    "from-bigint-counter": ["from B0 to B2, bc {", "\tprint typeof bc", "\tprint bc", "}"],
    "from-byte-counter": ["from 0b0 to 0b10, yc {", "\tprint typeof yc", "\tprint yc", "}"],
    "from-int-float-step": ["from 0 to 2 step 0.5, sc {", "\tprint typeof sc", "\tprint sc", "}"],
    "from-float-bound-int-start": ["from 0 to 1.5, mc {", "\tprint typeof mc", "\tprint mc", "}"],
    "fn-value-called": ["hf = fn(g: fn(int) -> int) -> int {", "\treturn g(2)", "}", "dbl = fn(x: int) -> int {", "\treturn x * 2", "}",
                        "print typeof hf(dbl)", "print hf(dbl)"],
    "fixed-list-as-param": ["tk = fn(q: [int, str]) -> str {", "\treturn q[1]", "}", "const fq = [1, \"a\"]", "print typeof tk(fq)", "print tk(fq)"],
    "optional-field-nil": ["class O {", "\tf: int?", "\tconstructor(self) {", "\t\tself.f = nil", "\t}", "}", "oo = O()", "print typeof oo.f", "print oo.f"],
}

# results of the built-in methods: typeof of the call vs the kind of what it returns, for every numeric method on three receivers of every kind with every
# argument of C14's tables, and every string method on four receivers (the cells are C14's; C14 judges the VALUE, this layer the KIND against typeof)
def _builtin_result_entries():
    from . import c14
    chk = c14.C14()
    seen_n, out = {}, {}
    for k, v, m, a, expr, e in c14.num_cases():
        if v != v or v in (float("inf"), float("-inf")) or e is c14.Undefined:
            continue          # (cells outside a method's domain must fail - C14 judges that; this layer looks at the kind of what IS returned)
        key = (k, m)
        seen_n.setdefault(key, [])
        if v not in seen_n[key] and len(seen_n[key]) >= 3:
            continue
        if v not in seen_n[key]:
            seen_n[key].append(v)
        lines, ex, _ = chk.cell_lines(("n", k, v, m, a))
        out[f"builtin-result-{k}-{v!r}-{m}-{a}"] = lines[:-2] + [f"print typeof ({ex})", f"print {ex}"]
    for srecv in ("", "a", "héllo", "12"):
        for s_, m, a, expr, e in c14.str_cases():
            if s_ != srecv or "@" in m or e is c14.Undefined:
                continue
            lines, ex, _ = chk.cell_lines(("s", s_, m, a))
            out[f"builtin-result-str-{s_!r}-{m}-{a}"] = lines[:-2] + [f"print typeof ({ex})", f"print {ex}"]
    return out


BUILTIN_RESULTS = _builtin_result_entries()
CATALOGUE.update(BUILTIN_RESULTS)

# from-loops over every combination of numeric kinds: start x end x step (absent, or of a kind) x counter (fresh, or an existing variable of a kind),
# observed in the first iteration (before any step was added), after a break in the first iteration and after a loop whose range is empty
_FK = {"int": ("0", "2", "1", "7"), "bigint": ("B0", "B2", "B1", "B7"), "float": ("0.0", "2.0", "0.5", "9.5"), "byte": ("0b0", "0b10", "0b1", "0b111")}
for _sk in _FK:
    for _ek in _FK:
        for _tk in [None] + list(_FK):
            for _ck in [None] + list(_FK):
                _hdr = f"from {_FK[_sk][0]} to {_FK[_ek][1]}" + (f" step {_FK[_tk][2]}" if _tk else "") + ", lc"
                _emp = f"from {_FK[_sk][1]} to {_FK[_ek][0]}" + (f" step {_FK[_tk][2]}" if _tk else "") + ", lc"
                _decl = [f"lc: {_ck} = {_FK[_ck][3]}"] if _ck else []
                _after = ["print typeof lc", "print lc"] if _ck else []
                _nm = f"from-kinds-{_sk}-{_ek}-{_tk or 'nostep'}-{_ck or 'fresh'}"
                CATALOGUE[_nm + "-first"] = _decl + [_hdr + " {", "\tprint typeof lc", "\tprint lc", "}"] + _after
                CATALOGUE[_nm + "-break"] = _decl + [_hdr + " {", "\tbreak", "}"] + _after if _ck else _decl + [_hdr + " {", "\tprint typeof lc", "\tprint lc", "\tbreak", "}"]
                if _ck:
                    CATALOGUE[_nm + "-empty"] = _decl + [_emp + " {", "\tprint 1", "}"] + _after

# fixed-shape lists x every list method: the per-position element types are a promise of the compiler, so a method either is refused
# on such a list or leaves every position holding a value of its declared kind (asymmetric shapes, so that any permutation shows)
_FX_SHAPES = {"isf": '[1, "a", 2.5]', "is": '[1, "a"]', "si": '["a", 1]', "ibs": '[1, true, "z"]'}
_FX_CALLS = {"len": "fx.len()", "inner_capacity": "fx.inner_capacity()", "ensure_inner_capacity": "fx.ensure_inner_capacity(8)", "to_str": "fx.to_str()",
             "clone": "fx.clone()", "reverse": "fx.reverse()", "remove": "fx.remove(0)", "push-int": "fx.push(9)", "push-str": 'fx.push("q")',
             "join": "fx.join([9])", "join-self": "fx.join(fx)", "map": "fx.map(fn(e: int) -> int {\n\treturn e\n})",
             "filter": "fx.filter(fn(e: int) -> bool {\n\treturn true\n})", "index_of": "fx.index_of(1)",
             "clone-reverse": "fc = fx.clone()\nfc.reverse()", "alias-reverse": "fa = fx\nfa.reverse()",
             "param-reverse": "rv = fn(q: [int, str]) {\n\tq.reverse()\n}\nrv(fx)"}
for _sn, _lit in _FX_SHAPES.items():
    _n = _lit.count(",") + 1
    for _cn, _call in _FX_CALLS.items():
        if _cn == "param-reverse" and _sn != "is":
            continue
        _obs = []
        for _i in range(_n):
            _obs += [f"print typeof fx[{_i}]", f"print fx[{_i}]"]
        CATALOGUE[f"fixed-{_sn}-method-{_cn}"] = [f"const fx = {_lit}"] + _call.split("\n") + _obs

# chained indexing through containers of different kinds: every (outer, inner) pair of {open list, map, str} x {read, store, op-assignment} x
# {literal, variable} indices; the instruction chosen for each step of `c[i][j]` must fit the container that step really indexes
_CH_DECL = {
    ("map", "list"): ('cc = map[str, [int...]] {"a": [1, 2, 3], "b": [4]}', '"a"', "1", "k1 = \"a\"", "k2 = 1"),
    ("list", "map"): ('cc: [map[str, int]...] = [map[str, int] {"x": 7}, map[str, int] {"x": 9}]', "1", '"x"', "k1 = 1", 'k2 = "x"'),
    ("map", "str"): ('cc = map[int, str] {1: "hello"}', "1", "1", "k1 = 1", "k2 = 1"),
    ("list", "str"): ('cc: [str...] = ["hello", "abc"]', "1", "2", "k1 = 1", "k2 = 2"),
    ("list", "list"): ("cc: [[int...]...] = [[1, 2], [3, 4, 5]]", "1", "2", "k1 = 1", "k2 = 2"),
    ("map", "map"): ('cc = map[str, map[str, int]] {"o": map[str, int] {"i": 5}}', '"o"', '"i"', 'k1 = "o"', 'k2 = "i"'),
    ("map-int", "list"): ("cc = map[int, [int...]] {0: [1, 2, 3], 1: [4]}", "0", "1", "k1 = 0", "k2 = 1"),
    ("list", "map-int"): ("cc: [map[int, int]...] = [map[int, int] {0: 7}, map[int, int] {1: 9}]", "1", "1", "k1 = 1", "k2 = 1"),
}
for (_o, _i), (_decl, _a, _b, _va, _vb) in _CH_DECL.items():
    for _form, (_x, _y, _pre) in {"lit": (_a, _b, []), "var": ("k1", "k2", [_va, _vb]), "mixed": (_a, "k2", [_vb])}.items():
        _e = f"cc[{_x}][{_y}]"
        CATALOGUE[f"chain-{_o}-of-{_i}-read-{_form}"] = [_decl] + _pre + [f"print typeof {_e}", f"print {_e}"]
        CATALOGUE[f"chain-{_o}-of-{_i}-operand-{_form}"] = [_decl] + _pre + [f"w = {_e}", "print typeof w", "print w", f"print typeof [{_e}]", f"print [{_e}]"]
        if _i != "str":
            CATALOGUE[f"chain-{_o}-of-{_i}-store-{_form}"] = [_decl] + _pre + [f"{_e} = 50", f"print typeof {_e}", f"print {_e}", "print typeof cc", "print cc"]
            CATALOGUE[f"chain-{_o}-of-{_i}-opassign-{_form}"] = [_decl] + _pre + [f"{_e} += 50", f"print typeof {_e}", f"print {_e}", "print typeof cc", "print cc"]
# a three-step chain that changes kind twice
CATALOGUE["chain-list-of-map-of-list"] = ['c3: [map[str, [int...]]...] = [map[str, [int...]] {"a": [1, 2]}]', 'print typeof c3[0]["a"][1]', 'print c3[0]["a"][1]',
                                          'c3[0]["a"][1] = 8', 'print typeof c3[0]["a"][1]', 'print c3[0]["a"][1]']
CATALOGUE["chain-map-of-list-of-map"] = ['c4 = map[str, [map[str, int]...]] {"a": [map[str, int] {"x": 3}]}', 'print typeof c4["a"][0]["x"]', 'print c4["a"][0]["x"]']


# consumer positions x carriers: every syntactic position that consumes a value (the catalogue of C07's capture sites) fed with an
# operand that reaches it through a container - a list element (variable / literal index), an object field, an element of a nested
# list, an unwrapped optional.  The operand then arrives as a reference into the container; a statically accepted program must run
# exactly as the reference interpreter says (no "can only test booleans", no operand mutated in place).
def _V(n):
    return ("var", n)


def _I(n):
    return ("int", n)


CONSUMER_CARRIERS = {
    "element-var-index": (("index", _V("le"), _V("zi")), ("index", _V("lb"), _V("zi"))),
    "element-lit-index": (("index", _V("le"), _I(1)), ("index", _V("lb"), _I(1))),
    "field": (("field", _V("ob"), "f"), ("field", _V("ob"), "g")),
    "nested-element": (("index", ("index", _V("ln"), _I(0)), _V("zi")), ("index", ("index", _V("lnb"), _I(0)), _V("zi"))),
    "optional": (("get", _V("oi")), ("get", _V("obl"))),
    "map-value": (("get", ("index", _V("mi"), ("str", "k"))), ("get", ("index", _V("mb"), ("str", "k")))),
    "field-list-element": (("index", ("field", _V("ob"), "l"), _V("zi")), ("index", ("field", _V("ob"), "lb"), _V("zi"))),
    "call-result-element": (("index", ("call", _V("mkl"), []), _V("zi")), ("index", ("call", _V("mklb"), []), _V("zi"))),
    "variable": (_V("pv"), _V("pb")),
}
_CONSUMER_SKIP = {"modify", "modify-in-if", "modify-in-loop", "local-shadow", "self-assign", "self-assign-in-if", "selfcall-arg"}


def _snapshots():
    """a number / bool read out of a container is a VALUE: changing the container afterwards must not change what was read"""
    A = lambda n, e, t=None: ("assign", n, e, t, ())
    le_zi, ob_f, ob_g = ("index", _V("le"), _V("zi")), ("field", _V("ob"), "f"), ("field", _V("ob"), "g")
    setle = ("setindex", _V("le"), _V("zi"), _I(9))
    setf = ("setfield", _V("ob"), "f", _I(9))
    setg = ("setfield", _V("ob"), "g", ("bool", False))
    ret_t = ("return", _V("t"))
    idf = ("fn", [("q", "int")], "int", [("return", _V("q"))])
    return {
        "snap-element-assign": [A("t", le_zi), setle, ret_t],
        "snap-element-typed-assign": [A("t", le_zi, "int"), setle, ret_t],
        "snap-field-assign": [A("t", ob_f), setf, ret_t],
        "snap-bool-field-assign": [A("tb", ob_g), setg, ("if", _V("tb"), [("return", _I(1))], None), ("return", _I(0))],
        "snap-element-in-list": [A("l2", ("list", [le_zi, _I(0)]), "[int...]"), setle, ("return", ("index", _V("l2"), _I(0)))],
        "snap-element-pushed": [A("l2", ("list", []), "[int...]"), ("expr", ("method", _V("l2"), "push", [le_zi])), setle, ("return", ("index", _V("l2"), _I(0)))],
        "snap-field-pushed": [A("l2", ("list", []), "[int...]"), ("expr", ("method", _V("l2"), "push", [ob_f])), setf, ("return", ("index", _V("l2"), _I(0)))],
        "snap-element-through-fn": [A("idf", idf), A("t", ("call", _V("idf"), [le_zi])), setle, ret_t],
        "snap-field-into-field": [A("o2", ("new", "Ob", [])), ("setfield", _V("o2"), "f", ob_f), setf, ("return", ("field", _V("o2"), "f"))],
        "snap-element-into-element": [A("l2", ("list", [_I(0), _I(0)]), "[int...]"), ("setindex", _V("l2"), _I(0), le_zi), setle, ("return", ("index", _V("l2"), _I(0)))],
        "snap-element-opassign": [A("t", _I(0)), ("opassign", _V("t"), "+=", le_zi), setle, ret_t],
        "snap-element-arith": [A("t", ("bin", "+", le_zi, _I(0))), setle, ret_t],
        "snap-element-map-value": [A("m", ("maplit", "str", "int", [(("str", "k"), le_zi)])), setle, ("return", ("get", ("index", _V("m"), ("str", "k"))))],
        "snap-element-optional": [A("oq", le_zi, "int?"), setle, ("return", ("get", _V("oq")))],
        "snap-element-or": [A("t", ("or", _V("on"), le_zi)), setle, ret_t],
        "snap-field-self-update": [("setfield", _V("ob"), "f", ("bin", "+", ob_f, ob_f)), ("return", ob_f)],
        "snap-element-self-update": [("setindex", _V("le"), _V("zi"), ("bin", "*", le_zi, le_zi)), ("return", le_zi)],
        "snap-swap-elements": [A("t", ("index", _V("le"), _I(0))), ("setindex", _V("le"), _I(0), le_zi), ("setindex", _V("le"), _V("zi"), _V("t")),
                               ("return", ("bin", "-", ("index", _V("le"), _I(0)), le_zi))],
    }


def consumer_sites():
    from . import c07
    return [k for k in c07.site_bodies() if k not in _CONSUMER_SKIP] + list(_snapshots())


def consumer_program(site, carrier, host):
    from . import c07
    ci, cb = CONSUMER_CARRIERS[carrier]
    body = _snapshots()[site] if site.startswith("snap-") else c07.site_bodies(cv=ci, cb=cb)[site]
    A = lambda n, e, t=None: ("assign", n, e, t, ())
    pre = [("class", "Ob", [("f", "int"), ("g", "bool"), ("l", "[int...]"), ("lb", "[bool...]")],
            ([], [("setfield", _V("self"), "f", _I(2)), ("setfield", _V("self"), "g", ("bool", True)),
                  ("setfield", _V("self"), "l", ("list", [_I(7), _I(2)])), ("setfield", _V("self"), "lb", ("list", [("bool", False), ("bool", True)]))]), []),
           A("mi", ("maplit", "str", "int", [(("str", "k"), _I(2))])), A("mb", ("maplit", "str", "bool", [(("str", "k"), ("bool", True))])),
           A("mkl", ("fn", [], "[int...]", [("return", ("list", [_I(7), _I(2)]))])), A("mklb", ("fn", [], "[bool...]", [("return", ("list", [("bool", False), ("bool", True)]))])),
           A("le", ("list", [_I(7), _I(2)]), "[int...]"), A("lb", ("list", [("bool", False), ("bool", True)]), "[bool...]"), A("zi", _I(1)),
           A("ob", ("new", "Ob", [])), A("ln", ("list", [("list", [_I(7), _I(2)])]), "[[int...]...]"),
           A("lnb", ("list", [("list", [("bool", False), ("bool", True)])]), "[[bool...]...]"),
           A("oi", _I(2), "int?"), A("obl", ("bool", True), "bool?"), A("on", ("nil",), "int?"), A("pv", _I(2)), A("pb", ("bool", True)),
           A("lc", ("list", [_I(1), _I(7)]), "[int...]"), A("cs", ("str", "ab")),
           A("cf", ("fn", [("q", "int")], "int", [("return", ("bin", "+", _V("q"), _I(1)))]))]
    obs = [("print", _V("le")), ("print", _V("lb")), ("print", ("field", _V("ob"), "f")), ("print", ("field", _V("ob"), "g")), ("print", _V("ln")), ("print", _V("lnb")),
           ("print", _V("lc"))]
    if host == "fn":
        # operands and consumer inside one function
        return [pre[0], A("run", ("fn", [], "int", pre[1:] + body)), ("print", ("call", _V("run"), []))]
    # (an index variable has to be a local of the function that indexes: the language refuses `l[v]` for a captured v)
    pre = [x for x in pre if not (x[0] == "assign" and x[1] == "zi")]
    return pre + [A("run", ("fn", [], "int", [A("zi", _I(1))] + body)), ("print", ("call", _V("run"), []))] + obs


class C02(Check):
    id = "C02"
    level = "exploration"
    rule = ("(a) operator table: every cell (op in 20 binary operators, 5 op-assignments, ?=, 4 unary operators) x (T1, T2) over 18 type "
            "representatives (int, bigint, float, byte, bool, str, open list, fixed-shape list, map, int? present / nil / boxed by a function, "
            "str?, function, class, alias); (b) compatibility: every (expected type, supplied type) pair x 8 typed positions (annotated "
            "initialiser, re-assignment, argument, return value, pushed list element, map value, field assignment, `or` fallback); "
            "(c) return-path analysis: every function-body skeleton of depth <= 2 over {if, if/else, else-if, while, from} with return / "
            "no-return leaves, written as a function value, a class method, a closure returned by a factory and a function nested in a void function; "
            ""
            "no-return leaves; every accepted skeleton is called with all condition vectors and its result stored and printed; (d) a catalogue "
            "of boundary cases (values reaching a typed position through an element / field pointer, a boxed optional, a fixed-shape list, "
            "unpacking, an alias, Self); (e) depth-2 operator trees (x op1 y) op2 z and z op2 (x op1 y) over 6 typed variables of the four numeric kinds "
            "and 13 operators (every 11th in the quick tier): the static type of the tree must fit the kind of its value.  The "
            "compiler's own verdict partitions the space; only accepted programs are judged.  Non-trivial = accepted by the compiler.")
    assumptions = ["failure classes of DESIGN Appendix A: assert, nil, range, zero divisor, overflow, conversion, stack are the defined "
                   "dynamic failures; anything else is a dynamic type error", "run-time kinds observed through hook H2"]
    chunksize = 32

    TREE_LEAVES = [("int", 1), ("bigint", 2 ** 63), ("byte", 255), ("float", 1.5), ("int", 2147483647), ("byte", 2)]
    TREE_OPS = ["+", "-", "*", "/", "%", "<<", ">>", "&", "|", "xor", "<", "==", "!="]

    def tree_cases(self):
        """depth-2 operator trees over typed variables: (x op1 y) op2 z and z op2 (x op1 y); the static type of the whole tree
        must fit the kind of the value it yields"""
        out = []
        L = range(len(self.TREE_LEAVES))
        for o1 in self.TREE_OPS[:10]:
            for o2 in self.TREE_OPS:
                for a in L:
                    for b in L:
                        for c in L:
                            out.append(("tree", o1, o2, a, b, c, 0))
                            out.append(("tree", o1, o2, a, b, c, 1))
        return out

    def layers(self, tier):
        ts = list(TYPES)
        a = [("op", op, t1, t2) for op in OPS + OPASSIGN + ["?="] for t1 in ts for t2 in ts]
        u = [("un", op, t1) for op in UNARY for t1 in ts]
        b = [("compat", pos, t1, t2) for pos in ("init", "reassign", "arg", "ret", "push", "mapval", "field", "or")
             for t1 in ts for t2 in ts]
        c1 = [("ret", i, form) for form in RET_FORMS for i in range(len(skeletons(1)))]
        d = [("cat", name) for name in CATALOGUE if name not in BUILTIN_RESULTS]
        bres = [("cat", name) for name in BUILTIN_RESULTS]
        tr = self.tree_cases()
        ls = [("Ld-catalogue", d), ("Lk-results-of-built-in-methods-typeof-vs-kind", bres), ("La-unary", u), ("La-operator-table", a), ("La2-operator-table-inside-a-function", [c + ("@fn",) for c in u + a]),
              ("Lb-compatibility", b), ("Lb2-compatibility-inside-a-function", [c + ("@fn",) for c in b]),
              ("Lb3-re-assignment-from-a-nested-block-of-a-function", [c + ("@fnblk",) for c in b if c[1] == "reassign"]),
              ("Lc-return-paths-depth1", c1),
              ("Le-depth2-operator-trees-typeof-vs-kind" + ("-every-11th" if tier == "quick" else ""), tr[::11] if tier == "quick" else tr)]
        ls.append(("Lx-consumer-positions-x-carriers", [("cons", st, car, host) for st in consumer_sites() for car in (CONSUMER_CARRIERS if not st.startswith("snap-") else ["variable"])
                                                              for host in ("closure", "fn")]))
        clit = [("ret", i, form, v) for form in ("fn", "method") for i, s in enumerate(skeletons(1)) if count_conds(s) >= 1 for v in range(len(LIT_CONDS))] + \
               [("ret2", i, "fn", v) for i, s in enumerate(skeletons(2)) if 1 <= count_conds(s) <= 4 for v in range(len(LIT_CONDS))][::(7 if tier == "quick" else 1)]
        ls.append(("Lc-return-paths-with-literal-conditions", clit))
        c2 = [("ret2", i, form) for form in RET_FORMS for i, s in enumerate(skeletons(2)) if count_conds(s) <= 4]
        if tier == "quick":
            c2 = c2[::9]
            ls.append(("Lc-return-paths-depth2-every-9th", c2))
        else:
            ls.append(("Lc-return-paths-depth2", c2))
        return ls

    def describe(self, case):
        return {"case": list(case)}

    def source(self, case):
        if case[-1] == "@fnblk":
            # re-assignment from inside a nested block of a function, the variable being declared at the function's top level
            _, pos, t1, t2 = case[:-1]
            use = {"fn": "print x()\n", "fn1i": "print x(3)\n", "fn1s": "print x(\"abc\")\n"}.get(t1, "")
            inner = decl("src", t2) + decl("x", t1) + "if true {\n\tx = src\n}\nprint typeof x\nprint x\n" + use
            return PRELUDE + "cell = fn() {\n" + "".join("\t" + l + "\n" for l in inner.rstrip("\n").split("\n")) + "}\ncell()\n", 1
        if case[-1] == "@fn":
            # the same cell with the operand declarations and the operation inside one function body
            src, n = self.source(case[:-1])
            assert src.startswith(PRELUDE)
            rest = src[len(PRELUDE):]
            return PRELUDE + "cell = fn() {\n" + "".join("\t" + l + "\n" for l in rest.rstrip("\n").split("\n")) + "}\ncell()\n", n
        k = case[0]
        if k == "op":
            _, op, t1, t2 = case
            s = PRELUDE + decl("a", t1) + decl("b", t2)
            if op in OPASSIGN:
                return s + f"a {op} b\nprint typeof a\nprint a\n", 1
            if op == "?=":
                return s + f"print typeof (a ?= b)\nok = a ?= b\nprint ok\nprint typeof a\nprint a\n", 2
            return s + f"print typeof (a {op} b)\nprint a {op} b\n", 1
        if k == "un":
            _, op, t1 = case
            s = PRELUDE + decl("a", t1)
            if op == "typeof":
                return s + "print typeof a\nprint a\n", 1
            sp = " " if op == "get" else ""
            return s + f"print typeof ({op}{sp}a)\nprint {op}{sp}a\n", 1
        if k == "compat":
            _, pos, t1, t2 = case
            ty1 = TYPES[t1][0]
            s = PRELUDE + decl("src", t2)
            # a function-typed position is also exercised: the value is called with an argument of the expected parameter type
            use = {"fn": "print {v}()\n", "fn1i": "print {v}(3)\n", "fn1s": "print {v}(\"abc\")\n"}.get(t1, "")
            if pos == "init":
                return s + f"x: {ty1} = src\nprint typeof x\nprint x\n" + use.format(v="x"), 1
            if pos == "reassign":
                return s + decl("x", t1) + "x = src\nprint typeof x\nprint x\n" + use.format(v="x"), 1
            if pos == "arg":
                return s + f"f = fn(p: {ty1}) -> {ty1} {{\n\treturn p\n}}\nr = f(src)\nprint typeof r\nprint r\n" + use.format(v="r"), 1
            if pos == "ret":
                return s + f"f = fn() -> {ty1} {{\n\treturn src\n}}\nr = f()\nprint typeof r\nprint r\n" + use.format(v="r"), 1
            if pos == "push":
                return s + f"l: [{ty1}...] = []\nl.push(src)\nprint typeof l[0]\nprint l[0]\n", 1
            if pos == "mapval":
                return s + f"m = map[str, {ty1}]\nm[\"k\"] = src\nr = m[\"k\"]\nprint typeof r\nprint r\n", 1
            if pos == "field":
                return s + (f"class H {{\n\tf: {ty1}\n\tconstructor(self, v: {ty1}) {{\n\t\tself.f = v\n\t}}\n}}\n" +
                            decl("init", t1).replace("const ", "") + "h = H(init)\nh.f = src\nprint typeof h.f\nprint h.f\n" + use.format(v="h.f")), 1
            if pos == "or":
                return s + decl("x", t1) + "r = (x) or src\nprint typeof r\nprint r\n", 1
        if k == "tree":
            from ..lang import numeric as N_
            _, o1, o2, a, b, c, right = case
            (ka, va), (kb, vb), (kc, vc) = self.TREE_LEAVES[a], self.TREE_LEAVES[b], self.TREE_LEAVES[c]
            lines = N_.construct(ka, va, "x", "zx") + N_.construct(kb, vb, "y", "zy") + N_.construct(kc, vc, "z", "zz")
            e = f"z {o2} (x {o1} y)" if right else f"(x {o1} y) {o2} z"
            return "\n".join(lines) + f"\nprint typeof ({e})\nprint {e}\n", 1
        if k == "cat":
            return PRELUDE + "\n".join(CATALOGUE[case[1]]) + "\n", 9
        if k in ("ret", "ret2"):
            sk = skeletons(1 if k == "ret" else 2)[case[1]]
            n = count_conds(sk)
            cn, rn = [0], [0]
            params = ", ".join(f"c{i + 1}: bool" for i in range(n))
            form = case[2] if len(case) > 2 else "fn"
            callee = "f"
            if len(case) > 3:
                # conditions that are LITERALS (which the compiler may fold) and constant comparisons instead of parameters: variant v puts LIT_CONDS[(v + j) % 6] at condition j
                cn = [0, [LIT_CONDS[(case[3] + j) % len(LIT_CONDS)] for j in range(n)]]
                body = skel_src(sk, 1, cn, rn)
                if form == "method":
                    return f"class RK {{\n\tconstructor(self) {{}}\n\tfn f(self) -> int {{\n\t\tacc = 0\n{skel_src(sk, 2, [0, cn[1]], [0])}\t}}\n}}\nrk = RK()\nr = rk.f()\nprint r\n", 0
                return f"f = fn() -> int {{\n\tacc = 0\n{body}}}\nr = f()\nprint r\n", 0
            if form == "fn":
                body = skel_src(sk, 1, cn, rn)
                s = f"f = fn({params}) -> int {{\n\tacc = 0\n{body}}}\n"
            elif form == "method":
                body = skel_src(sk, 2, cn, rn)
                sp = "self" + (", " + params if params else "")
                s = f"class RK {{\n\tconstructor(self) {{}}\n\tfn f({sp}) -> int {{\n\t\tacc = 0\n{body}\t}}\n}}\nrk = RK()\n"
                callee = "rk.f"
            elif form == "closure":
                body = skel_src(sk, 2, cn, rn)
                ft = "fn(" + ", ".join("bool" for _ in range(n)) + ") -> int"
                s = f"mk = fn() -> {ft} {{\n\tbase = 0\n\treturn fn({params}) -> int {{\n\t\tacc = base\n{body}\t}}\n}}\nf = mk()\n"
            elif form == "nested-in-void":
                body = skel_src(sk, 2, cn, rn)
                s = f"outer = fn() {{\n\tf = fn({params}) -> int {{\n\t\tacc = 0\n{body}\t}}\n"
                for vec in itertools.product(("true", "false"), repeat=n):
                    s += f"\tr = f({', '.join(vec)})\n\tprint r\n"
                return s + "}\nouter()\n", 0
            else:
                raise ValueError(form)
            for vec in itertools.product(("true", "false"), repeat=n):
                s += f"r = {callee}({', '.join(vec)})\nprint r\n"
            return s, 0
        raise ValueError(case)

    def run_consumer(self, case):
        _, site, car, host = case
        ast = consumer_program(site, car, host)
        it = refint.Interp()
        try:
            ok, failure = it.run(ast)
            src = refint.program(ast)
        except Exception as e:           # the model cannot express this pair: not a verdict
            return {"outcome": "model-inexpressible", "nontrivial": False, "tags": ["cons-inexpressible"], "show": repr(e)[:200]}
        res = driver.run_ms(src)
        if driver.compile_rejected(res):
            return {"outcome": "rejected", "nontrivial": False, "tags": ["rejected", "cons", "cons-rejected:" + site + "/" + car]}
        viol = []
        detail = {"files": {"x.ms": src}, "res": res.brief(), "expected_lines": it.out, "expected_ok": ok}
        sig = {"group": "cons", "site": site, "carrier": car}
        if res.cls in ("panic", "abort") and "compiler/src" in res.err:
            return {"outcome": "compiler-panic", "nontrivial": False, "tags": ["compiler-panic", "cons"]}
        if ok and res.exit != 0:
            cls = driver.classify_failure(res)
            msg = driver.innermost_message(res) or res.err[-150:]
            viol.append({"sig": dict(sig, kind="dynamic-type-error" if cls == DYNAMIC_TYPE_ERROR else "unexpected-failure"),
                         "what": f"{list(case)}: accepted by the compiler, fails at run time ({cls}): {msg[:160]}", "detail": detail})
        elif ok and res.lines() != it.out:
            viol.append({"sig": dict(sig, kind="wrong-result"), "what": f"{list(case)}: expected {it.out}, got {res.lines()}", "detail": detail})
        elif not ok and res.exit == 0:
            viol.append({"sig": dict(sig, kind="missing-failure"), "what": f"{list(case)}: the model fails ({failure.kind}), the program ran to the end", "detail": detail})
        return {"outcome": ("cons-ok" if res.exit == 0 else "cons-fail") + ("-VIOL" if viol else ""), "viol": viol, "nontrivial": True,
                "tags": ["cons", "acc-cons", "car-" + car]}

    def run_case(self, case):
        if case[0] == "cons":
            return self.run_consumer(case)
        src, npairs = self.source(case)
        res = driver.run_ms(src, env={"MSCRIPT_VERIF_TYPED_PRINT": "1"})
        if driver.compile_rejected(res):
            return {"outcome": "rejected", "nontrivial": False, "tags": ["rejected", case[0]]}
        viol = []
        detail = {"files": {"x.ms": src}, "res": res.brief()}
        kind0 = case[0]
        desc = {"group": kind0, "op": str(case[1]), "t1": str(case[2]) if len(case) > 2 else "", "t2": str(case[3]) if len(case) > 3 else ""}

        def bad(kind, what):
            sig = {"kind": kind}
            sig.update(desc)
            viol.append({"sig": sig, "what": f"{list(case)}: {what}", "detail": detail})

        if res.cls in ("panic", "abort") and "compiler/src" in res.err:
            return {"outcome": "compiler-panic", "nontrivial": False, "tags": ["compiler-panic", case[0]]}
        if res.timeout:
            bad("timeout", "accepted program does not terminate")
        elif res.exit != 0:
            cls = driver.classify_failure(res)
            if cls == DYNAMIC_TYPE_ERROR and "optnil" in case[1:]:
                # an operand of the operation is nil: whatever the wording, this is the defined "use of nil" failure
                cls = "nil"
            if cls == DYNAMIC_TYPE_ERROR:
                msg = driver.panic_message(res) or next((l.strip() for l in reversed(res.err.split("\n")) if re.match(r"\s*\d+: ", l)), res.err[-150:])
                bad("dynamic-type-error", f"accepted by the compiler, fails at run time with a type error: {msg[:200]}")
            outcome = "fail-" + cls
        else:
            outcome = "ok"
        # typeof text vs run-time kind of the printed value
        lines = res.lines()
        if kind0 == "cat":
            for tline, vline in zip(lines[0::2], lines[1::2]):
                if tline.startswith("Str:") and ":" in vline and kind_ok(tline[4:], vline.split(":", 1)[0]) is False:
                    bad("kind-mismatch", f"typeof says `{tline[4:]}` but the value observed at run time is {vline[:60]}")
        if kind0 in ("op", "un", "compat", "tree") and len(lines) >= 2:
            pairs = []
            if kind0 == "op" and case[1] == "?=":
                if len(lines) >= 4:
                    pairs = [(lines[0], lines[1]), (lines[2], lines[3])]
            else:
                pairs = [(lines[0], lines[1])]
            for tline, vline in pairs:
                if not tline.startswith("Str:") or ":" not in vline:
                    continue
                ttext = tline[4:]
                h2 = vline.split(":", 1)[0]
                ok = kind_ok(ttext, h2)
                if ok is False:
                    bad("kind-mismatch", f"typeof says `{ttext}` but the value observed at run time is {vline[:60]}")
        return {"outcome": outcome + ("-VIOL" if viol else ""), "viol": viol, "nontrivial": True, "tags": [case[0], f"acc-{case[0]}"]}

    def finish(self, stats, tier):
        errs = []
        for g in ("op", "un", "compat", "ret", "cat", "tree"):
            if not stats["tags"].get(f"acc-{g}"):
                errs.append(f"vacuity: no accepted program in group {g}")
        stats["extra_coverage"] = {"accepted": sum(v for k, v in stats["tags"].items() if k.startswith("acc-")),
                                   "rejected": stats["tags"].get("rejected", 0)}
        return errs
