"""C05 — numeric operators: exact value and promoted kind, or failure.
E-matrix: operator x (left kind, right kind) x boundary-value pairs, every cell executed."""
import itertools
import math

from ..core import driver
from ..core.explore import Check
from ..lang import numeric as N

OPS = ["+", "-", "*", "/", "%", "<", "<=", ">", ">=", "==", "!=", "&", "|", "xor", "<<", ">>"]
KINDS = ["int", "bigint", "float", "byte"]


CARRIERS = ["element", "field", "parameter", "captured", "result", "map-value", "optional", "literal"]


def literal_of(kind, v):
    """the operand written as a literal in place (the compiler then evaluates the operator itself); None when the value has no literal"""
    if kind == "int":
        # the most negative value has no literal of its own: it is written as a literal EXPRESSION, which the compiler evaluates as well
        return str(v) if v >= 0 else (f"(-{-v})" if -v <= N.I32_MAX else f"(-{N.I32_MAX} - 1)")
    if kind == "bigint":
        return f"B{v}" if v >= 0 else (f"(-B{-v})" if -v <= N.I128_MAX else f"(-B{N.I128_MAX} - B1)")
    if kind == "byte":
        return "0b" + bin(v)[2:]
    if kind == "float":
        if v != v or v in (math.inf, -math.inf):
            return None
        return N.float_literal(v) if math.copysign(1.0, v) > 0 else f"(-{N.float_literal(-v)})"
    return None


OPASSIGN_CARRIERS = ["opassign-variable", "opassign-element", "opassign-field", "opassign-map-entry", "opassign-captured",
                     "opassign-value-variable", "opassign-value-element", "opassign-value-field", "opassign-value-map-entry"]


def cell_program(op, lk, a, rk, b, carrier="variable"):
    """carrier: how the two operands reach the operator (a plain variable, a list element, an object field, a parameter, a variable
    captured by a closure, a function result, a map value, an unwrapped optional)"""
    lines = N.construct(lk, a, "a", "za") + N.construct(rk, b, "b", "zb")
    lines += ["print a", "print b"]
    if carrier == "variable":
        lines += [f"print a {op} b"]
    elif carrier == "element":
        lines += [f"la: [{lk}...] = [a]", f"lb: [{rk}...] = [b, b]", f"print la[0] {op} lb[1]"]
    elif carrier == "field":
        lines = ["class P {", f"\tx: {lk}", f"\ty: {rk}", f"\tconstructor(self, x: {lk}, y: {rk}) {{", "\t\tself.x = x", "\t\tself.y = y", "\t}",
                 "\tfn both(self) {", f"\t\tprint self.x {op} self.y", "\t}", "}"] + lines + ["pp = P(a, b)", f"print pp.x {op} pp.y", "pp.both()"]
    elif carrier == "parameter":
        lines += [f"fp = fn(p: {lk}, q: {rk}) {{", f"\tprint p {op} q", "}", "fp(a, b)"]
    elif carrier == "captured":
        lines += ["fc = fn() {", f"\tprint a {op} b", "}", "fc()"]
    elif carrier == "result":
        lines += [f"ra = fn() -> {lk} {{", "\treturn a", "}", f"rb = fn() -> {rk} {{", "\treturn b", "}", f"print ra() {op} rb()"]
    elif carrier == "map-value":
        lines += [f"ma = map[str, {lk}]", 'ma["k"] = a', f"mb = map[str, {rk}]", 'mb["k"] = b', f'print (get ma["k"]) {op} (get mb["k"])']
    elif carrier == "optional":
        lines += [f"oa: {lk}? = a", f"ob: {rk}? = b", f"print (get oa) {op} (get ob)"]
    elif carrier == "opassign-variable":
        lines += [f"a {op}= b", "print a"]
    elif carrier == "opassign-element":
        lines += [f"la: [{lk}...] = [a, a]", f"la[1] {op}= b", "print la[1]"]
    elif carrier == "opassign-field":
        lines = ["class P {", f"\tx: {lk}", f"\tconstructor(self, x: {lk}) {{", "\t\tself.x = x", "\t}", "}"] + lines + ["pp = P(a)", f"pp.x {op}= b", "print pp.x"]
    elif carrier == "opassign-map-entry":
        lines += [f"ma = map[str, {lk}]", 'ma["k"] = a', f'ma["k"] {op}= b', 'print get ma["k"]']
    elif carrier == "opassign-value-variable":
        # the op-assignment used as an EXPRESSION: its value is the new value of the target
        lines += [f"print (a {op}= b)", "print a"]
    elif carrier == "opassign-value-element":
        lines += [f"la: [{lk}...] = [a, a]", f"print (la[1] {op}= b)", "print la[1]"]
    elif carrier == "opassign-value-field":
        lines = ["class P {", f"\tx: {lk}", f"\tconstructor(self, x: {lk}) {{", "\t\tself.x = x", "\t}", "}"] + lines + ["pp = P(a)", f"print (pp.x {op}= b)", "print pp.x"]
    elif carrier == "opassign-value-map-entry":
        lines += [f"ma = map[str, {lk}]", 'ma["k"] = a', f'print (ma["k"] {op}= b)', 'print get ma["k"]']
    elif carrier == "opassign-captured":
        lines += ["fc = fn() {", f"\ta {op}= b", "}", "fc()", "print a"]
    elif carrier == "literal":
        la, lb = literal_of(lk, a), literal_of(rk, b)
        if la is None or lb is None:
            return None
        lines += [f"print {la} {op} {lb}"]
    else:
        raise ValueError(carrier)
    return "\n".join(lines) + "\n"


def same_float(text, x):
    """`Float:<digits>` denotes exactly the double x (shortest-digit ties may be broken either way)."""
    if not text.startswith("Float:"):
        return False
    t = text[6:]
    if "e" in t.lower() and t not in ("inf", "-inf"):
        return False
    try:
        y = float(t.replace("NaN", "nan"))
    except ValueError:
        return False
    if x != x:
        return y != y
    return y == x and math.copysign(1.0, y) == math.copysign(1.0, x)


def unary_program(op, k, a, carrier="variable"):
    lines = N.construct(k, a, "a", "za")
    lines += ["print a"]
    if carrier == "variable":
        lines += [f"print {op}a"]
    elif carrier == "element":
        lines += [f"la: [{k}...] = [a, a]", f"print {op}la[1]", "print la[1]"]       # the element itself must stay as it was
    elif carrier == "field":
        lines = ["class P {", f"\tx: {k}", f"\tconstructor(self, x: {k}) {{", "\t\tself.x = x", "\t}",
                 "\tfn own(self) {", f"\t\tprint {op}self.x", "\t}", "}"] + lines + ["pp = P(a)", f"print {op}pp.x", "pp.own()", "print pp.x"]
    elif carrier == "parameter":
        lines += [f"fp = fn(p: {k}) {{", f"\tprint {op}p", "}", "fp(a)"]
    elif carrier == "captured":
        lines += ["fc = fn() {", f"\tprint {op}a", "}", "fc()"]
    elif carrier == "result":
        lines += [f"ra = fn() -> {k} {{", "\treturn a", "}", f"print {op}ra()"]
    elif carrier == "map-value":
        lines += [f"ma = map[str, {k}]", 'ma["k"] = a', f'print {op}(get ma["k"])']
    elif carrier == "optional":
        lines += [f"oa: {k}? = a", f"print {op}(get oa)"]
    elif carrier == "literal":
        la = literal_of(k, a) if k != "bool" else ("true" if a else "false")
        lines += [f"print {op}{la}"] if la is not None else [f"print {op}a"]
    else:
        raise ValueError(carrier)
    return "\n".join(lines) + "\n"


class C05(Check):
    id = "C05"
    level = "exploration"
    rule = ("every cell (operator in 16 binary operators, left kind, right kind in {int,bigint,float,byte}, left value, "
            "right value from the per-kind boundary sets), operands reaching the operator through run-time variables and - for 2 (thorough 3) values per kind - "
            "through 8 other carriers (literal operands evaluated by the compiler, list element, object field incl. inside a method, parameter, captured variable, function result, map value, unwrapped optional); "
            "two cells of one operator on the same digits but other operand kinds, one after the other in ONE program (the second must behave as it does alone); "
            "the five arithmetic operators also as OP-ASSIGNMENT onto a variable, a list element, an object field, a map entry and a captured variable, and as an EXPRESSION whose value is printed next to the target's new value (8 values per kind, cells whose promoted kind is the target's kind); "
            "unary minus on every int/bigint/float value and `!` on both booleans.  Non-trivial = the compiler accepts the "
            "cell; distinct = distinct (op, kinds, values).")
    assumptions = ["dev profile (integer-overflow checks on), as the repository's own suite",
                   "<< and >> are bit shifts of the result kind that fail exactly when the amount is outside [0, width)",
                   "a float result that overflows is the IEEE value inf; bitwise/shift operators with a float operand may be rejected statically",
                   "kind observed through hook H2 (typed print)"]
    chunksize = 64

    def layers(self, tier):
        nv = 8 if tier == "quick" else 99

        def cells(vals_n, ops=OPS):
            for op in ops:
                for lk in KINDS:
                    for rk in KINDS:
                        for a, b in itertools.product(range(min(vals_n, len(N.VALUES[lk]))),
                                                      range(min(vals_n, len(N.VALUES[rk])))):
                            yield ("bin", op, lk, a, rk, b)

        def unary():
            for k in ("int", "bigint", "float"):
                for a in range(len(N.VALUES[k])):
                    yield ("un", "-", k, a)
            yield ("un", "!", "bool", 0)
            yield ("un", "!", "bool", 1)
            # the same through every carrier (2 values per kind: the first and the last of the boundary set)
            for car in CARRIERS:
                for k in ("int", "bigint", "float"):
                    for a in (0, len(N.VALUES[k]) - 1 - (len(N.NONFINITE) if k == "float" else 0)):
                        yield ("un", "-", k, a, car)
                yield ("un", "!", "bool", 0, car)
                yield ("un", "!", "bool", 1, car)

        def nonfinite():
            # inf, -inf and NaN (no literal denotes them) against one another and against three values of every kind
            for op in OPS:
                for k in KINDS:
                    others = list(range(3)) + (list(N.NONFINITE) if k == "float" else [])
                    for nf in N.NONFINITE:
                        for o in others:
                            yield ("bin", op, "float", nf, k, o)
                            if not (k == "float" and o in N.NONFINITE):
                                yield ("bin", op, k, o, "float", nf)

        def carried(vals_n):
            for c in cells(vals_n):
                for car in CARRIERS:
                    yield ("car", car) + c[1:]

        def opassigned(vals_n):
            # op-assignment: the target keeps its kind, so only the cells whose promoted kind is the left kind
            for c in cells(vals_n, ["+", "-", "*", "/", "%"]):
                _, op, lk, a, rk, b = c
                if rk == lk or rk == "byte" or lk == "float" or (lk == "bigint" and rk == "int"):
                    for car in OPASSIGN_CARRIERS:
                        yield ("car", car) + c[1:]

        def pairs():
            # two cells with the SAME operator and the same digits but other operand kinds, one after the other in one program
            small = {k: [i for i, v in enumerate(N.VALUES[k]) if v in (1, 2, 1.5, 0.5)][:2] for k in KINDS}
            for op in OPS:
                combos = [(lk, rk) for lk in KINDS for rk in KINDS]
                for c1 in combos:
                    for c2 in combos:
                        if c1 != c2:
                            yield ("pair", op, c1, c2)

        ls = [("L0-unary", list(unary())), ("Lq-two-cells-of-one-operator-in-one-program", list(pairs()) if tier == "thorough" else list(pairs())[::4]), (f"L1c-op-assignment-onto-variable-element-field-map-entry-captured-{min(nv, 8)}-values", opassigned(min(nv, 8))), ("L1-3-values", list(cells(3))), ("L1n-non-finite-floats", list(nonfinite())), ("L1b-values-through-8-carriers", carried(3 if tier == "thorough" else 2)),
              (f"L2-{nv}-values", cells(nv))]
        return ls

    def describe(self, case):
        if case[0] == "pair":
            return {"op": case[1], "first kinds": list(case[2]), "then kinds": list(case[3])}
        if case[0] == "un":
            v = N.VALUES[case[2]][case[3]] if case[2] != "bool" else bool(case[3])
            d = {"op": case[1], "kind": case[2], "value": repr(v)}
            if len(case) > 4:
                d["carrier"] = case[4]
            return d
        if case[0] == "car":
            _, car, op, lk, a, rk, b = case
            return {"op": op, "lkind": lk, "lvalue": repr(N.VALUES[lk][a]), "rkind": rk, "rvalue": repr(N.VALUES[rk][b]), "carrier": car}
        _, op, lk, a, rk, b = case
        return {"op": op, "lkind": lk, "lvalue": repr(N.VALUES[lk][a]), "rkind": rk, "rvalue": repr(N.VALUES[rk][b])}

    def run_pair(self, case):
        _, op, (lk1, rk1), (lk2, rk2) = case

        def val(k, which):
            vs = [v for v in N.VALUES[k] if v in ((2, 1.5) if which == 0 else (1, 0.5))] or [v for v in N.VALUES[k] if v in (1, 2)]
            return vs[0]
        p1 = cell_program(op, lk1, val(lk1, 0), rk1, val(rk1, 1))
        p2 = cell_program(op, lk2, val(lk2, 0), rk2, val(rk2, 1))

        def fn(name, text):
            return f"{name} = fn() {{\n" + "".join("\t" + l + "\n" for l in text.rstrip("\n").split("\n")) + f"}}\n{name}()\n"
        env = {"MSCRIPT_VERIF_TYPED_PRINT": "1"}
        r1 = driver.run_ms(fn("cella", p1), env=env)
        r2 = driver.run_ms(fn("cella", p2), env=env)
        if r1.exit != 0 or driver.compile_rejected(r2):
            return {"outcome": "pair-skip", "nontrivial": False, "tags": ["pair-skip"]}
        src = fn("cella", p1) + fn("cellb", p2)
        rp = driver.run_ms(src, env=env)
        viol = []
        if rp.lines() != r1.lines() + r2.lines() or (rp.exit == 0) != (r2.exit == 0):
            viol.append({"sig": {"kind": "context-dependent", "op": op, "lkind": lk2, "rkind": rk2, "after": f"{lk1},{rk1}"},
                         "what": f"{lk2} {op} {rk2} evaluated after {lk1} {op} {rk1} on the same digits in one program: alone {r2.lines()} (exit {r2.exit}), after the other cell {rp.lines()[len(r1.lines()):]} (exit {rp.exit})",
                         "detail": {"files": {"x.ms": src}, "res": rp.brief(), "alone": r2.brief()}})
        return {"outcome": "pair-ok" + ("-DIFF" if viol else ""), "viol": viol, "nontrivial": True, "tags": ["pair", f"op{op}"]}

    def run_case(self, case):
        if case[0] == "pair":
            return self.run_pair(case)
        desc = self.describe(case)
        if case[0] == "un":
            _, op, k, ai = case[:4]
            a = N.VALUES[k][ai] if k != "bool" else bool(ai)
            src = unary_program(op, k, a, case[4] if len(case) > 4 else "variable")
            try:
                exp = N.neg(k, a) if op == "-" else ("bool", not a)
            except N.Fail as e:
                exp = e
            operands = [N.typed(k, a)]
            static_ok = False
        else:
            car = "variable"
            if case[0] == "car":
                car = case[1]
                case = ("bin",) + tuple(case[2:])
            _, op, lk, ai, rk, bi = case
            a, b = N.VALUES[lk][ai], N.VALUES[rk][bi]
            src = cell_program(op, lk, a, rk, b, car)
            if src is None:
                return {"outcome": "no-literal", "nontrivial": False}
            static_ok = False
            try:
                exp = N.binop(op, lk, a, rk, b)
            except N.Fail as e:
                exp = e
            except TypeError:
                exp = None
                static_ok = True
            operands = [N.typed(lk, a), N.typed(rk, b)]
        res = driver.run_ms(src, env={"MSCRIPT_VERIF_TYPED_PRINT": "1"})
        lines = res.lines()
        viol = []
        detail = {"desc": desc, "files": {"x.ms": src}, "res": res.brief(),
                  "expected": (str(exp) if isinstance(exp, Exception) else exp)}

        def bad(kind, what):
            sig = {"kind": kind}
            sig.update({k: v for k, v in desc.items()})
            viol.append({"sig": sig, "what": what, "detail": detail})

        compiled = not (driver.compile_rejected(res))
        if not compiled:
            if static_ok:
                return {"outcome": "static-reject-float-bitop", "nontrivial": False, "tags": ["static-reject"]}
            if case[0] == "bin" and car == "literal" and isinstance(exp, Exception):
                # literal operands: the compiler evaluates the operator itself and refuses an operation that would stop the program
                return {"outcome": "literal-failure-refused", "nontrivial": True, "tags": ["literal-refused"]}
            bad("rejected", f"{desc}: the compiler rejects a numeric operator cell: {res.out[-300:]}")
            return {"outcome": "rejected", "viol": viol, "nontrivial": False}
        if lines[:len(operands)] != operands:
            # operand construction did not produce the intended operands: not a verdict on this cell
            if res.cls in ("panic", "abort", "timeout") or res.exit != 0:
                bad("operand-construction", f"{desc}: constructing the operands failed: {res.err[-200:]}")
            else:
                bad("operand-construction", f"{desc}: operands observed {lines[:len(operands)]} intended {operands}")
            return {"outcome": "operand-mismatch", "viol": viol, "nontrivial": True}
        got = lines[len(operands):]
        if exp is None:
            # bitwise / shift with a float operand accepted by the compiler: it must then fail, not produce a value
            if res.exit == 0:
                bad("float-bitop-value", f"{desc}: produced {got}")
            outcome = "float-bitop-fails"
        elif isinstance(exp, Exception):
            if res.exit == 0 or res.timeout:
                bad("no-failure", f"{desc}: expected a failure ({exp}), got value {got}")
            outcome = f"fail-{res.cls}"
        else:
            want = [N.typed(*exp)] * (2 if (case[0] == "bin" and (car == "field" or car.startswith("opassign-value"))) else 1)
            if case[0] == "bin" and car.startswith("opassign"):
                got = [g.lstrip("&") for g in got]
                if exp[0] != lk:
                    return {"outcome": "opassign-kind-changes", "nontrivial": False, "tags": ["opassign-skip"]}
            ucar = case[4] if case[0] == "un" and len(case) > 4 else None
            if ucar in ("element", "field"):
                # the operator works on a copy: the element / field read again afterwards still holds the operand
                last = [g.lstrip("&") for g in got[-1:]]        # the typed print marks a value read through a reference with `&`
                tail_ok = last == operands or (k == "float" and last and same_float(last[0], a))
                got = got[:-1]
                want = want * (2 if ucar == "field" else 1)
                if res.exit == 0 and not tail_ok:
                    bad("operand-changed", f"{desc}: after the operation the {ucar} holds {lines[-1:]}, it held {operands}")
            if res.exit != 0:
                bad("unexpected-failure", f"{desc}: expected {want[0]}, execution failed ({res.cls}): "
                                          f"{driver.classify_failure(res)}")
            elif exp[0] == "float" and len(got) == len(want) and all(same_float(g, exp[1]) for g in got):
                pass
            elif got != want:
                kind = "wrong-kind" if got and got[0].split(":")[0] != want[0].split(":")[0] else "wrong-value"
                bad(kind, f"{desc}: expected {want[0]}, got {got}")
            outcome = "value-" + exp[0]
        return {"outcome": outcome, "viol": viol, "nontrivial": True, "tags": [f"op{case[1]}"]}
