"""C20 — `mscript clean DIR` deletes exactly the top-level *.mmm files of DIR and nothing else.
E-matrix over directory-tree configurations; snapshot before / after."""
import itertools
import os
import re

from ..core import driver
from ..core.explore import Check

NAMES = ["x.mmm", "x.ms", "x.mmm.bak", "x.transpiled.mmm", ".mmm", "mmm", "x.MMM", "x.mmm~",
         "a b.mmm", "a.b.mmm", "é.mmm"]
KINDS = ["file", "dir", "ln-file", "ln-dir", "ln-dangling", "emptydir"]
FORMS = ["rel", "dot", "abs", "slash"]


def has_mmm_ext(name):
    # transcription of std::path::Path::extension: text after the last '.', unless the only
    # '.' is the first character.
    if name.startswith("."):
        stem = name[1:]
        if "." not in stem:
            return False
    if "." not in name:
        return False
    return name.rsplit(".", 1)[1] == "mmm"


def snapshot(root):
    snap = {}
    for dirpath, dirnames, filenames in os.walk(root, followlinks=False):
        for n in list(dirnames) + filenames:
            p = os.path.join(dirpath, n)
            rel = os.path.relpath(p, root)
            if os.path.islink(p):
                snap[rel] = ("link", os.readlink(p))
            elif os.path.isdir(p):
                snap[rel] = ("dir", None)
            else:
                with open(p, "rb") as f:
                    snap[rel] = ("file", f.read())
    return snap


def build_tree(root, entries):
    d = os.path.join(root, "d")
    out = os.path.join(root, "outside")
    os.makedirs(d)
    os.makedirs(os.path.join(out, "td.mmm"))
    with open(os.path.join(out, "tf.mmm"), "w") as f:
        f.write("target-file")
    with open(os.path.join(out, "td.mmm", "inner.mmm"), "w") as f:
        f.write("inner")
    with open(os.path.join(out, "keep.mmm"), "w") as f:
        f.write("sibling directory file")
    sub = os.path.join(d, "sub")
    os.makedirs(sub)
    for n in NAMES:
        with open(os.path.join(sub, n), "w") as f:
            f.write("sub:" + n)
    os.makedirs(os.path.join(sub, "deeper.mmm"))
    with open(os.path.join(sub, "deeper.mmm", "y.mmm"), "w") as f:
        f.write("deep")
    for name, kind in entries:
        p = os.path.join(d, name)
        if kind == "file":
            with open(p, "w") as f:
                f.write("top:" + name)
        elif kind == "dir":
            os.makedirs(p)
            with open(os.path.join(p, "z.mmm"), "w") as f:
                f.write("in-dir:" + name)
        elif kind == "emptydir":
            os.makedirs(p)
        elif kind == "ln-file":
            os.symlink("../outside/tf.mmm", p)
        elif kind == "ln-dir":
            os.symlink("../outside/td.mmm", p)
        elif kind == "ln-dangling":
            os.symlink("../outside/nothing.mmm", p)
    return d


class C20(Check):
    id = "C20"
    level = "exploration"
    rule = ("every subset of <=k names from an 11-name alphabet x every assignment of entry kind "
            "(file, non-empty directory, empty directory, symlink to file, symlink to directory, dangling symlink) at the top level of DIR, "
            "each tree also holding a sub-directory with all 11 names and an outside directory holding the "
            "symlink targets; invocation form (relative, '.', absolute, trailing slash) as a single deviation. "
            "A case is non-trivial when DIR holds at least one top-level entry whose extension is mmm "
            "or whose name nearly matches (all but the empty tree); distinct = distinct (entries, form).")
    assumptions = ["Linux tmpfs semantics (/dev/shm)", "dev-profile binary with --cfg mscript_verif"]
    chunksize = 32

    def layers(self, tier):
        k = 3 if tier == "quick" else 4

        def subsets(maxk, form="rel"):
            for r in range(0, maxk + 1):
                for names in itertools.combinations(range(len(NAMES)), r):
                    for kinds in itertools.product(range(len(KINDS)), repeat=r):
                        yield (tuple(zip(names, kinds)), form)

        def allnames():
            for kind in range(len(KINDS)):
                for form in FORMS:
                    yield (tuple((i, kind) for i in range(len(NAMES))), form)
            # 8 entries (the statement's bound), mixed kinds rotating
            for shift in range(len(KINDS)):
                for start in range(len(NAMES)):
                    idx = [(start + j) % len(NAMES) for j in range(8)]
                    yield (tuple(sorted((i, (i + shift + j) % len(KINDS)) for j, i in enumerate(idx))), "rel")

        def forms():
            for form in FORMS[1:]:
                yield from subsets(2, form)

        ls = [("L0-all-names", list(allnames())), ("L1-forms-k2", forms()),
              (f"L2-subsets-k{k}", subsets(k))]
        return ls

    def describe(self, case):
        entries, form = case
        return {"entries": [[NAMES[i], KINDS[k]] for i, k in entries], "form": form}

    def run_case(self, case):
        entries, form = case
        ents = [(NAMES[i], KINDS[k]) for i, k in entries]
        root = driver.fresh_dir()
        d = build_tree(root, ents)
        before = snapshot(root)
        if form == "rel":
            res = driver.run(["clean", "d"], root)
        elif form == "slash":
            res = driver.run(["clean", "d/"], root)
        elif form == "abs":
            res = driver.run(["clean", d], root)
        else:
            res = driver.run(["clean"], d)
        after = snapshot(root)
        viol = []
        desc = {"entries": ents, "form": form}
        allowed = {os.path.join("d", n) for n, kd in ents if has_mmm_ext(n) and kd not in ("dir", "emptydir")}
        removed = [p for p in before if p not in after]
        changed = [p for p in before if p in after and before[p] != after[p]]
        created = [p for p in after if p not in before]
        bad_removed = [p for p in removed if p not in allowed]
        detail = {"desc": desc, "cmd": "mscript clean (form=%s)" % form, "res": res.brief(),
                  "removed": removed, "changed": changed, "created": created}
        if bad_removed or changed or created:
            names = sorted({os.path.basename(p) for p in bad_removed + changed + created})
            viol.append({"sig": {"kind": "safety", "names": ",".join(names)},
                         "what": f"clean removed/altered entries it must not touch: removed={bad_removed} "
                                 f"changed={changed} created={created}", "detail": detail})
        if res.cls not in ("ok", "error"):
            viol.append({"sig": {"kind": "crash", "cls": res.cls},
                         "what": f"clean ended with {res.cls} (exit {res.exit})", "detail": detail})
        # "reports how many it removed": any integer on a stdout line that names no path (the wording is free)
        nums = [int(x) for l in res.out.split("\n") if "/" not in l and not any(n in l for n in NAMES)
                for x in re.findall(r"(?<![\w.])\d+(?![\w.])", l)]
        # none of the explored trees contains anything `clean` cannot handle (no permissions, no races): it must succeed on each,
        # directories and sub-directories being none of its business
        if res.cls == "error":
            left = [p for p in allowed if p in after]
            viol.append({"sig": {"kind": "gave-up", "kinds": ",".join(sorted({kd for n, kd in ents if has_mmm_ext(n)}))},
                         "what": f"clean stopped with an error (exit {res.exit}: {res.err.strip()[-120:]!r}) leaving bytecode files {sorted(left)}",
                         "detail": detail})
        if res.exit == 0:
            left = [p for p in allowed if p in after]
            if left:
                viol.append({"sig": {"kind": "incomplete", "names": ",".join(sorted(os.path.basename(p) for p in left))},
                             "what": f"clean exited 0 but left bytecode files {left}", "detail": detail})
            if len(removed) not in nums:
                viol.append({"sig": {"kind": "count"},
                             "what": f"reported count {nums or None} != removed {len(removed)}",
                             "detail": detail})
        tags = []
        if removed:
            tags.append("removed-some")
        if any(kd == "dir" and has_mmm_ext(n) for n, kd in ents):
            tags.append("dir-named-mmm")
        if any(kd == "emptydir" and has_mmm_ext(n) for n, kd in ents):
            tags.append("emptydir-named-mmm")
        if any(kd.startswith("ln") and has_mmm_ext(n) for n, kd in ents):
            tags.append("symlink-named-mmm")
        return {"outcome": f"exit{res.exit}/removed{len(removed)}", "tags": tags, "viol": viol,
                "nontrivial": len(ents) > 0}

    def finish(self, stats, tier):
        errs = []
        for t in ("removed-some", "dir-named-mmm", "emptydir-named-mmm", "symlink-named-mmm"):
            if not stats["tags"].get(t):
                errs.append(f"vacuity: no explored tree with tag {t}")
        return errs
