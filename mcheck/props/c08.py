"""C08 — objects: per-instance state, reference identity, bound methods.
E-hist over histories of constructions, aliasings, method calls, field reads/writes on class graphs;
model = reference interpreter (records of cells with identity); states de-duplicated on observers."""
from ..core.ehist import EHistCheck
from ..lang import refint
from .c07 import ClosureModel, V, I, call, fn, asg


def F(o, name):
    return ("field", V(o) if isinstance(o, str) else o, name)


def M(o, name, *args):
    return ("method", V(o) if isinstance(o, str) else o, name, list(args))


def SF(name):
    return ("field", V("self"), name)


LEAF = ("class", "Leaf", [("n", "int")], ([("n", "int")], [("setfield", V("self"), "n", V("n"))]),
        [("value", [], "int", [("return", SF("n"))]),
         ("bump", [], None, [("if", ("bin", "<", SF("n"), I(3)), [("setfield", V("self"), "n", ("bin", "+", SF("n"), I(1)))], None)])])

NODE = ("class", "Node", [("val", "int"), ("tags", "[int...]"), ("next", "Self?"), ("leaf", "Leaf")],
        ([("v", "int")], [("setfield", V("self"), "val", V("v")), ("setfield", V("self"), "tags", ("list", [])),
                          ("setfield", V("self"), "next", ("nil",)), ("setfield", V("self"), "leaf", ("new", "Leaf", [V("v")]))]),
        [("value", [], "int", [("return", SF("val"))]),
         ("inc", [], "Self", [("if", ("bin", "<", SF("val"), I(3)), [("setfield", V("self"), "val", ("bin", "+", SF("val"), I(1)))], None),
                              ("return", V("self"))]),
         ("add", [("d", "int")], "int", [("expr", M("self", "inc")), ("return", ("bin", "+", SF("val"), V("d")))]),
         ("tag", [("t", "int")], None, [("if", ("bin", "<", M(SF("tags"), "len"), I(2)), [("expr", M(SF("tags"), "push", V("t")))], None)]),
         ("link", [("o", "Self")], None, [("setfield", V("self"), "next", V("o"))]),
         # methods declared `-> Self` that hand back ANOTHER object: the next link of a call chain must run on what was returned
         ("other", [("o", "Self")], "Self", [("return", V("o"))]),
         # a method that calls itself through self, updating the object between the calls
         ("climb", [("k", "int")], "int", [("if", ("bin", ">", V("k"), I(0)), [("expr", M("self", "inc")), ("return", ("bin", "+", M("self", "climb", ("bin", "-", V("k"), I(1))), I(10)))], None),
                                           ("return", SF("val"))]),
         ("via", [("o", "Self")], "Self", [("return", M(M("self", "other", V("o")), "inc"))]),
         # list-valued field stores: share another object's list, replace the list by a fresh one (equal contents, other identity)
         ("adopt", [("o", "Self")], None, [("setfield", V("self"), "tags", F("o", "tags"))]),
         ("reset", [], None, [("setfield", V("self"), "tags", ("list", []))]),
         ("copytags", [], None, [("setfield", V("self"), "tags", M(SF("tags"), "clone"))]),
         ("unlink", [], None, [("setfield", V("self"), "next", ("nil",))]),
         # field stores inside nested control flow, with simple right-hand sides and binary conditions
         ("clamp", [("lo", "int"), ("hi", "int")], None,
          [("if", ("bin", "<", SF("val"), V("lo")), [("setfield", V("self"), "val", V("lo"))],
            ("if", ("bin", ">", SF("val"), V("hi")), [("setfield", V("self"), "val", V("hi"))], None))]),
         ("settle", [("v", "int")], None,
          [("if", ("bin", ">=", SF("val"), I(0)), [("if", ("bin", "!=", SF("val"), V("v")), [("setfield", V("self"), "val", V("v"))], None)], None)]),
         ("drain", [], None,
          [("while", ("bin", ">", SF("val"), I(1)), [("if", ("bin", ">", SF("val"), I(2)), [("setfield", V("self"), "val", I(2))],
                                                       [("setfield", V("self"), "val", I(1))])])]),
         ("retag", [("t", "int")], None,
          [("if", ("bin", ">", M(SF("tags"), "len"), I(0)),
            [asg("tg", SF("tags")),
             ("if", ("bin", "!=", ("index", V("tg"), I(0)), V("t")), [("setindex", V("tg"), I(0), V("t"))], None)], None)]),
         ("next_val", [], "int", [("if", ("bin", "==", SF("next"), ("nil",)), [("return", ("int", -1))], None),
                                  asg("nx", ("get", SF("next"))), ("return", F("nx", "val"))])])

HELPERS = [
    asg("touch", fn([("o", "Node")], None, [("expr", M("o", "inc"))])),
    asg("pick", fn([("x", "Node"), ("y", "Node"), ("first", "bool")], "Node", [("if", V("first"), [("return", V("x"))], None), ("return", V("y"))])),
    asg("nis", fn([("x", "Node"), ("y", "Node")], "bool",
                  [("if", ("bin", "==", F("x", "next"), ("nil",)), [("return", ("bool", False))], None),
                   asg("nx", ("get", F("x", "next"))), ("return", ("is", V("nx"), V("y")))])),
    asg("at0", fn([("l", "[Node...]"), ("y", "Node")], "bool",
                  [("if", ("bin", "==", M("l", "len"), I(0)), [("return", ("bool", False))], None),
                   asg("e0", ("index", V("l"), I(0))), ("return", ("is", V("e0"), V("y")))])),
]

TEMPLATES = {}
TEMPLATES["graph"] = dict(
    prelude=[LEAF, NODE] + HELPERS + [asg("a", ("new", "Node", [I(0)])), asg("b", ("new", "Node", [I(1)])), asg("c", V("a")),
                                       asg("ns", ("list", []), "[Node...]")],
    ops=[asg("a", ("new", "Node", [I(0)])), asg("b", ("new", "Node", [I(1)])),
         asg("b", V("a")), asg("c", V("b")), asg("a", V("c")),
         ("expr", call("touch", V("a"))), ("expr", call("touch", V("c"))),
         asg("c", call("pick", V("a"), V("b"), ("bool", True))), asg("c", call("pick", V("a"), V("b"), ("bool", False))),
         ("expr", M("ns", "push", V("a"))), ("expr", M("ns", "push", V("b"))),
         lambda k: [("if", ("bin", ">", M("ns", "len"), I(0)), [asg("c", ("index", V("ns"), I(0)))], None)],
         ("expr", M("ns", "clear")),
         ("expr", M("a", "inc")), ("print", M("b", "add", I(1))), ("expr", M("a", "tag", I(1))), ("expr", M("c", "tag", I(2))),
         ("expr", M("b", "link", V("a"))), ("expr", M("a", "link", V("a"))), ("expr", M("a", "unlink")),
         ("print", M("a", "next_val")), ("print", M("b", "next_val")),
         lambda k: [asg(f"r{k}", M(M("a", "inc"), "inc")), ("print", ("is", V(f"r{k}"), V("a")))],
         ("print", M("a", "climb", I(2))), ("print", M("c", "climb", I(1))),
         ("expr", M(M("a", "other", V("b")), "inc")), ("expr", M(M("b", "other", V("a")), "tag", I(1))),
         ("expr", M(M(M("a", "other", V("b")), "other", V("c")), "inc")), ("expr", M("a", "via", V("b"))),
         lambda k: [asg(f"ch{k}", M(M("b", "other", V("a")), "inc")), ("print", ("is", V(f"ch{k}"), V("a"))), ("print", ("is", V(f"ch{k}"), V("b")))],
         # op-assignment through a field path (every operator), guarded so that the value stays in 0..3
         lambda k: [("if", ("bin", "<", F("a", "val"), I(3)), [("opassign", F("a", "val"), "+=", I(1))], None)],
         lambda k: [("if", ("bin", ">", F("c", "val"), I(0)), [("opassign", F("c", "val"), "-=", I(1))], None)],
         lambda k: [("if", ("bin", "<", F("b", "val"), I(2)), [("opassign", F("b", "val"), "*=", I(2))], None)],
         ("opassign", F("a", "val"), "/=", I(2)), ("opassign", F("b", "val"), "%=", I(2)),
         ("opassign", F(F("a", "leaf"), "n"), "%=", I(2)),
         # op-assignment whose target path runs a method / function (inc is not idempotent): the path is evaluated once, the field is read from and
         # written to the same object
         ("opassign", F(M("a", "inc"), "val"), "%=", I(3)), ("opassign", F(F(M("c", "inc"), "leaf"), "n"), "%=", I(2)),
         lambda k: [("if", ("bin", "<", F("b", "val"), I(3)), [("opassign", F(M("a", "other", V("b")), "val"), "+=", I(1))], None)],
         lambda k: [("if", ("bool", True), [("opassign", F(call("pick", V("a"), V("b"), ("bool", False)), "val"), "/=", I(2))], None)],   # a line must not start with `(`
         ("setfield", V("a"), "tags", F("b", "tags")), ("expr", M("b", "adopt", V("a"))), ("expr", M("a", "reset")), ("expr", M("c", "copytags")),
         ("print", F("a", "val")), ("print", F("c", "tags")), ("setfield", V("a"), "val", I(2)), ("setfield", V("c"), "val", I(0)),
         ("expr", M(F("a", "leaf"), "bump")), ("print", F(F("b", "leaf"), "n")), ("setfield", V("b"), "leaf", F("a", "leaf")),
         lambda k: [asg(f"lf{k}", F("c", "leaf")), ("expr", M(f"lf{k}", "bump"))],
         ("print", ("is", V("a"), V("b"))), ("print", ("is", V("a"), V("c"))), ("print", ("is", V("b"), V("c"))),
         ("expr", M("a", "clamp", I(1), I(2))), ("expr", M("c", "settle", I(3))), ("expr", M("b", "drain")), ("expr", M("a", "retag", I(2))),
         lambda k: [("if", ("bin", ">=", F("a", "val"), I(0)), [("if", ("bin", "<", F("b", "val"), I(3)), [("setfield", V("a"), "val", F("b", "val"))], None)], None)]],
    observers=[F("a", "val"), F("b", "val"), F("c", "val"), ("is", V("a"), V("b")), ("is", V("a"), V("c")), ("is", V("b"), V("c")),
               F("a", "tags"), F("b", "tags"), F("c", "tags"), F(F("a", "leaf"), "n"), F(F("b", "leaf"), "n"), F(F("c", "leaf"), "n"),
               ("is", F("a", "leaf"), F("b", "leaf")), ("is", F("a", "leaf"), F("c", "leaf")),
               M("a", "next_val"), M("b", "next_val"), M("c", "next_val"),
               call("nis", V("a"), V("a")), call("nis", V("a"), V("b")), call("nis", V("b"), V("a")), call("nis", V("b"), V("b")),
               call("nis", V("c"), V("a")), call("nis", V("c"), V("b")),
               M("ns", "len"), call("at0", V("ns"), V("a")), call("at0", V("ns"), V("b")), call("at0", V("ns"), V("c"))],
    cap_len=("ns", 2),
    same_container=[("a", "tags"), ("b", "tags"), ("c", "tags")],
)

# a second shape: three classes, object-valued constructor parameter, optional class field set through a method, a method
# that returns a fresh object of another class
PAIR = ("class", "Pair", [("l", "Leaf"), ("r", "Leaf"), ("sum", "int")],
        ([("l", "Leaf"), ("r", "Leaf")], [("setfield", V("self"), "l", V("l")), ("setfield", V("self"), "r", V("r")), ("setfield", V("self"), "sum", I(0))]),
        [("total", [], "int", [("setfield", V("self"), "sum", ("bin", "+", M(SF("l"), "value"), M(SF("r"), "value"))), ("return", SF("sum"))]),
         ("swap", [], "Self", [asg("t", SF("l")), ("setfield", V("self"), "l", SF("r")), ("setfield", V("self"), "r", V("t")), ("return", V("self"))]),
         ("left", [], "Leaf", [("return", SF("l"))]),
         ("fresh", [], "Leaf", [("return", ("new", "Leaf", [M(SF("l"), "value")]))])])
TEMPLATES["pair"] = dict(
    prelude=[LEAF, PAIR, asg("x", ("new", "Leaf", [I(0)])), asg("y", ("new", "Leaf", [I(2)])),
             asg("p", ("new", "Pair", [V("x"), V("y")])), asg("q", ("new", "Pair", [V("x"), V("x")])), asg("z", V("x"))],
    ops=[("expr", M("x", "bump")), ("expr", M("y", "bump")), ("print", M("p", "total")), ("print", M("q", "total")),
         ("expr", M("p", "swap")), asg("z", M("p", "left")), asg("z", M("p", "fresh")), ("expr", M("z", "bump")),
         asg("q", V("p")), asg("p", ("new", "Pair", [V("y"), V("z")])), ("print", F("p", "sum")), ("print", F("q", "sum")),
         ("print", ("is", V("z"), V("x"))), ("print", ("is", M("p", "left"), V("x"))), ("setfield", V("x"), "n", I(1)),
         ("print", ("is", V("p"), V("q")))],
    observers=[F("x", "n"), F("y", "n"), F("z", "n"), ("is", V("z"), V("x")), ("is", V("z"), V("y")), F("p", "sum"), F("q", "sum"),
               ("is", V("p"), V("q")), ("is", F("p", "l"), V("x")), ("is", F("p", "l"), V("y")), ("is", F("p", "l"), V("z")),
               ("is", F("p", "r"), V("x")), ("is", F("p", "r"), V("y")), ("is", F("p", "r"), V("z")),
               ("is", F("q", "l"), V("x")), ("is", F("q", "r"), V("x")), ("is", F("q", "l"), V("y")), ("is", F("q", "r"), V("y")),
               F(F("p", "l"), "n"), F(F("p", "r"), "n"), F(F("q", "l"), "n"), F(F("q", "r"), "n")],
)


# a third shape: `self` escapes from the constructor (it registers itself in a list passed in, and links itself to a partner), so the
# reference stored during construction and the reference the constructor call returns must be the same object
MEM = ("class", "Mem", [("n", "int"), ("partner", "Self?")],
       ([("n", "int"), ("buddy", "Self?")],
        [("setfield", V("self"), "n", V("n")), ("setfield", V("self"), "partner", ("nil",)),
         ("if", ("bin", "!=", V("buddy"), ("nil",)), [asg("bd", ("get", V("buddy"))), ("setfield", V("bd"), "partner", V("self")),
                                                      ("setfield", V("self"), "partner", V("bd"))], None)]),
       [("bump", [], None, [("if", ("bin", "<", SF("n"), I(3)), [("setfield", V("self"), "n", ("bin", "+", SF("n"), I(1)))], None)]),
        ("partner_n", [], "int", [("if", ("bin", "==", SF("partner"), ("nil",)), [("return", ("int", -1))], None),
                                  asg("pp", ("get", SF("partner"))), ("return", F("pp", "n"))]),
        ("partner_is", [("o", "Self")], "bool", [("if", ("bin", "==", SF("partner"), ("nil",)), [("return", ("bool", False))], None),
                                                 asg("pp", ("get", SF("partner"))), ("return", ("is", V("pp"), V("o")))]),
        ("bump_partner", [], None, [("if", ("bin", "!=", SF("partner"), ("nil",)), [asg("pp", ("get", SF("partner"))), ("expr", M("pp", "bump"))], None)])])
_NONE = asg("nobody", ("nil",), "Mem?")
TEMPLATES["escape"] = dict(
    prelude=[MEM, _NONE, asg("a", ("new", "Mem", [I(0), V("nobody")])), asg("b", ("new", "Mem", [I(1), V("nobody")])), asg("c", V("a"))],
    ops=[asg("a", ("new", "Mem", [I(2), V("nobody")])), asg("b", ("new", "Mem", [I(0), V("nobody")])),
         lambda k: [asg(f"opt{k}", V("a"), "Mem?"), asg("b", ("new", "Mem", [I(1), V(f"opt{k}")]))],
         lambda k: [asg(f"opt{k}", V("b"), "Mem?"), asg("a", ("new", "Mem", [I(1), V(f"opt{k}")]))],
         lambda k: [asg(f"opt{k}", V("c"), "Mem?"), asg("c", ("new", "Mem", [I(0), V(f"opt{k}")]))],
         ("expr", M("a", "bump")), ("expr", M("b", "bump")), ("expr", M("a", "bump_partner")), ("expr", M("c", "bump_partner")),
         asg("b", V("a")), asg("c", V("b")), ("print", M("a", "partner_n")), ("print", ("is", V("a"), V("b")))],
    observers=[F("a", "n"), F("b", "n"), F("c", "n"), ("is", V("a"), V("b")), ("is", V("a"), V("c")), ("is", V("b"), V("c")),
               M("a", "partner_n"), M("b", "partner_n"), M("c", "partner_n"),
               M("a", "partner_is", V("a")), M("a", "partner_is", V("b")), M("a", "partner_is", V("c")),
               M("b", "partner_is", V("a")), M("b", "partner_is", V("b")), M("b", "partner_is", V("c")),
               M("c", "partner_is", V("a")), M("c", "partner_is", V("b")), M("c", "partner_is", V("c"))],
)


# SAME-NAMED CLASSES in different scopes of one file (one per function, per branch, per nesting level, next to a module-level one): each declaration is a class
# of its own - objects made in one scope run that scope's constructor and methods, whatever was declared or executed before
def _cls(tag, shape, ind):
    p = "\t" * ind
    if shape == "method-only":
        return [p + "class K {", p + "\tfn v(self) -> int {", p + f"\t\treturn {tag}", p + "\t}", p + "}"], "K()", f"{tag}"
    if shape == "field":
        return [p + "class K {", p + "\tn: int", p + "\tconstructor(self, n: int) {", p + f"\t\tself.n = n + {tag}", p + "\t}", p + "\tfn v(self) -> int {",
                p + f"\t\treturn self.n * 2", p + "\t}", p + "}"], "K(1)", f"{(1 + tag) * 2}"
    if shape == "self":
        return [p + "class K {", p + "\tn: int", p + "\tconstructor(self) {", p + f"\t\tself.n = {tag}", p + "\t}", p + "\tfn me(self) -> Self {", p + "\t\tself.n += 1",
                p + "\t\treturn self", p + "\t}", p + "\tfn twin(self) -> Self {", p + "\t\treturn Self()", p + "\t}", p + "\tfn v(self) -> int {", p + "\t\treturn self.n", p + "\t}", p + "}"], \
            "K()\nko = ko.me()\nko = ko.twin()\nko = ko.me()", f"{tag + 1}"       # (one postfix per atom: the chain goes through the variable)
    raise ValueError(shape)


def _mk(mk, ind):
    return ["\t" * ind + l for l in ("ko = " + mk).split("\n")]


SAME_SCOPES = ["fn", "fn2", "if-arm", "else-arm", "nested-fn", "module", "loop"]
SAME_SHAPES = ["method-only", "field", "self"]


def same_name_program(s1, s2, shape, order):
    """two declarations of `class K` in scopes s1 != s2; order = sequence over (1, 2) of which scope is exercised -> (source, expected lines)"""
    lines, runs = [], {}
    shapes = shape.split("+") if "+" in shape else [shape, shape]
    for i, sc in ((1, s1), (2, s2)):
        shape = shapes[i - 1]
        tag = 100 * i
        if sc == "module":
            c, mk, exp = _cls(tag, shape, 0)
            lines += c + [f"r{i} = fn() -> int {{"] + _mk(mk, 1) + ["\treturn ko.v()", "}"]
        elif sc in ("fn", "fn2"):
            c, mk, exp = _cls(tag, shape, 1)
            lines += [f"r{i} = fn() -> int {{"] + c + _mk(mk, 1) + ["\treturn ko.v()", "}"]
        elif sc in ("if-arm", "else-arm"):
            c, mk, exp = _cls(tag, shape, 2)
            cond = "true" if sc == "if-arm" else "false"
            arm = c + _mk(mk, 2) + ["\t\treturn ko.v()"]
            other = ["\t\treturn 0 - 1"]
            lines += [f"r{i} = fn() -> int {{", f"\tif {cond} {{"] + (arm if sc == "if-arm" else other) + ["\t} else {"] + (other if sc == "if-arm" else arm) + ["\t}", "}"]
        elif sc == "nested-fn":
            c, mk, exp = _cls(tag, shape, 2)
            lines += [f"r{i} = fn() -> int {{", "\tinner = fn() -> int {"] + c + _mk(mk, 2) + ["\t\treturn ko.v()", "\t}", "\treturn inner()", "}"]
        elif sc == "loop":
            c, mk, exp = _cls(tag, shape, 2)
            lines += [f"r{i} = fn() -> int {{", "\tacc = 0", "\tfrom 0 to 2 {"] + c + _mk(mk, 2) + ["\t\tacc = ko.v()", "\t}", "\treturn acc", "}"]
        runs[i] = exp
    out = []
    for i in order:
        lines.append(f"print r{i}()")
        out.append(runs[i])
    lines.append('print "end"')
    return "\n".join(lines) + "\n", out + ["end"]


SAME_ORDERS = [(1, 2), (2, 1), (1,), (2,), (1, 2, 1), (2, 2, 1)]


class ObjectModel(ClosureModel):
    name = "objects"
    T = TEMPLATES


# ---- a class has a field `count`, the enclosing scope a variable `count`: a bare `count` in a member is the outer variable (a field is reached
# through `self`), each object keeps its own field.  member form -> (member source lines, call expression, python model (outer, field) -> (printed, outer'))
FIELDNAME_MEMBERS = {
    "method-reads": (["fn m(self) -> int {", "\treturn count", "}"], "m()", lambda o, f: (o, o)),
    "method-reads-both": (["fn m(self) -> int {", "\treturn count * 10 + self.count", "}"], "m()", lambda o, f: (o * 10 + f, o)),
    "method-modifies": (["fn m(self) -> int {", "\tmodify count = count + 1", "\treturn self.count", "}"], "m()", lambda o, f: (f, o + 1)),
    "method-local-of-that-name": (["fn m(self) -> int {", "\tcount = 7", "\treturn count + self.count", "}"], "m()", lambda o, f: (7 + f, o)),
    "method-parameter-of-that-name": (["fn m(self, count: int) -> int {", "\treturn count + self.count", "}"], "m(5)", lambda o, f: (5 + f, o)),
    "closure-in-method-reads": (["fn m(self) -> int {", "\th = fn() -> int {", "\t\treturn count", "\t}", "\treturn h() + self.count", "}"], "m()", lambda o, f: (o + f, o)),
    "method-calls-sibling-that-reads": (["fn m(self) -> int {", "\treturn self.r() + 1", "}", "fn r(self) -> int {", "\treturn count", "}"], "m()", lambda o, f: (o + 1, o)),
    "constructor-reads": (["fn m(self) -> int {", "\treturn self.seen", "}"], "m()", lambda o, f: (100, o)),
    # `start` is the name of the constructor's parameter AND of a variable of the enclosing scope (300): in another member it is that variable
    "method-reads-the-name-of-a-constructor-parameter": (["fn m(self) -> int {", "\treturn start + self.count", "}"], "m()", lambda o, f: (300 + f, o)),
}
FIELDNAME_OWNERS = ("module", "function", "escaped", "returned")


def fieldname_program(member, owner):
    names = list(FIELDNAME_MEMBERS) if member == "all" else [member]
    ind = lambda ls, n: ["\t" * n + l for l in ls]
    cls = ["class Counter {", "\tcount: int", "\tseen: int", "\tconstructor(self, start: int) {", "\t\tself.count = start", "\t\tself.seen = count", "\t}"]
    calls = []
    for i, nm in enumerate(names):
        lines, call, _ = FIELDNAME_MEMBERS[nm]
        lines = [l.replace("fn m(", f"fn m{i}(").replace("fn r(", f"fn r{i}(").replace("self.r()", f"self.r{i}()") for l in lines]
        cls += ind(lines, 1)
        calls.append((nm, call.replace("m(", f"m{i}(")))
    cls += ["\tfn own(self) -> int {", "\t\treturn self.count", "\t}", "}"]
    use = ["a = Counter(1)", "b = Counter(2)"]
    outer, exp = 100, []
    for obj, fld in (("a", 1), ("b", 2), ("a", 1)):
        for nm, call in calls:
            pr, outer = FIELDNAME_MEMBERS[nm][2](outer, fld)
            use += [f"print {obj}.{call}", f"print {obj}.own()"]
            exp += [str(pr), str(fld)]
    if owner == "returned":
        # the function that owns `count` and declares the class has RETURNED when the class is instantiated and its members run, and the code that
        # asks for it has variables of the same names: the class itself has to capture what its members use.  (The class type is not visible outside
        # its function, so the function hands out a dispatcher: object with field s, member number k)
        disp = ["return fn(s: int, k: int) -> int {", "\tob = Counter(s)"]
        for k, (nm, call) in enumerate(calls):
            disp += [f"\tif k == {k} {{", f"\t\treturn ob.{call}", "\t}"]
        disp += ["\treturn ob.own()", "}"]
        src = (["host = fn() -> (fn(int, int) -> int) {"] + ind(["count = 100", "start = 300"] + cls + disp, 1) + ["}", "dsp = host()",
               "caller = fn(s: int, k: int) -> int {", "\tcount = 7", "\tstart = 8", "\treturn dsp(s + count - count + start - start, k)", "}"])
        outer, exp = 100, []
        for fld in (1, 2, 1):
            for k, (nm, call) in enumerate(calls):
                seen = outer          # here every call builds a fresh object: its constructor reads the variable as it is now
                pr, outer = FIELDNAME_MEMBERS[nm][2](outer, fld)
                if nm == "constructor-reads":
                    pr = seen
                src += [f"print caller({fld}, {k})", f"print caller({fld}, {len(calls)})"]
                exp += [str(pr), str(fld)]
        return "\n".join(src) + "\n", exp
    if owner == "module":
        src = ["count = 100", "start = 300"] + cls + use + ["print count"]
    elif owner == "function":
        src = ["host = fn() {"] + ind(["count = 100", "start = 300"] + cls + use + ["print count"], 1) + ["}", "host()"]
    else:
        # the objects are handed out; the function that owns `count` has returned when the members run
        src = ["count = 100", "start = 300"] + cls + ["mk = fn(s: int) -> Counter {", "\treturn Counter(s)", "}"] + [u.replace("Counter(", "mk(") for u in use] + ["print count"]
    exp.append(str(outer))
    return "\n".join(src) + "\n", exp


class C08(EHistCheck):
    id = "C08"
    model = ObjectModel()
    quick_depth = 3
    thorough_depth = 5
    chunksize = 16
    quick_cap_s = 300
    thorough_cap_s = 40 * 60
    rule = ("breadth-first search over histories of constructions, aliasings, passing to / returning from functions, storing in / reading "
            "from a list, method calls (incl. a method returning Self, chained calls - also through methods declared -> Self that return another object -, a method calling another method), field reads and "
            "writes (scalar, list, optional-class and class fields; a list field is shared with another object's, replaced by a fresh empty list and by a clone of itself; every op-assignment operator through a field path, also through paths that run a non-idempotent method or a function) and `is` tests on two class graphs (Node/Leaf with a self-referential "
            "optional link and a shared sub-object; Pair/Leaf with object-valued constructor parameters, swapping and fresh sub-objects; Mem, whose constructor "
            "lets `self` escape into the field of a partner object passed in); "
            "model = reference interpreter with records of cells; states de-duplicated on the values of observer expressions that expose "
            "every field, every identity relation between the named references and the link structure; every transition replayed on the real CLI.  Every class graph is also explored (one level shallower) with all "
            "variables and operations inside one function body instead of at module level.")
    assumptions = ["objects are never printed (addresses); `==` on objects is rejected by the compiler and is not in the alphabet"]

    def layers(self, tier):
        fld = [("fieldname", m, o) for m in FIELDNAME_MEMBERS for o in FIELDNAME_OWNERS] + [("fieldname", "all", o) for o in FIELDNAME_OWNERS]
        return [("same-named-classes-in-different-scopes-of-one-file", _same_cases()),
                ("a-bare-name-in-a-member-that-is-also-the-name-of-a-field-(fields-are-reached-through-self)", fld)] + self.bfs(tier)

    def describe(self, case):
        if case[0] == "fieldname":
            return {"member using the bare name": case[1], "owner of the outer variable": case[2]}
        if case[0] == "same":
            return {"class K declared in": [case[1], case[2]], "shape": case[3], "scopes exercised": list(SAME_ORDERS[case[4]])}
        return EHistCheck.describe(self, case)

    def finish(self, stats, tier):
        errs = EHistCheck.finish(self, stats, tier) or []
        # a family whose programs the compiler refuses explores nothing (the `self` shape once was refused wholesale: a call chained onto a call)
        t = stats["tags"]
        if t.get("same", 0) or t.get("same-rejected", 0):
            for sh in SAME_SHAPES:
                if not t.get(f"same-{sh}"):
                    errs.append(f"vacuity: no accepted program of the same-named-classes family with shape {sh}")
            if t.get("same-rejected", 0) > t.get("same", 0):
                errs.append(f"vacuity: {t.get('same-rejected')} programs of the same-named-classes family rejected, {t.get('same', 0)} accepted")
        # (a compiler that REFUSES a bare name equal to a field name would also keep the property: the field-name family has no vacuity guard)
        return errs

    def run_fieldname(self, case):
        from ..core import driver
        src, exp = fieldname_program(case[1], case[2])
        res = driver.run_ms(src)
        if driver.compile_rejected(res):
            return {"outcome": "fieldname-rejected", "nontrivial": False, "tags": ["fieldname-rejected"], "show": res.out[-300:]}
        viol = []
        if res.exit != 0 or res.lines() != exp:
            viol.append({"sig": {"kind": "field-name-vs-outer-variable", "member": case[1], "owner": case[2]},
                         "what": f"class with a field `count` and an outer variable `count` (owner {case[2]}), member form {case[1]}: expected {exp}, got exit {res.exit} and {res.lines()} {res.err[-200:]}",
                         "detail": {"files": {"x.ms": src}, "res": res.brief(), "expected_lines": exp}})
        return {"outcome": "fieldname-ok" + ("-DIFF" if viol else ""), "viol": viol, "nontrivial": True, "tags": ["fieldname"]}

    def run_case(self, case):
        if case[0] == "fieldname":
            return self.run_fieldname(case)
        if case[0] != "same":
            return EHistCheck.run_case(self, case)
        from ..core import driver
        src, exp = same_name_program(case[1], case[2], case[3], SAME_ORDERS[case[4]])
        res = driver.run_ms(src)
        if driver.compile_rejected(res):
            return {"outcome": "same-rejected", "nontrivial": False, "tags": ["same-rejected", f"same-rejected-{case[1]}-{case[2]}"], "show": res.out[-300:]}
        viol = []
        if res.exit != 0 or res.lines() != exp:
            viol.append({"sig": {"kind": "same-named-classes", "scopes": f"{case[1]},{case[2]}", "shape": case[3]},
                         "what": f"class K declared in {case[1]} and in {case[2]} ({case[3]}), exercised in order {SAME_ORDERS[case[4]]}: expected {exp}, got exit {res.exit} and {res.lines()} {res.err[-200:]}",
                         "detail": {"files": {"x.ms": src}, "res": res.brief(), "expected_lines": exp}})
        return {"outcome": "same-ok" + ("-DIFF" if viol else ""), "viol": viol, "nontrivial": True, "tags": ["same", f"same-{case[3].split('+')[0]}"]}


def _same_cases():
    pairs = [(a, b) for a in SAME_SCOPES for b in SAME_SCOPES if a != b and not (a == "module" and b == "module")]
    same = [("same", a, b, sh, o) for a, b in pairs for sh in SAME_SHAPES for o in range(len(SAME_ORDERS))]
    # the two classes may also differ in SHAPE (one has a constructor, the other none; one has fields, the other only methods)
    mixed = [("same", a, b, f"{x}+{y}", o) for a, b in pairs for x in SAME_SHAPES for y in SAME_SHAPES if x != y for o in (0, 1, 4)]
    return same + mixed


def register_corpus(register):
    names = list(TEMPLATES)
    same = [c for c in _same_cases() if c[4] == 4][::3]

    def count(tier):
        return len(names) + len(same)

    def get(i):
        if i >= len(names):
            _, a, b, sh, o = same[i - len(names)]
            return {"x.ms": same_name_program(a, b, sh, SAME_ORDERS[o])[0]}
        t = TEMPLATES[names[i]]
        ops = []
        for k, o in enumerate(t["ops"]):
            ops += o(k) if callable(o) else [o]
        return {"x.ms": refint.program(t["prelude"] + ops)}
    register("c08", count, get)
