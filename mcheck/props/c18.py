"""C18 — raw-text -> transpile -> execute behaves exactly like `run`.
Same string space as C04 + single-module corpus + one-instruction files for every opcode name."""
import os
import re

from ..core import build, driver
from ..core.explore import Check
from ..lang import corpus, paths, strlit
from .c04 import program_for, SPLIT_POSITIONS, split_ok

POSITIONS = ["print", "list", "mapkey", "dead", "fnbody"]


def opcode_table():
    """name -> opcode, read from the source of truth in /repo (generate_consts! block)."""
    src = open(os.path.join(build.REPO, "bytecode/src/instruction_constants.rs"), encoding="utf-8").read()
    body = src[src.index("generate_consts! {"):]
    return {m.group(1).lower(): int(m.group(2)) for m in re.finditer(r"^\s+([A-Z0-9_]+)\s+(\d+)\s*$", body, re.M)}


class C18(Check):
    id = "C18"
    level = "exploration"
    rule = ("(a) every string of length <= n over the 11-character special alphabet as a literal in 5 positions of a "
            "single-module program; (b) every single-module example of the repository; (c) generated single-module programs; "
            "(d) every opcode name of the table round-tripped through a one-instruction text file; (e) every single-module revision pair of 5 programs of "
            "different lengths, the pipeline running in a directory that still holds the earlier revision's binary or text outputs.  Each program goes through "
            "compile --output-format raw-text -> rename to .transpiled.mmm -> transpile -> execute and is compared with `run` "
            "(stdout, success, and the loaded instruction streams via hook H3).  Non-trivial = the program compiles.")
    assumptions = ["map output canonicalised", "NUL outside the alphabet", "single-module programs only (as the property states)"]
    chunksize = 8
    quick_cap_s = 300

    def layers(self, tier):
        n = 3 if tier == "quick" else 4
        ex = [("ex", top, rel) for top, rel in corpus.example_files() if corpus.is_single_module(rel)]

        def strings(lo, hi, positions):
            for t in strlit.all_strings(hi, lo):
                for pos in positions:
                    yield ("str", t, pos, False)
        from ..lang import gencorpus
        ops = [("op", name, code) for name, code in sorted(opcode_table().items(), key=lambda kv: kv[1])]
        from .c04 import STALE_PROGS
        single = [i for i, pr in enumerate(STALE_PROGS) if len(pr) == 1]
        stale = [("stale", a, b, w) for a in single for b in single if a != b for w in ("binary", "text")]
        ls = [("L0-opcode-names", ops), ("L0b-stale-outputs-of-an-earlier-revision", stale),
              ("L1-strings<=2-all-positions", list(strings(0, 2, POSITIONS))),
              ("L1s-two-literals-in-one-program(strings-of-length-2-cut-in-two)", [c for c in strings(2, 2, [q for q in SPLIT_POSITIONS]) if split_ok(strlit.decode(c[1]))]),
              ("L2-examples", ex),
              ("L2b-programs-of-the-repository-test-suite", [("test", t[0]) for t in corpus.test_projects() if len(t[1]) == 1]),
              ("L3-generated-corpus", [("gen", nm) for nm in gencorpus.names(tier) if not nm.startswith("c11")]),
              ("L4-strings=3-print", strings(3, 3, ["print"]))]
        if n >= 4:
            ls.append(("L5-strings=3-other-positions", strings(3, 3, POSITIONS[1:])))
            ls.append(("L6-strings=4-print", strings(4, 4, ["print"])))
        return ls

    def describe(self, case):
        if case[0] == "str":
            return {"string": strlit.decode(case[1]), "position": case[2]}
        if case[0] == "stale":
            return {"earlier_revision": case[1], "revision": case[2], "leftovers": case[3]}
        return {"kind": case[0], "name": case[1] if case[0] != "ex" else case[2]}

    def run_op(self, case):
        _, name, code = case
        d = driver.fresh_dir()
        text = f"function __module__\n\t{name} \"arg one\" 2\n\t{name}\nend\n"
        driver.write_files(d, {"o.transpiled.mmm": text})
        t = driver.run(["transpile", "o.transpiled.mmm"], d)
        viol = []
        detail = {"files": {"o.transpiled.mmm": text}, "res": t.brief()}
        deprecated = name in ("nop",)
        if deprecated:
            if t.exit == 0:
                pass
            return {"outcome": "op-deprecated", "nontrivial": False, "tags": ["op"]}
        if t.exit != 0:
            viol.append({"sig": {"kind": "op-rejected", "name": name}, "what": f"transpiler rejects instruction name {name}: {t.err[-200:]}", "detail": detail})
        else:
            data = open(os.path.join(d, "o.mmm"), "rb").read()
            exp = b"f __module__\0" + bytes([code]) + b' "arg one" 2\0' + bytes([code]) + b"\0e\0"
            # the argument encoding may legitimately differ in quoting; compare after tokenising
            recs = data.split(b"\0")
            ok = (len(recs) == 5 and recs[0] == b"f __module__" and recs[1][:1] == bytes([code])
                  and recs[2] == bytes([code]) and recs[3] == b"e" and recs[4] == b"")
            if ok:
                args = recs[1][1:].decode()
                toks = re.findall(r'"((?:[^"\\]|\\.)*)"|(\S+)', args)
                vals = [a if a != "" or b == "" else a for a, b in toks]
                vals = [a or b for a, b in toks]
                ok = vals == ["arg one", "2"]
            if not ok:
                viol.append({"sig": {"kind": "op-mapping", "name": name},
                             "what": f"instruction {name} (opcode {code}) transpiled to {data!r}, expected like {exp!r}", "detail": detail})
        return {"outcome": "op-ok" if not viol else "op-bad", "viol": viol, "nontrivial": True, "tags": ["op"]}

    def run_stale(self, case):
        """the pipeline is run in a directory that still holds what an earlier (other) revision left behind: its binary x.mmm
        (`binary`) or its text form x.transpiled.mmm and the binary made from it (`text`)"""
        from .c04 import STALE_PROGS
        _, a, b, what = case
        A, B = STALE_PROGS[a], STALE_PROGS[b]
        ref_dir = driver.fresh_dir()
        driver.write_files(ref_dir, B)
        ref = driver.run(["run", "x.ms", "-q"], ref_dir)
        d = driver.fresh_dir()
        driver.write_files(d, A)
        # the earlier revision's binary (made directly or through the text form) is what the transpiler finds at its output path
        if what == "binary":
            first = driver.run(["compile", "x.ms", "--quick"], d)
        else:
            st, first = paths.pipeline_transpile(d, "x.ms")
        old_binary = open(os.path.join(d, "x.mmm"), "rb").read() if os.path.exists(os.path.join(d, "x.mmm")) else b""
        driver.write_files(d, B)
        stage, got = None, None
        c = driver.run(["compile", "x.ms", "--quick", "--output-format", "raw-text"], d)
        if c.exit != 0:
            stage, got = "compile", c
        else:
            os.replace(os.path.join(d, "x.mmm"), os.path.join(d, "x.transpiled.mmm"))
            with open(os.path.join(d, "x.mmm"), "wb") as f:
                f.write(old_binary)
            t = driver.run(["transpile", "x.transpiled.mmm"], d)
            if t.exit != 0:
                stage, got = "transpile", t
            else:
                got = driver.run(["execute", "x.mmm"], d)
        viol = []
        if ref.exit != 0 or first.exit != 0:
            return {"outcome": "stale-machinery", "machinery": f"stale-output programs must be valid: {ref.err[-200:]} {first.err[-200:]}"}
        if stage is not None or got.exit != ref.exit or got.out != ref.out:
            viol.append({"sig": {"kind": "stale-output", "what": what},
                         "what": f"revision {b} after revision {a} (earlier {what} outputs present): a fresh directory prints {ref.out!r}; here stage "
                                 f"{stage or 'execute'} gives {got.out[-200:]!r} exit {got.exit} ({got.cls}) {got.err[-200:]}",
                         "detail": {"files": {"earlier/x.ms": A["x.ms"], "x.ms": B["x.ms"]}, "fresh": ref.brief(), "stale": got.brief()}})
        return {"outcome": "stale-ok" + ("-DIFF" if viol else ""), "viol": viol, "nontrivial": True, "tags": ["stale"]}

    def run_case(self, case):
        if case[0] == "op":
            return self.run_op(case)
        if case[0] == "stale":
            return self.run_stale(case)
        d = driver.fresh_dir()
        expected = None
        if case[0] == "str":
            s = strlit.decode(case[1])
            if not strlit.expressible(s):
                return {"outcome": "inexpressible", "nontrivial": False, "tags": ["inexpressible"]}
            files, entry, expected = program_for(s, case[2], case[3])
            driver.write_files(d, files)
            cwd = d
            desc = {"string": s, "position": case[2]}
        elif case[0] == "ex":
            cwd, entry = corpus.stage(d, case[1], case[2])
            files = {}
            desc = {"example": case[2]}
        elif case[0] == "test":
            _, files, entry, _exp = next(t for t in corpus.test_projects() if t[0] == case[1])
            driver.write_files(d, files)
            cwd = d
            desc = {"test": case[1]}
        else:
            from ..lang import gencorpus
            files = gencorpus.get(case[1])
            if len(files) != 1:
                return {"outcome": "multi-module-skipped", "nontrivial": False}
            entry = next(iter(files))
            driver.write_files(d, files)
            cwd = d
            desc = {"generated": case[1]}
        loose = paths.iterates_a_map(cwd)
        d1 = os.path.join(d, "dump-run.txt")
        d2 = os.path.join(d, "dump-tr.txt")
        r1 = driver.run(["run", entry, "-q"], cwd, env={"MSCRIPT_VERIF_DUMP": d1}, timeout=(8 if os.environ.get("VERIF_TIER_","quick")=="quick" else 30))
        if r1.timeout:
            return {"outcome": "skipped-timeout", "nontrivial": False, "tags": ["skipped-timeout"]}
        for root, _, fs in os.walk(cwd):
            for f in fs:
                if f.endswith(".mmm"):
                    os.unlink(os.path.join(root, f))
        stage, r2 = paths.pipeline_transpile(cwd, entry, dump=d2)
        viol = []
        text_form = None
        tp = os.path.join(cwd, os.path.splitext(entry)[0] + ".transpiled.mmm")
        if os.path.exists(tp):
            text_form = open(tp, encoding="utf-8", errors="replace").read()[:4000]
        detail = {"desc": desc, "files": files, "run": r1.brief(), "stage_failed": stage,
                  "pipeline": r2.brief(), "expected_stdout": expected, "text_form": text_form}

        def bad(kind, what, **sig):
            sg = {"kind": kind}
            if case[0] == "str":
                s_ = desc["string"]
                sg["pos"] = desc["position"]
                sg["chars"] = "".join(sorted({("b" if ch == "\\" else "q" if ch == '"' else "s" if ch == " " else "w" if ch in "\t\n\r" else "x") for ch in s_}))
            else:
                sg["name"] = desc.get("example") or desc.get("generated") or desc.get("test")
            sg.update(sig)
            viol.append({"sig": sg, "what": what, "detail": detail})

        if stage == "compile":
            if r1.exit == 0:
                bad("compile-differs", f"`run` ran the program but raw-text compile failed: {r2.err[-300:]}")
            return {"outcome": "rejected" if not viol else "bad", "viol": viol, "nontrivial": False, "tags": ["rejected", case[0] + "-rejected"]}
        if stage == "transpile":
            bad("transpile-failed", f"transpile failed ({r2.cls}): {(r2.err or r2.out)[-300:]}")
        else:
            if r2.cls in ("panic", "abort", "timeout") and r1.cls != r2.cls:
                bad("exec-crash", f"execute of transpiled file ended with {r2.cls}, run with {r1.cls}: {r2.err[-300:]}")
            elif (r1.exit == 0) != (r2.exit == 0):
                bad("status", f"run exit {r1.exit} vs pipeline exit {r2.exit}: {r2.err[-300:]}")
            elif paths.canon_stdout(r1.out, loose) != paths.canon_stdout(r2.out, loose):
                bad("stdout", f"stdout differs: run {r1.out[-200:]!r} vs pipeline {r2.out[-200:]!r}")
            dd = paths.diff_dumps(paths.read_dump(d1), paths.read_dump(d2))
            if dd:
                bad("instruction-stream", f"loaded instruction streams differ: {dd}")
        tags = [case[0]]
        if case[0] == "str":
            tags.append("pos-" + case[2])
        return {"outcome": f"{case[0]}-{r1.cls}" + ("-DIFF" if viol else ""), "viol": viol,
                "nontrivial": True, "tags": tags}

    def finish(self, stats, tier):
        errs = []
        for t in ["str", "ex", "op"]:
            if not stats["tags"].get(t):
                errs.append(f"vacuity: no case of kind {t}")
        if stats["tags"].get("str-rejected"):
            errs.append(f"vacuity: {stats['tags']['str-rejected']} string-literal programs were rejected by the compiler (template broken)")
        return errs
