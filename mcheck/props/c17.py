"""C17 — run-time failures are MScript errors (not Rust panics) with an exact call trace, after all
earlier output has been flushed; a failed assert names file:line:col.
E-prog over (failure kind) x (call chain over frame kinds) x (position of the failing statement)."""
import itertools
import os
import re

from ..core import driver
from ..core.explore import Check
from .c09 import load_dump

FRAME_KINDS = ["fn", "closure", "method", "callback", "modfn"]
POSITIONS = ["plain", "if", "while", "else", "from"]

# failure kind -> (setup + failing statement lines using int parameter `a` (always 1), expected class, message fragment)
FAILS = {
    "assert": (["assert a == 12345"], "assert", "An explicit assertion failed"),
    "get-nil": (["on: int? = nil", "v = get on"], "nil", "unwrap of `nil`"),
    "nil-field": (["oc: Kf? = nil", "v = oc.f"], "nil", "nil object, looking up"),
    "index": (["ll: [int...] = [1]", "v = ll[a + 5]"], "range", "out of bounds"),
    "index-at-len": (["ll: [int...] = [1]", "v = ll[a]"], "range", "out of bounds"),
    "index-neg": (["ll: [int...] = [1]", "ng = 0 - a", "v = ll[ng]"], "range", None),
    "index-empty": (["le: [int...] = []", "zi = a - a", "v = le[zi]"], "range", "out of bounds"),
    "set-at-len": (["ll: [int...] = [1]", "ll[a] = 5"], "range", "out of bounds"),
    "opset-at-len": (["ll: [int...] = [1]", "ll[a] += 5"], "range", "out of bounds"),
    "remove-at-len": (["ll: [int...] = [1]", "v = ll.remove(a)"], "range", "out of bounds"),
    "str-index": (["ss = \"abc\"", "v = ss[a + 5]"], "range", "out of bounds"),
    "str-index-at-len": (["ss = \"x\"", "v = ss[a]"], "range", "out of bounds"),
    "remove": (["ll: [int...] = [1]", "v = ll.remove(a + 5)"], "range", None),
    "div-int": (["z = a - a", "v = 10 / z"], "zero-divisor", "/ by 0"),
    "mod-int": (["z = a - a", "v = 10 % z"], "zero-divisor", "% by 0"),
    "div-big": (["zb = B0", "v = B10 / zb"], "zero-divisor", "/ by 0"),
    "div-float": (["zf = 0.0", "v = 1.5 / zf"], "zero-divisor", "/ by 0"),
    "div-byte": (["zy = 0b0", "v = 0b11 / zy"], "zero-divisor", "/ by 0"),
    "overflow-add": (["big = 2147483647", "v = big + a"], "overflow", None),
    "overflow-mul": (["big = 65536", "v = big * big * a"], "overflow", None),
    "overflow-neg": (["big = 0 - 2147483647", "big = big - a", "v = -big"], "overflow", None),
    "shift-range": (["sh = 40", "v = a << sh"], "overflow", None),
    "conv-byte": (["n3 = 299 + a", "v = n3.to_byte()"], "conversion", "cannot be made into"),
    "conv-int": (["bb = B9999999999", "v = bb.to_int()"], "conversion", "cannot be made into"),
    "substring": (["ss = \"abc\"", "v = ss.substring(2, 8 + a)"], "range", None),
    "map-get": (["mm = map[str, int]", "v = get mm[\"k\"]"], "nil", "unwrap of `nil`"),
    # the same arithmetic failures with an operand that is not a plain int on the stack: a PRESENT optional handed out by a built-in (boxed), a reference
    # into a list / an object / a map, and the op-assignment forms
    "overflow-add-boxed": (["v = \"2147483647\".parse_int() + a"], "overflow", None),
    "overflow-add-boxed-right": (["v = a + \"2147483647\".parse_int()"], "overflow", None),
    "overflow-sub-boxed": (["lo = 0 - 2147483647", "v = lo - \"2\".parse_int() * a"], "overflow", None),
    "overflow-mul-boxed": (["v = \"65536\".parse_int() * 65536 * a"], "overflow", None),
    "overflow-add-boxed-index-of": (["hy: [int...] = [5, 6]", "big = 2147483647", "v = big + hy.index_of(6)"], "overflow", None),
    "overflow-add-bigint-boxed": (["v = \"170141183460469231731687303715884105727\".parse_bigint() + a"], "overflow", None),
    "overflow-add-byte-boxed": (["v = \"0b11111111\".parse_byte() + 0b1"], "overflow", None),
    "overflow-add-elem": (["le: [int...] = [2147483647]", "v = le[0] + a"], "overflow", None),
    "overflow-add-field": (["ok = Kf()", "ok.f = 2147483647", "v = ok.f + a"], "overflow", None),
    "overflow-add-map-entry": (["mm = map[str, int]", "mm[\"k\"] = 2147483647", "v = (get mm[\"k\"]) + a"], "overflow", None),
    "overflow-neg-elem": (["le: [int...] = [0 - 2147483647]", "le[0] -= a", "v = -le[0]"], "overflow", None),
    "overflow-opassign": (["big = 2147483647", "big += a"], "overflow", None),
    "overflow-opassign-elem": (["le: [int...] = [2147483647]", "le[0] += a"], "overflow", None),
    "overflow-opassign-field": (["ok = Kf()", "ok.f = 2147483647", "ok.f += a"], "overflow", None),
    "overflow-opassign-mul-map-entry": (["mm = map[str, int]", "mm[\"k\"] = 65536", "mm[\"k\"] *= 65536 * a"], "overflow", None),
    "div-int-boxed": (["v = 10 / \"0\".parse_int()"], "zero-divisor", "/ by 0"),
    "div-int-elem": (["lz: [int...] = [0]", "v = 10 / lz[0]"], "zero-divisor", "/ by 0"),
    "mod-int-field": (["ok = Kf()", "ok.f = 0", "v = 10 % ok.f"], "zero-divisor", "% by 0"),
    "div-opassign-elem": (["lz: [int...] = [10]", "z = a - a", "lz[0] /= z"], "zero-divisor", "/ by 0"),
    "shift-range-boxed": (["v = a << \"40\".parse_int()"], "overflow", None),
    "conv-byte-boxed": (["v = \"300\".parse_int().to_byte()"], "conversion", None),
    # the one quotient that does not fit its kind, and built-in arguments outside their range
    "div-min": (["lo = 0 - 2147483647", "lo = lo - a", "m1 = 0 - a", "v = lo / m1"], "overflow", None),
    "div-min-big": (["lb = B0 - B170141183460469231731687303715884105727", "lb = lb - a", "m1 = 0 - a", "v = lb / m1"], "overflow", None),
    "div-min-opassign": (["lo = 0 - 2147483647", "lo = lo - a", "m1 = 0 - a", "lo /= m1"], "overflow", None),
    "div-min-elem": (["le: [int...] = [0 - 2147483647]", "le[0] -= a", "m1 = 0 - a", "v = le[0] / m1"], "overflow", None),
    "radix-range": (["rx = 98 + a", "v = \"ff\".parse_int_radix(rx)"], "conversion", None),
    "radix-range-low": (["rx = a", "v = \"1\".parse_int_radix(rx)"], "conversion", None),
    "radix-range-big": (["rx = 36 + a", "v = \"ff\".parse_bigint_radix(rx)"], "conversion", None),
    "repeat-range": (["rn = 0 - a", "v = \"ab\" * rn"], "range", None),
    "abs-min": (["lo = 0 - 2147483647", "lo = lo - a", "v = lo.abs()"], "overflow", None),
    "abs-min-big": (["lb = B0 - B170141183460469231731687303715884105727", "lb = lb - a", "v = lb.abs()"], "overflow", None),
}
CARRIED_FAILS = [k for k in FAILS if any(t in k for t in ("-boxed", "-elem", "-field", "-map-entry", "-opassign"))]
# failure kinds raised by a built-in method -> a fragment of that built-in's name in the `<native code>#...` trace line
NATIVE_OF = {"conv-byte-boxed": "ToByte", "abs-min": "Abs", "abs-min-big": "Abs", "radix-range": "ParseIntRadix", "radix-range-low": "ParseIntRadix", "radix-range-big": "ParseBigintRadix", "remove": "Remove", "remove-at-len": "Remove", "substring": "Substring", "conv-byte": "ToByte", "conv-int": "ToInt"}
QUICK_FAILS = CARRIED_FAILS + ["assert", "get-nil", "index", "index-at-len", "set-at-len", "div-int", "div-byte", "overflow-add", "conv-byte", "remove", "nil-field", "div-float", "div-min", "div-min-big", "div-min-opassign", "radix-range", "radix-range-low", "radix-range-big", "repeat-range", "abs-min", "abs-min-big"]


def chain_ok(chain):
    for i, k in enumerate(chain):
        if k == "modfn" and i + 1 < len(chain) and chain[i + 1] not in ("fn", "closure"):
            return False
        if k == "callback" and i == 0:
            pass
    return True


# completed control flow that ran earlier in a still-active function: loops left by break / continue from if, else-if and else arms, a finished
# if/else.  None of it is active at the failure, so none of it may show in the trace.
HIST = ["hq = 0", "while hq < 3 {", "\thq = hq + 1", "\tif hq == 1 {", "\t\tcontinue", "\t} else if hq == 2 {", "\t\thq = hq + 0", "\t} else {", "\t\tbreak", "\t}", "}",
        "from 0 to 3, gq {", "\tif gq == 1 {", "\t\tcontinue", "\t} else {", "\t\tif gq == 2 {", "\t\t\tbreak", "\t\t}", "\t}", "}",
        "hz = 0", "if a == 1 {", "\thz = 1", "} else {", "\thz = 2", "}",
        # loops nested IN the arms of an if / else, left through their condition and through break
        "if a == 1 {", "\thw = 0", "\twhile hw < 2 {", "\t\thw = hw + 1", "\t}", "} else {", "\tfrom 0 to 2, ge {", "\t\thz = ge", "\t}", "}",
        "if a == 2 {", "\thz = 3", "} else if a == 1 {", "\tfrom 0 to 3, gf {", "\t\tif gf == 1 {", "\t\t\tbreak", "\t\t}", "\t}", "} else {", "\thz = 4", "}"]
OPEN_BLOCKS = {"plain": 0, "if": 1, "else": 1, "while": 2, "from": 1}


def fail_block(fk, pos, ind):
    lines = FAILS[fk][0]
    setup, last = lines[:-1], lines[-1]
    pos, _, ctx = pos.partition("@")
    pos = pos.replace("+hist", "")
    if ctx and last.startswith("v = "):
        # the failing expression in another statement context than an assignment
        e = last[4:]
        last = {"print": f"print {e}", "list": f"vl = [{e}]", "cond": f"if ({e}) == ({e}) {{\n" + "\t" * ind + "}",
                "while-cond": f"while ({e}) != ({e}) {{\n" + "\t" * ind + "}", "assert": f"assert ({e}) == ({e})",
                "interpolated": f'vs = "v" + ({e})'}[ctx]
    p = "\t" * ind
    out = [p + l for l in setup]
    if pos == "plain":
        out.append(p + last)
    elif pos == "if":
        out += [p + "if a == 1 {", p + "\t" + last, p + "}"]
    elif pos == "else":
        out += [p + "if a == 2 {", p + "\tprint \"no\"", p + "} else {", p + "\t" + last, p + "}"]
    elif pos == "while":
        out += [p + "wq = 0", p + "while wq < 2 {", p + "\twq = wq + 1", p + "\tif wq == 2 {", p + "\t\t" + last, p + "\t}", p + "}"]
    elif pos == "from":
        out += [p + "from 0 to 2, fq {", p + "\t" + last, p + "}"]
    return out


def build(chain, fk, pos):
    """-> (files, expected stdout lines, list of (kind, name) innermost first, assert position or None)"""
    n = len(chain)
    hist = HIST if "+hist" in pos else []
    main = ["class Kf {", "\tf: int", "\tconstructor(self) {", "\t\tself.f = 1", "\t}", "}"]
    helper = []
    expected = []
    frames = []          # (kind, identifying name)

    def call_next(i):
        """expression text calling frame i+1 (1-based frame numbers) from frame i's body"""
        j = i + 1
        k = chain[j - 1]
        if k in ("fn", "closure"):
            return [], f"f{j}(a)"
        if k == "method":
            return [], f"o{j}.m{j}(a)"
        if k == "callback":
            return [f"l{j}: [int...] = [a]", f"r{j} = l{j}.map(cb{j})"], f"r{j}[0]"
        if k == "modfn":
            nxt = f", f{j + 1}" if j < n else ", stop"
            return [], f"helper.mf{j}(a{nxt})"
        raise ValueError(k)

    defs = []
    for i in range(n, 0, -1):
        k = chain[i - 1]
        body = [f'print "enter {i}"'] + hist
        if i == n:
            body += fail_block(fk, pos, 0)
            body += ['print "after failure"', "return a"]
        else:
            if k == "modfn":
                body += ["rr = nx(a)"]
            else:
                pre, call = call_next(i)
                body += pre + [f"rr = {call}"]
            body += [f'print "leave {i}"', "return rr"]
        ind = ["\t" + l for l in body]
        if k == "fn":
            defs.append([f"f{i} = fn(a: int) -> int {{"] + ind + ["}"])
            frames.append(("store", f"f{i}"))
        elif k == "closure":
            inner = [f"\tclo{i} = fn(a: int) -> int {{", f'\t\tprint "cap " + c'] + ["\t" + l for l in ind] + ["\t}", f"\treturn clo{i}"]
            defs.append([f"mk{i} = fn(c: int) -> fn(int) -> int {{"] + inner + ["}", f"f{i} = mk{i}(7)"])
            frames.append(("store", f"clo{i}"))
        elif k == "method":
            defs.append([f"class K{i} {{", "\tconstructor(self) {}", f"\tfn m{i}(self, a: int) -> int {{"] +
                        ["\t" + l for l in ind] + ["\t}", "}", f"o{i} = K{i}()"])
            frames.append(("method", f"K{i}::m{i}"))
        elif k == "callback":
            defs.append([f"cb{i} = fn(a: int) -> int {{"] + ind + ["}"])
            frames.append(("store", f"cb{i}"))
        elif k == "modfn":
            helper += [f"export mf{i}: fn(int, fn(int) -> int) -> int = fn(a: int, nx: fn(int) -> int) -> int {{"] + ind + ["}"]
            frames.append(("export", f"mf{i}"))
    for d in defs:
        main += d
    if any(k == "modfn" for k in chain):
        main = ["import helper", "stop = fn(a: int) -> int {", "\treturn a", "}"] + main
    # module-level driver
    main.append('print "start"')
    if n == 0:
        main += ["a = 1"] + hist + fail_block(fk, pos, 0) + ['print "after failure"']
    else:
        k = chain[0]
        main.append("a = 1")
        main += hist
        if k == "modfn":
            nxt = ", f2" if n > 1 else ", stop"
            main.append(f"res = helper.mf1(a{nxt})")
        elif k == "callback":
            main += ["l1: [int...] = [a]", "r1 = l1.map(cb1)", "res = r1[0]"]
        elif k == "method":
            main.append("res = o1.m1(a)")
        else:
            main.append("res = f1(a)")
        main.append('print "done"')
    exp = ["start"]
    for i in range(1, n + 1):
        if chain[i - 1] == "closure":
            exp.append("cap 7")
        exp.append(f"enter {i}")
    files = {"x.ms": "\n".join(main) + "\n"}
    if helper:
        if chain and chain[-1] == "modfn" and "Kf" in " ".join(FAILS[fk][0]):
            helper = ["class Kf {", "\tf: int", "\tconstructor(self) {", "\t\tself.f = 1", "\t}", "}"] + helper
        files["helper.ms"] = "\n".join(helper) + "\n"
    return files, exp, frames


def learn_labels(dump):
    """(kind, name) -> label, from make_function/store pairs and function names of the loaded files."""
    by_store = {}
    methods = {}
    for qn, instrs in dump.items():
        fname = qn.split("#", 1)[1]
        if "::" in fname:
            methods[fname] = qn
        for i, (name, args) in enumerate(instrs):
            if name == "make_function" and i + 1 < len(instrs):
                nn, na = instrs[i + 1]
                if nn in ("store", "store_fast", "export_special") and na:
                    by_store[na[0]] = args[0]
    return by_store, methods


class C17(Check):
    id = "C17"
    level = "exploration"
    rule = ("every (failure kind in {assert, get of nil, field of nil, list / string index, remove, zero divisor of each kind, % by 0, "
            "overflow (+, *, unary -), shift range, failed to_byte / to_int, substring range, map key}) x (call chain: all sequences of "
            "length 0..L over {plain function, closure, method, map callback, function of an imported module}) x (failing statement "
            "plain / inside if / else / while / from; for chains <= 1 also the failing expression as print argument, list element, if condition, "
            "while condition, assert operand and string concatenation operand); failures raised WHILE AN IMPORTED MODULE RUNS ITS TOP LEVEL (5 kinds x 0..2 functions below the top level x import form x import statement at module level / in a block / in a function x 1 or 2 modules between entry and failing module).  Each frame prints a line before calling the next.  Non-trivial = chain length >= 1.")
    assumptions = ["function labels are learnt from make_function/store pairs and method names in the loaded bytecode (hook H3), not guessed",
                   "block pseudo-frames (<if>, <else>, <while>) are not compared with the function list, but the report may show at most the blocks open at the failure (none of a finished loop or branch, none in a caller); a failure raised by a built-in method must list that built-in (<native code>#...) as the innermost line, other failures must not",
                   "stdout and stderr are captured through one pipe so that flush ordering is observable"]
    chunksize = 16

    def layers(self, tier):
        L = 4
        fails = QUICK_FAILS if tier == "quick" else list(FAILS)

        def chains(lo, hi):
            for n in range(lo, hi + 1):
                for ch in itertools.product(FRAME_KINDS, repeat=n):
                    if chain_ok(ch):
                        yield ch
        l0 = [(ch, fk, pos) for ch in chains(0, 1) for fk in FAILS for pos in POSITIONS]
        l1 = [(ch, fk, "plain") for ch in chains(2, 2) for fk in fails] + \
             [(ch, "assert", pos) for ch in chains(2, 2) for pos in POSITIONS[1:]]
        l2 = ((ch, fk, "if") for ch in chains(3, L) for fk in (fails if tier == "thorough" else ["assert", "div-int", "index", "overflow-add-boxed"]))
        ctxs = ["print", "list", "cond", "while-cond", "assert", "interpolated"]
        l0b = [(ch, fk, "plain@" + cx) for ch in chains(0, 1) for fk in FAILS if FAILS[fk][0][-1].startswith("v = ") for cx in ctxs]
        l0h = [(ch, fk, pos + "+hist") for ch in chains(0, 2) for fk in ("assert", "index", "div-int") for pos in POSITIONS]
        limp = [("imp", fk, dpt, form, where, hops) for fk in self.IMP_FAILS for dpt in (0, 1, 2) for form in ("module", "names") for where in ("module", "if", "fn") for hops in (1, 2)]
        ls = [("Li-failure-while-an-imported-module-initialises", limp), ("L0-chains<=1-all-kinds-all-positions", l0), ("L0h-chains<=2-after-completed-loops-and-branches-in-every-active-function", l0h), ("L0b-chains<=1-failing-expression-in-6-statement-contexts", l0b),
              ("L1-chains=2", l1), (f"L2-chains-3..{L}", l2)]
        if tier == "thorough":
            deep = [k for k in FRAME_KINDS if k in ("fn", "method", "callback")]
            l3 = ((ch, fk, "plain") for n in (5, 6) for ch in itertools.product(deep, repeat=n) for fk in ["assert", "index", "div-int"])
            ls.append(("L3-chains-5..6-over-fn-method-callback", l3))
        return ls

    def describe(self, case):
        if case[0] == "imp":
            return {"failure while an imported module initialises": case[1], "functions between the module's top level and the failure": case[2], "import form": case[3],
                    "import statement in": case[4], "modules between entry and failing module": case[5]}
        return {"chain": list(case[0]), "failure": case[1], "position": case[2]}

    # a failure raised WHILE AN IMPORTED MODULE RUNS ITS TOP LEVEL (directly there, or in functions it calls): the trace lists those functions, the
    # module's own top level, every importing module's top level (and the function that holds the import statement) down to the entry module
    IMP_FAILS = ["assert", "div-int", "index", "get-nil", "overflow-add-boxed"]

    def run_import_failure(self, case):
        _, fk, depth, form, where, hops = case
        init = ['print "init start"', "class Kf {", "\tf: int", "\tconstructor(self) {", "\t\tself.f = 1", "\t}", "}"]
        for i in range(depth, 0, -1):
            body = [f'print "enter {i}"'] + (fail_block(fk, "plain", 0) + ['print "after failure"', "return a"] if i == depth else [f"rr = g{i + 1}(a)", "return rr"])
            init += [f"g{i} = fn(a: int) -> int {{"] + ["\t" + l for l in body] + ["}"]
        init += (["a = 1"] + fail_block(fk, "plain", 0) + ['print "after failure"']) if depth == 0 else ["rq = g1(1)"]
        init += ['print "init end"', "export done: int = 1"]
        imp = {"module": "import {M}", "names": "import done from {M}"}[form]
        files = {"initm.ms": "\n".join(init) + "\n"}
        target = "initm"
        exp = []
        mods = ["initm"]
        if hops == 2:
            files["mid.ms"] = "\n".join(['print "mid start"', imp.replace("{M}", "initm"), 'print "mid end"', "export done: int = 2"]) + "\n"
            target = "mid"
            mods.append("mid")
        stmt = imp.replace("{M}", target)
        main = ['print "start"']
        holder = None
        if where == "module":
            main += [stmt]
        elif where == "if":
            main += ["if true {", "\t" + stmt, "}"]
        else:
            main += ["hf = fn() {", "\t" + stmt, "}", "hf()"]
            holder = "hf"
        main += ['print "after import"']
        files["x.ms"] = "\n".join(main) + "\n"
        exp = ["start"] + (["mid start"] if hops == 2 else []) + ["init start"] + [f"enter {i}" for i in range(1, depth + 1)]
        d = driver.fresh_dir()
        driver.write_files(d, files)
        du = os.path.join(d, "dump.txt")
        res = driver.run(["run", "x.ms", "-q"], d, env={"MSCRIPT_VERIF_DUMP": du}, merge=True)
        text = res.out
        viol = []
        desc = self.describe(case)
        detail = {"files": files, "res": res.brief(), "expected_stdout": exp}

        def bad(kind, what):
            viol.append({"sig": {"kind": kind, "failure": fk, "innermost": "import-time"}, "what": f"{desc}: {what}", "detail": detail})
        if driver.compile_rejected(driver.Res(res.exit, "", text)):
            return {"outcome": "rejected", "nontrivial": False, "tags": ["rejected", f"rej-imp-{where}-{form}"], "show": text[-300:]}
        if res.exit == 0 or res.cls != "error":
            bad("not-an-mscript-error", f"expected a run-time error report, got {res.cls} (exit {res.exit}): {text[-200:]}")
            return {"outcome": "imp-DIFF", "viol": viol, "nontrivial": True, "tags": ["imp"]}
        tl = text.split("\n")
        start = next((i for i, l in enumerate(tl) if driver.runtime_banner(driver.Res(1, "", l))), None)
        if start is None:
            bad("no-banner", f"exit 1 without the fatal run-time error report: {text[-200:]}")
            return {"outcome": "imp-DIFF", "viol": viol, "nontrivial": True, "tags": ["imp"]}
        before = [l for l in tl[:start] if l.strip() and not set(l.strip()) <= {"*"}]
        after = "\n".join(tl[start:])
        if before != exp:
            bad("stdout", f"output before the banner should be {exp}, got {before}")
        if any(l in after for l in ("after failure", "init end", "mid end", "after import")):
            bad("ran-on", "statements after the failing one were executed")
        got = []
        for tl_ in after.split("\n"):
            mfl = re.match(r"^[\s\W\d]*?(?:at\s+|in\s+)?(<native code>#\S+|[^\s#<>`'\"]+\.mmm#\S+?)[\s,;.:]*$", tl_)
            if mfl and not mfl.group(1).startswith("<"):
                got.append(mfl.group(1))
        by_store, _ = learn_labels(load_dump(du))
        want = []
        for i in range(depth, 0, -1):
            lab = by_store.get(f"g{i}")
            if lab is None:
                return {"outcome": "label-unknown", "machinery": f"could not learn the label of g{i} from the bytecode dump"}
            want.append(lab)
        want += [f"{m}.mmm#__module__" for m in mods]
        if holder:
            lab = by_store.get(holder)
            if lab is None:
                return {"outcome": "label-unknown", "machinery": "could not learn the label of hf from the bytecode dump"}
            want.append(lab)
        want.append("x.mmm#__module__")
        norm = [os.path.basename(g.split("#")[0]) + "#" + g.split("#", 1)[1] for g in got]
        wnorm = [os.path.basename(w.split("#")[0]) + "#" + w.split("#", 1)[1] for w in want]
        if norm != wnorm:
            bad("trace", f"trace should list {wnorm}, got {norm}")
        if fk == "assert":
            src = files["initm.ms"].split("\n")
            ln = next(i + 1 for i, l in enumerate(src) if l.strip().startswith("assert "))
            want_pos = f"initm.ms:{ln}:{src[ln - 1].index('assert') + 1}"
            named = re.findall(r"[\w./-]+\.ms:\d+:\d+", after)
            if not any(n == want_pos or n.endswith("/" + want_pos) for n in named):
                bad("assert-position", f"assert is at {want_pos}; report names {named or None}")
        return {"outcome": "imp-error" + ("-DIFF" if viol else ""), "viol": viol, "nontrivial": True, "tags": ["imp", f"f-{fk}"]}

    def run_case(self, case):
        if case[0] == "imp":
            return self.run_import_failure(case)
        chain, fk, pos = case
        files, exp, frames = build(chain, fk, pos)
        d = driver.fresh_dir()
        driver.write_files(d, files)
        du = os.path.join(d, "dump.txt")
        res = driver.run(["run", "x.ms", "-q"], d, env={"MSCRIPT_VERIF_DUMP": du}, merge=True)
        text = res.out
        viol = []
        desc = self.describe(case)
        detail = {"files": files, "res": res.brief(), "expected_stdout": exp}

        def bad(kind, what):
            viol.append({"sig": {"kind": kind, "failure": fk, "innermost": chain[-1] if chain else "module"},
                         "what": f"{desc}: {what}", "detail": detail})

        if driver.compile_rejected(driver.Res(res.exit, "", text)):
            return {"outcome": "rejected", "nontrivial": False, "tags": ["rejected", f"rej-{fk}"], "show": text[-300:]}
        if res.exit == 0:
            bad("no-failure", f"the program was expected to fail ({fk}) but exited 0: {text[-200:]}")
            return {"outcome": "no-failure", "viol": viol, "nontrivial": True}
        if res.cls != "error":
            bad("not-an-mscript-error", f"failure delivered as {res.cls} (exit {res.exit}): {driver.panic_message(res) or text[-200:]}")
            return {"outcome": f"{fk}-{res.cls}", "viol": viol, "nontrivial": True, "tags": [f"f-{fk}"]}
        # the report starts at the first line that the binary under test prints for every run-time failure and for no compile
        # failure (learnt by calibration, so its wording is free)
        tl = text.split("\n")
        start = next((i for i, l in enumerate(tl) if driver.runtime_banner(driver.Res(1, "", l))), None)
        if start is None:
            bad("no-banner", f"exit 1 without the fatal run-time error report: {text[-200:]}")
            return {"outcome": "no-banner", "viol": viol, "nontrivial": True}
        before, after = "\n".join(tl[:start]), "\n".join(tl[start:])
        before_lines = [l for l in before.split("\n") if l.strip() and not set(l.strip()) <= {"*"}]
        if before_lines != exp:
            bad("stdout", f"output before the banner should be {exp}, got {before_lines}")
        if any(l in after for l in ("after failure", "leave ", "done")):
            bad("ran-on", "statements after the failing one were executed")
        # trace = the frame labels (`<file>.mmm#<function>` / `<native code>#<built-in>`) in order of appearance, whatever decorates them
        # (a frame line carries its label and decoration only; a label mentioned inside a sentence of the cause chain is not a frame)
        got = []
        for tl_ in after.split("\n"):
            mfl = re.match(r"^[\s\W\d]*?(?:at\s+|in\s+)?(<native code>#\S+|[^\s#<>`'\"]+\.mmm#\S+?)[\s,;.:]*$", tl_)
            if mfl:
                got.append(mfl.group(1))
        # block pseudo-frames (lines that carry a bare `<...>` label): if the report shows them, it may show only blocks that are open at the
        # failure - the blocks around the failing statement in the innermost function, none in its callers (they call from their top level)
        segs, cur = [], 0
        for tl_ in after.split("\n"):
            if re.match(r"^[\s\W\d]*?<[A-Za-z_ -]+>[\s,;.:]*$", tl_):
                cur += 1
            elif re.match(r"^[\s\W\d]*?(?:at\s+|in\s+)?([^\s#<>`'\"]+\.mmm#\S+?)[\s,;.:]*$", tl_):
                segs.append(cur)
                cur = 0
        base_pos = pos.partition("@")[0].replace("+hist", "")
        allowed = OPEN_BLOCKS[base_pos]
        if segs and (segs[0] > allowed or any(x > 0 for x in segs[1:])):
            bad("stale-block-frames", f"the trace shows block frames that are not open at the failure: per function (innermost first) {segs}, "
                                      f"open blocks around the failing statement: {allowed}, none in the callers")
        if not got:
            bad("no-trace", f"no call stack trace in the report: {after[:300]}")
        else:
            # built-in frames: a failure raised by a built-in method lists that built-in as the innermost active function; no
            # other failure may show one there (a `map` / `filter` frame between a callback and its caller is accepted either way)
            natives = [(i, g) for i, g in enumerate(got) if g.startswith("<native code>")]
            want_native = NATIVE_OF.get(fk)
            inner = got[0] if got else ""
            if want_native:
                if not (inner.startswith("<native code>") and want_native.lower() in inner.lower()):
                    bad("trace-native", f"the failure is raised inside the built-in `{want_native}`; the innermost trace line is {inner!r}")
            elif inner.startswith("<native code>"):
                bad("trace-native", f"no built-in is active at this failure, yet the innermost trace line is {inner!r}")
            got = [g for g in got if not g.startswith("<")]
            by_store, methods = learn_labels(load_dump(du))
            want = []
            unknown = None
            for kind, name in frames:
                if kind == "method":
                    lab = methods.get(name)
                else:
                    lab = by_store.get(name)
                if lab is None:
                    unknown = name
                want.append(lab)
            want.append("x.mmm#__module__")
            if unknown:
                return {"outcome": "label-unknown", "machinery": f"could not learn the label of {unknown} from the bytecode dump"}
            norm = [os.path.basename(g.split("#")[0]) + "#" + g.split("#", 1)[1] if "#" in g else g for g in got]
            wnorm = [os.path.basename(w.split("#")[0]) + "#" + w.split("#", 1)[1] for w in want]
            if norm != wnorm:
                bad("trace", f"trace should list {wnorm}, got {norm}")
        frag = FAILS[fk][2]
        msg_tag = "msg-known" if (frag and frag in after) else "msg-other"       # wording is not part of the property: recorded, not judged
        if fk == "assert":
            src_file = "helper.ms" if chain and chain[-1] == "modfn" else "x.ms"
            src = files[src_file].split("\n")
            ln = next(i + 1 for i, l in enumerate(src) if l.strip().startswith("assert "))
            col = src[ln - 1].index("assert") + 1
            want_pos = f"{src_file}:{ln}:{col}"
            named = re.findall(r"[\w./-]+\.ms:\d+:\d+", after)
            if not any(n == want_pos or n.endswith("/" + want_pos) for n in named):
                bad("assert-position", f"assert is at {want_pos}; report names {named or None}")
        return {"outcome": f"{fk}-error" + ("-DIFF" if viol else ""), "viol": viol, "nontrivial": len(chain) >= 1,
                "tags": [f"f-{fk}", f"len{len(chain)}", msg_tag] + [f"k-{k}" for k in set(chain)]}

    def finish(self, stats, tier):
        errs = []
        for k in FRAME_KINDS:
            if not stats["tags"].get(f"k-{k}"):
                errs.append(f"vacuity: frame kind {k} never executed")
        rej = stats["tags"].get("rejected", 0)
        if rej:
            errs.append(f"vacuity: {rej} generated programs rejected by the compiler: " +
                        str({k: v for k, v in stats['tags'].items() if k.startswith('rej-')}))
        return errs
