"""C04 — `run` (in-memory bytecode) and `compile` + `execute` (bytecode files) are equivalent.
Exhaustive string-literal space in several positions + program corpus; differential oracle on
stdout / success, plus instruction-stream comparison through hook H3, plus the intended text."""
import os

from ..core import driver
from ..core.explore import Check
from ..lang import corpus, paths, strlit

POSITIONS = ["print", "list", "mapkey", "import", "dead", "fnbody"]
DIRNAMES = ["a b", "é", "a\"b", "a\\b", "a\tb", "a'b", "\u00a0x", "\U0001F600", "a#b", "a b/c d"]


def program_for(s, pos, raw_ws=False):
    """-> (files, entry, expected stdout or None)"""
    lit = strlit.literal(s, raw_ws)
    if pos == "print":
        return {"x.ms": f"print {lit}\nprint \"end\"\n"}, "x.ms", s + "\nend\n"
    if pos == "list":
        return ({"x.ms": f"x: [str...] = [{lit}, \"z\"]\nprint x\n"}, "x.ms",
                '["' + s + '", "z"]\n')
    if pos == "mapkey":
        return ({"x.ms": f"m = map[str, int]\nm[{lit}] = 1\nprint m\nprint m[{lit}]\n"}, "x.ms",
                '{"' + s + '": 1}\n1\n')
    if pos == "import":
        return ({"x.ms": "import m\nprint m.s\nprint m.f()\n",
                 "m.ms": f"export s: str = {lit}\nexport f: fn() -> str = fn() -> str {{ return {lit} + \"|\" }}\n"},
                "x.ms", s + "\n" + s + "|\n")
    if pos == "dead":
        return ({"x.ms": f"k = 1\nif k == 2 {{\n\tprint {lit}\n}}\nprint \"end\"\n"}, "x.ms", "end\n")
    if pos == "fnbody":
        return ({"x.ms": f"f = fn(p: str) -> str {{\n\treturn p + {lit}\n}}\nprint f(\"<\") + \">\"\n"}, "x.ms",
                "<" + s + ">\n")
    if pos.startswith("split-"):
        # TWO literals in one program: the string is cut after its first character; both parts are arguments of their own
        a, b = s[:1], s[1:]
        la, lb = strlit.literal(a, raw_ws), strlit.literal(b, raw_ws)
        if pos == "split-print":
            return {"x.ms": f"print {la}\nprint {lb}\nprint \"end\"\n"}, "x.ms", a + "\n" + b + "\nend\n"
        if pos == "split-fns":
            return ({"x.ms": f"f = fn() -> str {{\n\treturn {la}\n}}\ng = fn() -> str {{\n\treturn {lb}\n}}\nprint \"<\" + f() + \"|\" + g() + \">\"\n"}, "x.ms",
                    "<" + a + "|" + b + ">\n")
        if pos == "split-mapkv":
            return ({"x.ms": f"m = map[str, str]\nm[{la}] = {lb}\nprint m\nprint m[{la}]\n"}, "x.ms", '{"' + a + '": "' + b + '"}\n' + b + "\n")
        if pos == "split-concat":
            return {"x.ms": f"print {la} + {lb} + {la}\n"}, "x.ms", a + b + a + "\n"
    raise ValueError(pos)


SPLIT_POSITIONS = ["split-print", "split-fns", "split-mapkv", "split-concat"]


def split_ok(s):
    return len(s) >= 2 and strlit.expressible(s[:1]) and strlit.expressible(s[1:])


# (d) stale outputs: a directory in which an earlier revision of the program has already been compiled (or run).  Programs of
# different compiled lengths, with and without an imported module, each revision compiled over every other one
_LONG = "".join(f"f{i} = fn(a: int) -> int {{\n\treturn a * {i} + 1\n}}\nprint f{i}({i})\n" for i in range(6))
STALE_PROGS = [
    {"x.ms": 'print "short"\n'},
    {"x.ms": _LONG},
    {"x.ms": 'l: [int...] = [1, 2, 3]\nprint l.map(fn(v: int) -> int {\n\treturn v * 2\n})\nprint "mid"\n'},
    {"x.ms": "import m\nprint m.v\nprint m.g()\n", "m.ms": "export v: int = 2\nexport g: fn() -> str = fn() -> str {\n\treturn \"g\"\n}\n"},
    {"x.ms": "import m\nprint m.v + 1\n", "m.ms": "export v: int = 40\n"},
    {"x.ms": 'print "a"\nimport m\nprint m.h(2)\n' + _LONG,
     "m.ms": "export h: fn(int) -> int = fn(a: int) -> int {\n\tk = a + 1\n\tif k > 2 {\n\t\treturn k * 10\n\t}\n\treturn k\n}\nprint \"m ready\"\n"},
    {"x.ms": "class K {\n\tv: int\n\tconstructor(self, v: int) {\n\t\tself.v = v\n\t}\n\tfn val(self) -> int {\n\t\treturn self.v\n\t}\n}\nkk = K(5)\nprint kk.val()\n"},
]
STALE_SEQS = ["compile-compile-execute", "run-compile-execute", "compile-run", "run-run"]


class C04(Check):
    id = "C04"
    level = "exploration"
    rule = ("(a) every string of length <= n over the 14-character alphabet {\" \\ space tab LF CR n r t é a NBSP VT U+1F600} "
            "as a source literal in 6 positions (print argument, list element, map key, exported member and function "
            "of an imported module, never-executed code, function body); strings ending in a backslash are inexpressible "
            "as a literal and are counted, not run; raw (unescaped) tab/LF/CR spelling as a deviation; "
            "(b) every example program of /repo/examples and /repo/leetcode_problems and every program (single- or multi-file) of the repository's own test suite "
            "(compiler/src/tests/*.rs, which the suite only ever runs in memory); (c) generated programs of the other "
            "checks' generators; (d) 7 programs of different compiled lengths (with / without an imported module): every revision compiled (or run) in a "
            "directory that already holds the outputs of every other revision, sequences compile-compile-execute, run-compile-execute, compile-run, run-run, "
            "compared with a fresh directory.  Each case is executed by `run` and by `compile`+`execute`; non-trivial = the program "
            "compiles; distinct = distinct (string, position, spelling) or file.")
    assumptions = ["map output canonicalised as a token multiset (HashMap order differs between processes)",
                   "NUL is outside the alphabet (it is the instruction separator of the file format)",
                   "examples that do not terminate within 20 s under `run` are skipped and counted"]
    chunksize = 8
    quick_cap_s = 300

    def layers(self, tier):
        n = 3 if tier == "quick" else 4
        ex = [("ex", top, rel) for top, rel in corpus.example_files()]

        def strings(lo, hi, positions, raw=False):
            for t in strlit.all_strings(hi, lo):
                s = strlit.decode(t)
                if raw and not any(c in s for c in "\t\n\r"):
                    continue
                for pos in positions:
                    yield ("str", t, pos, raw)

        from ..lang import gencorpus
        ls = [("L0-directory-names", [("dir", i) for i in range(len(DIRNAMES))]),
              ("L0-strings<=2-all-positions", list(strings(0, 2, POSITIONS))),
              ("L0s-two-literals-in-one-program(strings-of-length-2-cut-in-two)", [c for c in strings(2, 2, SPLIT_POSITIONS) if split_ok(strlit.decode(c[1]))]),
              ("L0c-stale-outputs-of-an-earlier-revision", [("stale", a, b, q) for a in range(len(STALE_PROGS)) for b in range(len(STALE_PROGS))
                                                            if a != b for q in range(len(STALE_SEQS))]),
              ("L1-examples", ex),
              ("L1b-programs-of-the-repository-test-suite", [("test", t[0]) for t in corpus.test_projects()]),
              ("L2-strings<=2-raw-whitespace", list(strings(0, 2, ["print", "import"], raw=True))),
              ("L3-generated-corpus", [("gen", name) for name in gencorpus.names(tier)]),
              ("L4-strings=3-print+import", strings(3, 3, ["print", "import"]))]
        if n >= 4:
            ls.append(("L5s-two-literals-in-one-program(strings-of-length-3)", (c for c in strings(3, 3, SPLIT_POSITIONS) if split_ok(strlit.decode(c[1])))))
            ls.append(("L5-strings=3-other-positions", strings(3, 3, ["list", "mapkey", "dead", "fnbody"])))
            ls.append(("L6-strings=4-print", strings(4, 4, ["print"])))
            ls.append(("L7-strings=4-import", strings(4, 4, ["import"])))
        return ls

    def describe(self, case):
        if case[0] == "stale":
            return {"earlier_revision": case[1], "revision": case[2], "sequence": STALE_SEQS[case[3]]}
        if case[0] == "str":
            return {"string": strlit.decode(case[1]), "position": case[2], "raw_whitespace": case[3]}
        return {"kind": case[0], "name": case[-1]}

    def run_stale(self, case):
        _, a, b, q = case
        A, B, seq = STALE_PROGS[a], STALE_PROGS[b], STALE_SEQS[q]
        ref_dir = driver.fresh_dir()
        driver.write_files(ref_dir, B)
        ref = driver.run(["run", "x.ms", "-q"], ref_dir)
        d = driver.fresh_dir()
        driver.write_files(d, A)
        first = driver.run(["compile", "x.ms", "--quick"] if seq.startswith("compile") else ["run", "x.ms", "-q"], d)
        for f in A:
            os.unlink(os.path.join(d, f))
        driver.write_files(d, B)
        if seq.endswith("compile-execute"):
            c, got = paths.pipeline_exec(d, "x.ms")
            got = got if got is not None else c
        else:
            got = driver.run(["run", "x.ms", "-q"], d)
        viol = []
        if ref.exit != 0 or first.exit != 0:
            return {"outcome": "stale-machinery", "machinery": f"stale-output programs must be valid: {ref.err[-200:]} {first.err[-200:]}"}
        if got.exit != ref.exit or got.out != ref.out:
            viol.append({"sig": {"kind": "stale-output", "seq": seq},
                         "what": f"revision {b} after revision {a} ({seq}): a fresh directory prints {ref.out!r} exit {ref.exit}; the directory "
                                 f"holding the earlier revision's outputs gives {got.out[-200:]!r} exit {got.exit} ({got.cls}) {got.err[-200:]}",
                         "detail": {"files": {"earlier/" + k: v for k, v in A.items()} | B, "sequence": seq, "fresh": ref.brief(), "stale": got.brief()}})
        return {"outcome": "stale-ok" + ("-DIFF" if viol else ""), "viol": viol, "nontrivial": True, "tags": ["stale", f"stale-{seq}"]}

    def run_case(self, case):
        if case[0] == "stale":
            return self.run_stale(case)
        d = driver.fresh_dir()
        expected = None
        timeout_note = None
        if case[0] == "str":
            s = strlit.decode(case[1])
            if not strlit.expressible(s):
                return {"outcome": "inexpressible", "nontrivial": False, "tags": ["inexpressible"]}
            files, entry, expected = program_for(s, case[2], case[3])
            driver.write_files(d, files)
            cwd = d
            desc = {"string": s, "position": case[2], "raw": case[3]}
        elif case[0] == "ex":
            cwd, entry = corpus.stage(d, case[1], case[2])
            files = {}
            desc = {"example": case[2]}
        elif case[0] == "test":
            _, files, entry, _exp = next(t for t in corpus.test_projects() if t[0] == case[1])
            driver.write_files(d, files)
            cwd = d
            desc = {"test": case[1]}
        elif case[0] == "dir":
            # function and module paths (instruction arguments) are derived from the path given on the command line
            dn = DIRNAMES[case[1]]
            files = {dn + "/x.ms": "f = fn() -> int {\n\treturn 1\n}\nimport m\nprint f() + m.v\nprint m.g()\n",
                     dn + "/m.ms": "export v: int = 2\nexport g: fn() -> str = fn() -> str {\n\treturn \"g\"\n}\n"}
            driver.write_files(d, files)
            cwd, entry = d, dn + "/x.ms"
            expected = "3\ng\n"
            desc = {"dirname": dn}
        else:
            from ..lang import gencorpus
            files = gencorpus.get(case[1])
            entry = "main.ms" if "main.ms" in files else "x.ms"
            driver.write_files(d, files)
            cwd = d
            desc = {"generated": case[1]}
        loose = paths.iterates_a_map(cwd)
        d1 = os.path.join(d, "dump-run.txt")
        d2 = os.path.join(d, "dump-exec.txt")
        r1 = driver.run(["run", entry, "-q"], cwd, env={"MSCRIPT_VERIF_DUMP": d1}, timeout=(8 if os.environ.get("VERIF_TIER_","quick")=="quick" else 30))
        if r1.timeout:
            return {"outcome": "skipped-timeout", "nontrivial": False, "tags": ["skipped-timeout"]}
        # remove what `run` wrote so that `execute` reads what `compile` writes
        for root, _, fs in os.walk(cwd):
            for f in fs:
                if f.endswith(".mmm"):
                    os.unlink(os.path.join(root, f))
        c, r2 = paths.pipeline_exec(cwd, entry, dump=d2)
        viol = []
        detail = {"desc": desc, "files": files, "run": r1.brief(),
                  "compile": c.brief(), "execute": r2.brief() if r2 else None, "expected_stdout": expected}

        def bad(kind, what, **sig):
            sg = {"kind": kind}
            if case[0] == "str":
                s_ = desc["string"]
                sg["pos"] = desc["position"]
                sg["chars"] = "".join(sorted({("bs" if ch == "\\" else "q" if ch == '"' else "ws" if ch in " \t\n\r" else "x")[0:2] for ch in s_}))
                sg["has_backslash"] = "\\" in s_
            else:
                sg["name"] = desc.get("example") or desc.get("generated") or desc.get("dirname") or desc.get("test")
            sg.update(sig)
            viol.append({"sig": sg, "what": what, "detail": detail})

        compiled_run = not (driver.compile_rejected(r1))
        if r2 is None:
            # `compile` did not produce bytecode (diagnostic or compiler crash, which is C16's business):
            # `run` must not have executed the program successfully either
            if r1.exit == 0:
                bad("compile-differs", f"`run` compiled and ran the program but `compile` failed: {c.err[-300:]}")
            return {"outcome": "rejected" if not viol else "bad", "viol": viol, "nontrivial": False,
                    "tags": ["rejected"]}
        if not compiled_run:
            bad("compile-differs", "`compile` succeeded but `run` did not compile the program")
        else:
            if r2.cls in ("panic", "abort", "timeout") and r1.cls != r2.cls:
                bad("exec-crash", f"execute ended with {r2.cls} while run ended with {r1.cls}: {r2.err[-300:]}")
            elif (r1.exit == 0) != (r2.exit == 0):
                bad("status", f"run exit {r1.exit} vs execute exit {r2.exit}: {r2.err[-300:]}")
            elif paths.canon_stdout(r1.out, loose) != paths.canon_stdout(r2.out, loose):
                bad("stdout", f"stdout differs: run {r1.out[-200:]!r} vs execute {r2.out[-200:]!r}")
            dd = paths.diff_dumps(paths.read_dump(d1), paths.read_dump(d2))
            if dd:
                bad("instruction-stream", f"loaded instruction streams differ: {dd}")
            if expected is not None and not viol:
                if r1.exit != 0 or r1.out != expected:
                    bad("intended", f"both paths agree but print {r1.out!r} (exit {r1.exit}) where the literal denotes {expected!r}")
        tags = [case[0]]
        if case[0] == "str":
            tags.append("pos-" + case[2])
        return {"outcome": f"{case[0]}-{r1.cls}" + ("-DIFF" if viol else ""), "viol": viol,
                "nontrivial": True, "tags": tags}

    def finish(self, stats, tier):
        errs = []
        for t in ["str", "ex"]:
            if not stats["tags"].get(t):
                errs.append(f"vacuity: no case of kind {t}")
        if stats["tags"].get("str-rejected"):
            errs.append(f"vacuity: {stats['tags']['str-rejected']} string-literal programs were rejected by the compiler (template broken)")
        return errs
