"""C12 — optional values: nil test, `get`, `or`, `?=`.
E-prog over (payload type, carrier, nil|present, construct, position); reference interpreter oracle,
including the source position of a failing `get`, non-evaluation of the `or` fallback and the truth
and store effect of `?=`."""
import itertools
import re

from ..core import driver
from ..core.explore import Check
from ..lang import refint

PAYLOADS = ["int", "str", "list", "obj", "bool"]      # bool: the present value is `false` (a present optional that is falsy is still present)
CARRIERS = ["var", "param", "result", "elem", "field", "builtin", "literal", "mapentry"]
CONSTRUCTS = ["eqnil", "neqnil", "get", "or", "or-var", "or-chain", "unwrap-stmt", "unwrap-if", "unwrap-while", "unwrap-expr",
              "eq-plain", "plain-eq", "or-operand",
              # compositions: `get` applied directly to an `or` form whose fallback is a plain value / an optional variable (nil, present) / an optional
              # result (nil, present); the value of such an `or` form compared with nil.  Where the type checker refuses an optional fallback the case is skipped.
              # `?=` onto a target that HOLDS A PRESENT VALUE (a nil operand must overwrite it)
              "unwrap-stmt-over-present", "unwrap-if-over-present", "unwrap-while-over-present", "unwrap-expr-over-present",
              "get-or-plain", "get-or-optvar-nil", "get-or-optvar-present", "get-or-result-nil", "get-or-result-present", "or-optvar-eqnil"]
MINPAREN_CONSTRUCTS = {"or-operand"}     # rendered with minimal parentheses: the construct is about how `or` groups with its neighbours
POSITIONS = ["same", "block", "loop", "else", "block2", "fn", "escaped"]

TYPE = {"int": "int", "str": "str", "list": "[int...]", "obj": "C", "bool": "bool"}


def V(n):
    return ("var", n)


def present(payload, alt=False):
    if payload == "int":
        return ("int", 9 if alt else 5)
    if payload == "str":
        return ("str", "alt" if alt else "s")
    if payload == "bool":
        return ("bool", bool(alt))
    if payload == "list":
        return ("list", [("int", 8)] if alt else [("int", 1), ("int", 2)])
    return ("new", "C", [("int", 4 if alt else 3)])


def observe(payload, e, tag):
    """statements printing the payload value of expression e (objects are observed through a field)"""
    if payload == "obj":
        return [("assign", "ob_" + tag, e, None, ()), ("print", ("bin", "+", ("str", tag + " "), ("field", V("ob_" + tag), "v")))]
    if payload == "list":
        return [("print", ("str", tag)), ("print", e)]
    return [("print", ("bin", "+", ("str", tag + " "), e))]


def prelude(payload):
    T = TYPE[payload]
    cls = ("class", "C", [("v", "int")], ([("v", "int")], [("setfield", V("self"), "v", V("v"))]), [])
    holder = ("class", "H", [("f", T + "?")],
              ([("k", "int")], [("if", ("bin", "==", V("k"), ("int", 1)), [("setfield", V("self"), "f", present(payload))],
                                 [("setfield", V("self"), "f", ("nil",))])]), [])
    lg = ("assign", "lg", ("fn", [("k", "int")], T,
                           [("print", ("bin", "+", ("str", "lg "), V("k"))), ("return", present(payload, True))]), None, ())
    mk = ("assign", "mk", ("fn", [("k", "int")], T + "?",
                           [("if", ("bin", "==", V("k"), ("int", 1)), [("return", present(payload))], None),
                            ("return", ("nil",))]), None, ())
    src = ("assign", "src", ("fn", [("i", "int"), ("k", "int")], T + "?",
                             [("if", ("bin", "&&", ("bin", "<", V("i"), ("int", 2)), ("bin", "==", V("k"), ("int", 1))),
                               [("return", present(payload))], None),
                              ("return", ("nil",))]), None, ())
    return [cls, holder, lg, mk, src]


def carrier_setup(payload, carrier, is_present):
    """-> (setup statements, expression X, wrap) ; wrap(body) embeds the construct statements (for `param`)"""
    T = TYPE[payload]
    k = 1 if is_present else 0
    val = present(payload) if is_present else ("nil",)
    if carrier == "var":
        return [("assign", "x", val, T + "?", ())], V("x"), None
    if carrier == "param":
        return [], V("x"), "param"
    if carrier == "result":
        return [], ("call", V("mk"), [("int", k)]), None
    if carrier == "elem":
        return [("assign", "l", ("list", [present(payload), ("nil",)]), f"[{T}?...]", ())], ("index", V("l"), ("int", 0 if is_present else 1)), None
    if carrier == "field":
        return [("assign", "h", ("new", "H", [("int", k)]), None, ())], ("field", V("h"), "f"), None
    if carrier == "mapentry":
        # a map lookup: the value of a present key, nil for an absent one
        setup = [("assign", "mq", ("maplit", "str", T, [(("str", "here"), present(payload))] if is_present else []), None, ())]
        return setup, ("index", V("mq"), ("str", "here")), None
    if carrier == "builtin":
        if payload != "int":
            return None
        # index_of yields int? : present -> 1 (position of 20), nil -> missing element
        return ([("assign", "hay", ("list", [("int", 10), ("int", 20)]), "[int...]", ())],
                ("method", V("hay"), "index_of", [("int", 20 if is_present else 99)]), None)
    if carrier == "literal":
        if payload in ("obj",):
            return None
        return [], val, None
    raise ValueError(carrier)


def builtin_present_value():
    return ("int", 1)


def construct_stmts(payload, construct, X, carrier, is_present):
    if construct.endswith("-over-present"):
        body = construct_stmts(payload, construct[:-len("-over-present")], X, carrier, is_present)
        if body is None or body[0][:2] != ("assign", "a"):
            return None
        extra = []
        if payload != "obj" and not is_present:
            # the operand is nil: afterwards the target is nil, whatever it held
            extra = []
        return [("assign", "a", present(payload, True), TYPE[payload] + "?", ())] + body[1:] + extra
    T = TYPE[payload]
    pv = present(payload) if carrier != "builtin" else builtin_present_value()
    k = 1 if is_present else 0
    if construct == "eqnil":
        return [("print", ("bin", "==", X, ("nil",))), ("print", ("bin", "==", ("nil",), X))]
    if construct == "neqnil":
        return [("print", ("bin", "!=", X, ("nil",)))]
    if construct == "get":
        return [("print", ("str", "before"))] + observe(payload, ("get", X), "got") + [("print", ("str", "after"))]
    if construct == "or":
        return observe(payload, ("or", X, ("call", V("lg"), [("int", 7)])), "or")
    if construct == "or-var":
        # the fallback is a variable (declared next to the carrier) that is mentioned nowhere else
        return observe(payload, ("or", X, V("dflt")), "orv")
    if construct == "or-operand":
        # `(x) or y` written WITHOUT parentheses of its own as the right operand of a binary operator and of a comparison: it is a postfix
        # form that binds tighter than every binary operator, so the operator applies to its value, never to the bare optional
        fb = ("call", V("lg"), [("int", 7)])
        if payload == "int":
            return [("print", ("bin", "-", ("int", 100), ("or", X, fb))), ("print", ("bin", "*", ("int", 2), ("or", X, fb))),
                    ("print", ("bin", "<", ("int", 6), ("or", X, fb))), ("print", ("bin", "&&", ("bool", True), ("bin", "==", ("int", 5), ("or", X, fb))))]
        if payload == "str":
            return [("print", ("bin", "+", ("str", "p-"), ("or", X, fb))), ("print", ("bin", "==", ("str", "s"), ("or", X, fb)))]
        return None
    if construct.startswith("get-or-") or construct == "or-optvar-eqnil":
        fb = {"get-or-plain": ("call", V("lg"), [("int", 7)]), "get-or-optvar-nil": V("zqn"), "get-or-optvar-present": V("zqp"),
              "get-or-result-nil": ("call", V("mk"), [("int", 0)]), "get-or-result-present": ("call", V("mk"), [("int", 1)]), "or-optvar-eqnil": V("zqn")}[construct]
        if construct == "or-optvar-eqnil":
            return [("print", ("bin", "==", ("or", X, fb), ("nil",))), ("print", ("bin", "!=", ("or", X, V("zqp")), ("nil",)))]
        return [("print", ("str", "before"))] + observe(payload, ("get", ("or", X, fb)), "gor") + [("print", ("str", "after"))]
    if construct == "or-chain":
        inner = ("or", X, ("call", V("mk"), [("int", 0)]))
        return observe(payload, ("or", inner, ("call", V("lg"), [("int", 8)])), "orc")
    if construct == "unwrap-stmt":
        return [("assign", "a", ("nil",), T + "?", ()), ("expr", ("unwrap", "a", X)),
                ("print", ("bin", "==", V("a"), ("nil",)))] + \
               ([] if not is_present else observe(payload, V("a"), "a"))
    if construct == "unwrap-expr":
        return [("assign", "a", ("nil",), T + "?", ()), ("assign", "ok", ("unwrap", "a", X), None, ()),
                ("print", V("ok")), ("print", ("bin", "==", V("a"), ("nil",)))]
    if construct == "unwrap-if":
        return [("assign", "a", ("nil",), T + "?", ()),
                ("if", ("unwrap", "a", X), [("print", ("str", "then"))] + observe(payload, V("a"), "in"),
                 [("print", ("str", "else"))]),
                ("print", ("bin", "==", V("a"), ("nil",)))] + ([] if not is_present else observe(payload, V("a"), "after"))
    if construct == "unwrap-while":
        return [("assign", "a", ("nil",), T + "?", ()), ("assign", "cnt", ("int", 0), None, ()),
                ("while", ("unwrap", "a", ("call", V("src"), [V("cnt"), ("int", k)])),
                 [("print", ("bin", "+", ("str", "it "), V("cnt")))] + observe(payload, V("a"), "w") +
                 [("assign", "cnt", ("bin", "+", V("cnt"), ("int", 1)), None, ())]),
                ("print", ("bin", "==", V("a"), ("nil",))), ("print", V("cnt"))]
    if construct == "eq-plain":
        if payload == "obj":
            return None
        return [("print", ("bin", "==", X, pv)), ("print", ("bin", "!=", X, pv)),
                ("print", ("bin", "==", X, present(payload, True)))]
    if construct == "plain-eq":
        if payload == "obj":
            return None
        return [("print", ("bin", "==", pv, X))]
    raise ValueError(construct)


def place(position, stmts):
    if position in ("same", "escaped"):
        return stmts
    if position == "block":
        return [("if", ("bool", True), stmts, None)]
    if position == "else":
        return [("if", ("bool", False), [("print", ("str", "no"))], stmts)]
    if position == "block2":
        return [("if", ("bool", True), [("if", ("bool", True), stmts, None)], None)]
    if position == "loop":
        return [("from", ("int", 0), ("int", 2), False, None, None, stmts)]
    if position == "fn":
        return [("assign", "host", ("fn", [], None, stmts), None, ()), ("expr", ("call", V("host"), []))]
    raise ValueError(position)


def build(case):
    payload, carrier, is_present, construct, position, decl_outside = case
    cs = carrier_setup(payload, carrier, is_present)
    if cs is None:
        return None
    setup, X, wrap = cs
    if construct.startswith("unwrap-while") and carrier not in ("var",):
        return None    # the while form draws from src(); one carrier suffices
    body = construct_stmts(payload, construct, X, carrier, is_present)
    if body is None:
        return None
    T = TYPE[payload]
    if decl_outside:
        # the `?=` target is declared in the enclosing block, the construct sits in the nested position
        if not construct.startswith("unwrap") or position == "same":
            return None
        if construct.endswith("-over-present") and construct.startswith("unwrap-while"):
            return None
        decl, rest = body[0], body[1:]
        # observations after the nested position, in the declaring block
        tail = [("print", ("bin", "==", V("a"), ("nil",)))]
        if is_present and not (construct == "unwrap-while"):
            tail += observe(payload, V("a"), "outer")
        placed = [decl] + place(position, rest) + tail
    else:
        placed = place(position, body)
    if construct == "or-var":
        setup = setup + [("assign", "dflt", present(payload, True), None, ())]
    if "optvar" in construct:
        setup = setup + [("assign", "zqn", ("nil",), T + "?", ()), ("assign", "zqp", present(payload, True), T + "?", ())]
    if position == "escaped":
        # carrier and fallback are locals of a function that has returned by the time the construct runs inside the closure it made
        if wrap == "param" or decl_outside:
            return None
        owner = ("assign", "mkc", ("fn", [], "fn()", setup + [("return", ("fn", [], None, body))]), None, ())
        return prelude(payload) + [owner, ("assign", "kc", ("call", V("mkc"), []), None, ()), ("expr", ("call", V("kc"), [])),
                                   ("expr", ("call", V("kc"), [])), ("print", ("str", "end"))]
    if wrap == "param":
        val = present(payload) if is_present else ("nil",)
        fn = ("assign", "f", ("fn", [("x", T + "?")], "int", placed + [("return", ("int", 0))]), None, ())
        main = setup + [fn, ("print", ("call", V("f"), [val]))]
    else:
        main = setup + placed
    if position == "fn" and any(n in ("x", "l", "h", "hay") for n in _names(X)) and wrap != "param":
        pass    # module variables are captured by the host function
    return prelude(payload) + main + [("print", ("str", "end"))]


def _names(e):
    out = set()
    if isinstance(e, tuple):
        if e and e[0] == "var":
            out.add(e[1])
        for x in e[1:]:
            out |= _names(x) if isinstance(x, (tuple, list)) else set()
    elif isinstance(e, list):
        for x in e:
            out |= _names(x)
    return out


# ---- present optionals in the BOXED form built-ins hand out, on BOTH sides of == / != and through every other construct: (setup lines making
# the optional `bx` (and a second one `by` with an equal payload), payload literal, another payload literal)
BOXED = {
    "bool-parse_bool": (['bx = "true".parse_bool()', 'by = "true".parse_bool()'], "true", "false"),
    "str-map-replace": (['bm = map[str, str] {"k": "v"}', 'bx = bm.replace("k", "v")', 'by = bm.replace("k", "w")'], '"v"', '"w"'),
    "str-map-remove": (['bm = map[str, str] {"k": "v", "j": "v"}', 'bx = bm.remove("k")', 'by = bm.remove("j")'], '"v"', '"w"'),
    "int-parse_int": (['bx = "5".parse_int()', 'by = "5".parse_int()'], "5", "6"),
    "int-index_of": (["bl: [int...] = [4, 5]", "bx = bl.index_of(5)", "by = bl.index_of(5)"], "1", "0"),
    "float-parse_float": (['bx = "1.5".parse_float()', 'by = "1.5".parse_float()'], "1.5", "2.5"),
    "byte-parse_byte": (['bx = "0b11".parse_byte()', 'by = "0b11".parse_byte()'], "0b11", "0b1"),
    "bigint-parse_bigint": (['bx = "7".parse_bigint()', 'by = "7".parse_bigint()'], "B7", "B8"),
}
BOXED_USES = {
    "eq-itself": (["print bx == bx", "print bx != bx"], ["true", "false"]),
    "eq-other-box": (["print bx == by", "print by != bx"], ["true", "false"]),
    "eq-plain-both-ways": (["print bx == PV", "print PV == bx", "print bx == OV", "print OV != bx"], ["true", "true", "false", "true"]),
    "eq-nil": (["print bx == nil", "print nil != bx"], ["false", "true"]),
    "eq-in-condition": (["if bx == by {", "\tprint 1", "} else {", "\tprint 2", "}"], ["1"]),
    "eq-through-variables-of-optional-type": (["bz = bx", "print bz == by", "print (get bz) == (get by)"], ["true", "true"]),
    "or-then-eq": (["print ((bx) or OV) == PV", "print ((bx) or OV) == ((by) or OV)"], ["true", "true"]),
}


def boxed_program(kind, use, host):
    setup, pv, ov = BOXED[kind]
    lines, exp = BOXED_USES[use]
    if kind == "str-map-replace":
        # after the two replace calls the second box holds "v" as well (replace returns the PREVIOUS value): bx = "v", by = "v"
        pass
    body = setup + [l.replace("PV", pv).replace("OV", ov) for l in lines]
    src = "\n".join(body if host == "module" else ["host = fn() {"] + ["\t" + l for l in body] + ["}", "host()"]) + "\n"
    return src, exp


class C12(Check):
    id = "C12"
    level = "model_checking"
    rule = ("all programs (payload in {int, str, [int...], class C}) x (carrier in {variable, parameter, function result, list element, "
            "field, built-in result (index_of), literal, map lookup (present / absent key)}) x (nil | present) x (construct in {== nil (both operand orders), != nil, get, "
            "(x) or y with a logging y, (x) or v with a variable mentioned nowhere else, chained or, ?= as statement / expression value / if condition / while condition - onto a target that is nil and onto one that holds a present value -, present == plain, "
            "plain == present, `get` applied directly to an `or` form with a plain / optional-variable (nil, present) / optional-result (nil, present) fallback, an `or` form with an optional fallback compared with nil}) x (position in {declaring block, nested block, else block, doubly nested block, loop body, nested function, closure called after the function that made it (and owns carrier and fallback) has returned}) "
            "x (?= target declared in the same block | in the enclosing block).  Oracle = reference interpreter; for a failing `get` the "
            "error must name file and line of that `get` with a column inside it.")
    assumptions = ["objects are observed through a field, never printed", "the column of a failing get may point anywhere inside the get expression"]
    chunksize = 16

    def layers(self, tier):
        def gen(positions, constructs):
            for c in itertools.product(PAYLOADS, CARRIERS, (False, True), constructs, positions, (False, True)):
                yield c
        core = ["eqnil", "neqnil", "get", "or", "unwrap-stmt", "unwrap-if", "unwrap-while", "eq-plain"]
        ls = [("L0-core-constructs-3-positions", list(gen(["same", "block", "loop"], core)))]
        ls.append(("L1-all-constructs-all-positions", gen(POSITIONS, CONSTRUCTS)))
        ls.append(("Lb-present-optionals-in-the-boxed-form-of-built-ins-on-both-sides-of-==", [("boxed", k, u, h) for k in BOXED for u in BOXED_USES for h in ("module", "fn")]))
        return ls

    def describe(self, case):
        if case[0] == "boxed":
            return {"boxed optional from": case[1], "use": case[2], "host": case[3]}
        return dict(zip(["payload", "carrier", "present", "construct", "position", "target_declared_outside"], case))

    def run_boxed(self, case):
        src, exp = boxed_program(case[1], case[2], case[3])
        res = driver.run_ms(src)
        if driver.compile_rejected(res):
            return {"outcome": "boxed-rejected", "nontrivial": False, "tags": ["boxed-rejected"], "show": res.out[-200:]}
        viol = []
        if res.exit != 0 or res.lines() != exp:
            viol.append({"sig": {"kind": "boxed-optional", "from": case[1], "use": case[2], "host": case[3]},
                         "what": f"{self.describe(case)}: expected {exp}, got exit {res.exit} and {res.lines()} {res.err[-200:]}",
                         "detail": {"files": {"x.ms": src}, "res": res.brief(), "expected_lines": exp}})
        return {"outcome": "boxed-ok" + ("-DIFF" if viol else ""), "viol": viol, "nontrivial": True, "tags": ["boxed", "present"]}

    def run_case(self, case):
        if case[0] == "boxed":
            return self.run_boxed(case)
        ast = build(case)
        if ast is None:
            return {"outcome": "inexpressible", "nontrivial": False}
        desc = self.describe(case)
        src = refint.program(ast, minparen=case[3] in MINPAREN_CONSTRUCTS)
        it = refint.Interp()
        ok, failure = it.run(ast)
        res = driver.run_ms(src)
        lines = res.lines()
        detail = {"files": {"x.ms": src}, "res": res.brief(), "expected_lines": it.out, "expected_ok": ok,
                  "expected_failure": failure.kind if failure else None}
        viol = []

        def bad(kind, what):
            sig = {"kind": kind}
            sig.update({k: str(v) for k, v in desc.items()})
            viol.append({"sig": sig, "what": f"{desc}: {what}", "detail": detail})

        if driver.compile_rejected(res):
            msg = res.out + res.err
            if "always unwraps `nil`" in msg or "always unwraps" in msg:
                # a literal `get nil` is flagged at compile time; that is the defined failure, reported early
                if not ok and failure.kind == "nil":
                    return {"outcome": "static-get-nil", "nontrivial": True, "tags": ["static-get-nil"]}
            if case[3] in MINPAREN_CONSTRUCTS:
                # differential: the same program with every operand parenthesised
                res_full = driver.run_ms(refint.program(ast))
                if not driver.compile_rejected(res_full):
                    bad("grouping", "the compiler accepts the program when `(x) or y` is wrapped in parentheses and rejects it when it stands as a bare right operand: "
                                    "the operator is applied to the optional itself, not to the value of `(x) or y`: " + res.out[-200:])
                    return {"outcome": "rejected-DIFF", "viol": viol, "nontrivial": True, "tags": [f"c-{case[3]}"]}
            if case[3] in ("eq-plain", "plain-eq") and case[0] in ("int", "str", "bool"):
                # `T == T` is an operation of the language for these payload types, so `T? == T` has to be one as well
                bad("eq-rejected", "a present optional compares equal to the plain value it holds - the compiler refuses the comparison: " + res.out[-200:])
                return {"outcome": "rejected-DIFF", "viol": viol, "nontrivial": True, "tags": [f"c-{case[3]}"]}
            return {"outcome": "rejected", "nontrivial": False, "tags": ["rejected", f"rej-{case[1]}-{case[3]}"],
                    "show": (res.out[-200:])}
        if res.cls in ("panic", "abort", "timeout") and "compiler/src" in res.err:
            return {"outcome": "compiler-panic", "nontrivial": False, "tags": ["compiler-panic"]}
        if ok:
            if res.exit != 0:
                bad("unexpected-failure", f"should succeed; exit {res.exit} ({driver.classify_failure(res)}); stdout {lines[-3:]}")
            elif lines != it.out:
                i = next((j for j, (a, b) in enumerate(zip(lines, it.out)) if a != b), min(len(lines), len(it.out)))
                bad("stdout", f"line {i}: expected {it.out[i] if i < len(it.out) else '<end>'!r} got {lines[i] if i < len(lines) else '<end>'!r}")
        else:
            if res.exit == 0:
                bad("missing-failure", f"`get` of nil must stop the program; it printed {lines[-3:]} and exited 0")
            elif lines != it.out:
                bad("stdout-before-failure", f"expected {it.out} then the failure; got {lines}")
            elif failure.kind == "nil" and failure.note == "get":
                # position of the get
                src_lines = src.split("\n")
                cands = [(i + 1, l) for i, l in enumerate(src_lines) if re.search(r"\bget ", l)]
                m = re.search(r"x\.ms:(\d+):(\d+)", res.err)
                if res.cls != "error":
                    bad("failure-delivery", f"get of nil ended with {res.cls}, not a run-time error")
                elif not m:
                    bad("no-position", "the error for `get` of nil names no source position")
                elif len(cands) == 1:
                    ln, text = cands[0]
                    c0 = text.index("get ") + 1
                    if int(m.group(1)) != ln or not (c0 <= int(m.group(2)) <= len(text) + 1):
                        bad("wrong-position", f"get is at line {ln} col {c0}..{len(text)}; error names {m.group(1)}:{m.group(2)}")
        tags = [f"c-{case[3]}", f"p-{case[4]}", f"k-{case[1]}", "present" if case[2] else "nil"]
        return {"outcome": ("ok" if ok else "fail") + ("-DIFF" if viol else ""), "viol": viol, "nontrivial": True, "tags": tags,
                "counters": {"states": len(it.out) + 1, "transitions": len(it.out)}}

    def finish(self, stats, tier):
        errs = []
        for c in CONSTRUCTS:
            if not stats["tags"].get(f"c-{c}"):
                errs.append(f"vacuity: construct {c} never executed")
        for k in CARRIERS:
            if not stats["tags"].get(f"k-{k}"):
                errs.append(f"vacuity: carrier {k} never executed")
        rej = stats["tags"].get("rejected", 0)
        ok = stats["evaluations"] - stats["outcomes"].get("inexpressible", 0)
        # an optional fallback of `or` is refused by the type checker unless the primary is the literal nil: those compositions are expected to be mostly rejected
        opt_fb = sum(v for k, v in stats["tags"].items() if k.startswith("rej-") and ("get-or-optvar" in k or "get-or-result" in k or "or-optvar" in k))
        if rej - opt_fb > ok * 0.25:
            errs.append(f"vacuity: {rej} of {ok} generated programs rejected by the compiler")
        stats["extra_coverage"] = {"states": stats["counters"].get("states", 0), "transitions": stats["counters"].get("transitions", 0),
                                   "traces_validated_against_impl": ok - rej, "rejected_by_compiler": rej,
                                   "rejected_breakdown": {k: v for k, v in stats["tags"].items() if k.startswith("rej-")}}
        return errs


def register_corpus(register):
    cases = [c for c in itertools.product(PAYLOADS, CARRIERS, (False, True), CONSTRUCTS, ["block", "loop"], (False,))
             if build(c) is not None][::23]

    def count(tier):
        return len(cases)

    def get(i):
        return {"x.ms": refint.program(build(cases[i]))}
    register("c12", count, get)
