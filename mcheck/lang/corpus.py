"""The repository's example corpus (read from /repo at check time; copied to scratch before use)."""
import os
import shutil

from ..core import build

ROOTS = ["examples", "leetcode_problems"]


def example_files():
    """-> sorted list of (top directory to copy, path of the .ms file relative to /repo)."""
    out = []
    for root in ROOTS:
        base = os.path.join(build.REPO, root)
        if not os.path.isdir(base):
            continue
        for dirpath, dirnames, filenames in os.walk(base):
            dirnames.sort()
            for f in sorted(filenames):
                if f.endswith(".ms"):
                    rel = os.path.relpath(os.path.join(dirpath, f), build.REPO)
                    parts = rel.split(os.sep)
                    top = os.sep.join(parts[:2]) if len(parts) > 2 else parts[0]
                    out.append((top, rel))
    return sorted(out)


def is_single_module(rel):
    try:
        with open(os.path.join(build.REPO, rel), encoding="utf-8") as f:
            src = f.read()
    except OSError:
        return False
    import re
    return re.search(r"^\s*import\s", src, re.M) is None


def stage(d, top, rel):
    """Copy the example's top directory into scratch dir d; return (cwd, entry file name)."""
    dst = os.path.join(d, "ex")
    shutil.copytree(os.path.join(build.REPO, top), dst, symlinks=True,
                    ignore=shutil.ignore_patterns("*.mmm", "out"))
    inner = os.path.relpath(rel, top)
    cwd = os.path.join(dst, os.path.dirname(inner))
    return cwd, os.path.basename(inner)


# ---------------------------------------------------------------------------------------------------------------------
# The repository's own test programs (compiler/src/tests/*.rs) as a corpus.  The suite runs them in memory through
# `compiler::eval`; here every one of them is written to disk and sent through the CLI pipelines the suite never starts.
_TEST_CACHE = None


def _raw_strings(text):
    """-> list of (start offset, end offset, content) of the Rust raw strings r#"..."# (any number of #) and of plain "..." strings"""
    import re
    out = []
    i = 0
    n = len(text)
    while i < n:
        m = re.compile(r'r(#+)"').search(text, i)
        if not m:
            break
        close = '"' + m.group(1)
        j = text.find(close, m.end())
        if j < 0:
            break
        out.append((m.start(), j + len(close), text[m.end():j]))
        i = j + len(close)
    return out


def test_projects():
    """-> sorted list of (name, files {name: text}, entry, expects) where expects in {'ok', 'err', 'unknown'} is what the Rust test asserts about
    the in-memory run (`.unwrap()` / `.unwrap_err()` / #[should_panic])."""
    global _TEST_CACHE
    if _TEST_CACHE is not None:
        return _TEST_CACHE
    import re
    base = os.path.join(build.REPO, "compiler", "src", "tests")
    out = []
    if not os.path.isdir(base):
        return out
    for fn in sorted(os.listdir(base)):
        if not fn.endswith(".rs"):
            continue
        try:
            text = open(os.path.join(base, fn), encoding="utf-8").read()
        except OSError:
            continue
        # split into test functions
        heads = [m for m in re.finditer(r'((?:#\[[^\]]*\]\s*)+)fn\s+([A-Za-z0-9_]+)\s*\(\s*\)', text)]
        for k, m in enumerate(heads):
            if "#[test]" not in m.group(1):
                continue
            body = text[m.end(): heads[k + 1].start() if k + 1 < len(heads) else len(text)]
            raws = _raw_strings(body)
            if not raws:
                continue
            files = {}
            entry = None
            if "EvalEnvironment" in body:
                for (s, e, content) in raws:
                    pre = body[max(0, s - 120): s]
                    nm = re.findall(r'"([^"\n]+\.ms)"\s*,\s*$', pre)
                    if not nm:
                        continue
                    if entry is None:
                        entry = nm[-1]
                    files[nm[-1]] = content
                for nm, lit in re.findall(r'\.add\(\s*"([^"\n]+\.ms)"\s*,\s*"((?:[^"\\]|\\.)*)"\s*\)', body):
                    files.setdefault(nm, lit)
            else:
                entry = "main.ms"
                files[entry] = raws[0][2]
                if len(raws) > 1:      # several eval() calls in one test: one project per call
                    for q, (s, e, content) in enumerate(raws[1:], 1):
                        out.append((f"{fn[:-3]}::{m.group(2)}#{q}", {"main.ms": content}, "main.ms", "unknown"))
            if entry is None:
                continue
            if "should_panic" in m.group(1) or "unwrap_err" in body:
                expects = "err" if len(raws) == 1 or "EvalEnvironment" in body else "unknown"
            else:
                expects = "ok"
            out.append((f"{fn[:-3]}::{m.group(2)}", files, entry, expects))
    _TEST_CACHE = sorted(out, key=lambda t: t[0])
    return _TEST_CACHE
