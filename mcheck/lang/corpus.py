"""The repository's example corpus (read from /repo at check time; copied to scratch before use)."""
import os
import shutil

from ..core import build

ROOTS = ["examples", "leetcode_problems"]


def example_files():
    """-> sorted list of (top directory to copy, path of the .ms file relative to /repo)."""
    out = []
    for root in ROOTS:
        base = os.path.join(build.REPO, root)
        if not os.path.isdir(base):
            continue
        for dirpath, dirnames, filenames in os.walk(base):
            dirnames.sort()
            for f in sorted(filenames):
                if f.endswith(".ms"):
                    rel = os.path.relpath(os.path.join(dirpath, f), build.REPO)
                    parts = rel.split(os.sep)
                    top = os.sep.join(parts[:2]) if len(parts) > 2 else parts[0]
                    out.append((top, rel))
    return sorted(out)


def is_single_module(rel):
    try:
        with open(os.path.join(build.REPO, rel), encoding="utf-8") as f:
            src = f.read()
    except OSError:
        return False
    import re
    return re.search(r"^\s*import\s", src, re.M) is None


def stage(d, top, rel):
    """Copy the example's top directory into scratch dir d; return (cwd, entry file name)."""
    dst = os.path.join(d, "ex")
    shutil.copytree(os.path.join(build.REPO, top), dst, symlinks=True,
                    ignore=shutil.ignore_patterns("*.mmm", "out"))
    inner = os.path.relpath(rel, top)
    cwd = os.path.join(dst, os.path.dirname(inner))
    return cwd, os.path.basename(inner)
