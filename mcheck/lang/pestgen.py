"""Grammar-directed, deviation-bounded text generation from the project's own grammar.pest.

The grammar file is parsed at check time (so the generator stays bound to the code).  For every rule the
minimal derivation is computed; `derive(rule, k)` enumerates every derivation that departs from the
minimal choices in at most k decision points (alternative taken, repetition count, optional present)."""
import re

BUILTIN = {"ASCII_DIGIT": "1", "ASCII_ALPHANUMERIC": "a", "ASCII_HEX_DIGIT": "f", "ASCII_BIN_DIGIT": "1",
           "ANY": "x", "NEWLINE": "\n", "SOI": "", "EOI": "", "WHITESPACE": " ", "COMMENT": ""}


class P:
    """pest expression node"""
    def __init__(self, kind, *a):
        self.kind = kind
        self.a = a

    def __repr__(self):
        return f"{self.kind}{self.a}"


def tokenize(src):
    toks = []
    i = 0
    while i < len(src):
        c = src[i]
        if c.isspace():
            i += 1
        elif src.startswith("//", i):
            j = src.find("\n", i)
            i = len(src) if j < 0 else j
        elif c == '"':
            j = i + 1
            buf = ""
            while src[j] != '"':
                if src[j] == "\\":
                    nx = src[j + 1]
                    buf += {"n": "\n", "t": "\t", "r": "\r", "\\": "\\", '"': '"'}.get(nx, nx)
                    j += 2
                else:
                    buf += src[j]
                    j += 1
            toks.append(("str", buf))
            i = j + 1
        elif c.isalpha() or c == "_":
            j = i
            while j < len(src) and (src[j].isalnum() or src[j] == "_"):
                j += 1
            toks.append(("id", src[i:j]))
            i = j
        else:
            toks.append(("sym", c))
            i += 1
    return toks


class GrammarParser:
    def __init__(self, src):
        self.t = tokenize(src)
        self.i = 0

    def peek(self):
        return self.t[self.i] if self.i < len(self.t) else ("eof", "")

    def next(self):
        tok = self.peek()
        self.i += 1
        return tok

    def rules(self):
        out = {}
        while self.peek()[0] != "eof":
            name = self.next()[1]
            assert self.next() == ("sym", "="), name
            mod = ""
            if (self.peek()[0] == "sym" and self.peek()[1] in "@$!") or self.peek() == ("id", "_"):
                mod = self.next()[1]
            assert self.next() == ("sym", "{")
            e = self.choice()
            assert self.next() == ("sym", "}"), (name, self.peek())
            out[name] = (mod, e)
        return out

    def choice(self):
        alts = [self.seq()]
        while self.peek() == ("sym", "|"):
            self.next()
            alts.append(self.seq())
        return alts[0] if len(alts) == 1 else P("choice", alts)

    def seq(self):
        items = [self.postfix()]
        while self.peek() == ("sym", "~"):
            self.next()
            items.append(self.postfix())
        return items[0] if len(items) == 1 else P("seq", items)

    def postfix(self):
        pre = None
        if self.peek() in (("sym", "!"), ("sym", "&")):
            pre = self.next()[1]
        e = self.atom()
        while self.peek()[0] == "sym" and self.peek()[1] in "*+?":
            op = self.next()[1]
            e = P({"*": "star", "+": "plus", "?": "opt"}[op], e)
        if pre == "!":
            return P("not", e)
        if pre == "&":
            return P("and", e)
        return e

    def atom(self):
        k, v = self.next()
        if k == "str":
            return P("lit", v)
        if k == "id":
            return P("ref", v)
        if (k, v) == ("sym", "("):
            e = self.choice()
            assert self.next() == ("sym", ")")
            return e
        raise ValueError((k, v, self.t[self.i - 3:self.i + 3]))


OVERRIDE = {"string": '"s"', "integer": "1", "ident": "a", "hex_int": "0x1f", "byte": "0b1", "float": "1.5",
            "bigint": "B1", "import_path": "m"}


class Gen:
    def __init__(self, grammar_text, type_ident="int"):
        self.rules = GrammarParser(grammar_text).rules()
        self.type_ident = type_ident
        self.minsize = {}
        self._compute_min()

    def _size(self, e, seen):
        k = e.kind
        if k == "lit":
            return len(e.a[0])
        if k == "ref":
            n = e.a[0]
            if n in OVERRIDE:
                return len(OVERRIDE[n])
            if n in BUILTIN:
                return len(BUILTIN[n])
            return self.minsize.get(n, 10 ** 6)
        if k == "seq":
            return sum(self._size(x, seen) for x in e.a[0]) + len(e.a[0]) - 1
        if k == "choice":
            return min(self._size(x, seen) for x in e.a[0])
        if k in ("star", "opt", "not", "and"):
            return 0
        if k == "plus":
            return self._size(e.a[0], seen)
        raise ValueError(k)

    def _compute_min(self):
        for _ in range(40):
            changed = False
            for n, (mod, e) in self.rules.items():
                s = self._size(e, ())
                if s < self.minsize.get(n, 10 ** 6):
                    self.minsize[n] = s
                    changed = True
            if not changed:
                break

    def default_alt(self, alts):
        sizes = [self._size(x, ()) for x in alts]
        return sizes.index(min(sizes))

    def derive(self, name, k, depth=0, in_type=False):
        """-> list of (text, deviations used) for rule `name` with at most k deviations"""
        if name in OVERRIDE and not (name == "ident" and in_type):
            return [(OVERRIDE[name], 0)]
        if name == "ident" and in_type:
            return [(self.type_ident, 0)]
        if name in BUILTIN:
            return [(BUILTIN[name], 0)]
        mod, e = self.rules[name]
        atomic = mod in ("@", "$")
        return self.ex(e, k, depth + 1, atomic, in_type or name == "type")

    def ex(self, e, k, depth, atomic, in_type):
        kind = e.kind
        if kind == "lit":
            return [(e.a[0], 0)]
        if kind in ("not", "and"):
            return [("", 0)]
        if kind == "ref":
            if depth > 60:
                return []
            return self.derive(e.a[0], k, depth, in_type)
        if kind == "seq":
            sep = "" if atomic else " "
            results = [("", 0)]
            for item in e.a[0]:
                new = []
                for text, used in results:
                    for t2, u2 in self.ex(item, k - used, depth, atomic, in_type):
                        joined = text + (sep if text and t2 else "") + t2
                        new.append((joined, used + u2))
                results = new
                if len(results) > 200000:
                    results = results[:200000]
            return results
        if kind == "choice":
            alts = e.a[0]
            d = self.default_alt(alts)
            out = list(self.ex(alts[d], k, depth, atomic, in_type))
            if k >= 1:
                for i, a in enumerate(alts):
                    if i != d:
                        out += [(t, u + 1) for t, u in self.ex(a, k - 1, depth, atomic, in_type)]
            return out
        if kind in ("star", "plus", "opt"):
            inner = e.a[0]
            sep = "" if atomic else " "
            base = 1 if kind == "plus" else 0
            out = []
            counts = {"opt": [0, 1], "star": [0, 1, 2], "plus": [1, 2, 3]}[kind]
            for c in counts:
                cost = 0 if c == base else 1
                if cost > k:
                    continue
                results = [("", cost)]
                for _ in range(c):
                    new = []
                    for text, used in results:
                        for t2, u2 in self.ex(inner, k - used, depth, atomic, in_type):
                            new.append((text + (sep if text and t2 else "") + t2, used + u2))
                    results = new
                out += results
            return out
        raise ValueError(kind)


def source_tokens(text):
    """Token boundaries of an MScript source for token-level mutation."""
    pat = re.compile(r'"(?:\\.|[^"\\])*"|###|#[^\n]*|[A-Za-z_][A-Za-z_0-9]*|0x[0-9a-fA-F_]+|0b[01_]+|\d[\d_]*(?:\.\d+)?[fF]?|'
                     r'\?=|==|!=|<=|>=|&&|\|\||<<|>>|->|\+=|-=|\*=|/=|%=|\.\.\.|\n|[^\sA-Za-z_0-9]')
    toks = []
    pos = 0
    for m in pat.finditer(text):
        toks.append((m.start(), m.end()))
    return toks


TOKEN_ALPHABET = ["if", "else", "while", "from", "to", "through", "step", "fn", "return", "break", "continue", "class",
                  "constructor", "self", "import", "export", "const", "modify", "print", "assert", "typeof", "get", "or",
                  "nil", "true", "type", "map",
                  "(", ")", "{", "}", "[", "]", ",", ":", ".", "=", "+", "-", "*", "?=", "==", "->", "...", "?", "\n",
                  "1", "B1", "0b1", "1.5", "\"s\"", "x", "int", "str"]
STRUCTURAL = ["(", ")", "{", "}", "[", "]", ",", ":", ".", "=", "-", "if", "fn", "return", "self", "nil", "\n", "x", "1",
              "\"s\"", "?=", "...", "class", "from"]
