"""String-literal space shared by C04 and C18: all strings up to length n over the alphabet of
characters that are special to the bytecode file formats."""
import itertools

ALPHABET = ['"', "\\", " ", "\t", "\n", "\r", "n", "r", "t", "é", "a", "\u00a0", "\x0b", "\U0001F600"]
# é: 2-byte letter; U+00A0 no-break space and U+000B vertical tab: whitespace for char::is_whitespace but not a blank/tab/LF/CR;
# U+1F600: 4-byte scalar
ESC = {'"': '\\"', "\\": "\\\\", "\n": "\\n", "\r": "\\r", "\t": "\\t"}


def all_strings(maxlen, minlen=0):
    for n in range(minlen, maxlen + 1):
        for t in itertools.product(range(len(ALPHABET)), repeat=n):
            yield t


def decode(t):
    return "".join(ALPHABET[i] for i in t)


def expressible(s):
    """A literal cannot end in a backslash: the grammar reads \\" as an escaped quote."""
    return not s.endswith("\\")


def literal(s, raw_ws=False):
    """MScript source literal denoting s.  raw_ws: write tab/LF/CR raw instead of escaped."""
    out = []
    for c in s:
        if raw_ws and c in "\t\n\r":
            out.append(c)
        else:
            out.append(ESC.get(c, c))
    return '"' + "".join(out) + '"'


def quoted_in_container(s):
    """How a string element is rendered inside a list/map."""
    return '"' + s + '"'
