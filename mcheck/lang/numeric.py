"""Exact numeric oracle for MScript's four numeric kinds (int i32, bigint i128, float f64, byte u8).
Shared by C05 (operators), C06 (folding) and C14 (built-ins)."""
import math

I32_MIN, I32_MAX = -2 ** 31, 2 ** 31 - 1
I128_MIN, I128_MAX = -2 ** 127, 2 ** 127 - 1
RANGE = {"int": (I32_MIN, I32_MAX), "bigint": (I128_MIN, I128_MAX), "byte": (0, 255)}
WIDTH = {"int": 32, "bigint": 128, "byte": 8}
H2 = {"int": "Int", "bigint": "BigInt", "float": "Float", "byte": "Byte", "bool": "Bool", "str": "Str"}


class Fail(Exception):
    """The language-defined failure of an operation (overflow, zero divisor, ...)."""


def fmt_float(x):
    """Rust `{}` of an f64: shortest round-trip digits, positional notation, no trailing .0"""
    if x != x:
        return "NaN"
    if x in (math.inf, -math.inf):
        return "inf" if x > 0 else "-inf"
    r = repr(float(x))
    sign = ""
    if r.startswith("-"):
        sign, r = "-", r[1:]
    if "e" in r:
        mant, exp = r.split("e")
        exp = int(exp)
        if "." in mant:
            ip, fp = mant.split(".")
        else:
            ip, fp = mant, ""
        digits = ip + fp
        point = len(ip) + exp
        if point <= 0:
            r = "0." + "0" * (-point) + digits
        elif point >= len(digits):
            r = digits + "0" * (point - len(digits))
        else:
            r = digits[:point] + "." + digits[point:]
    if "." in r:
        r = r.rstrip("0").rstrip(".")
    return sign + r


def float_literal(x):
    """Source literal for a non-negative finite double (no exponent form in the language)."""
    assert x >= 0 and x == x and x != math.inf
    s = fmt_float(x)
    if "." not in s:
        s += ".0"
    return s


def fmt(kind, v):
    if kind == "float":
        return fmt_float(v)
    if kind == "byte":
        return "0b" + bin(v)[2:]
    if kind == "bool":
        return "true" if v else "false"
    return str(v)


def typed(kind, v):
    return f"{H2[kind]}:{fmt(kind, v)}"


def promote(lk, rk):
    if lk == "float" or rk == "float":
        return "float"
    if lk == rk:
        return lk
    if lk == "byte":
        return rk
    if rk == "byte":
        return lk
    return "bigint"     # int with bigint


def fit(kind, v):
    lo, hi = RANGE[kind]
    if not (lo <= v <= hi):
        raise Fail("overflow")
    return v


def wrap(kind, v):
    w = WIDTH[kind]
    v &= (1 << w) - 1
    if kind != "byte" and v >= 1 << (w - 1):
        v -= 1 << w
    return v


def trunc_div(a, b):
    q = abs(a) // abs(b)
    return q if (a >= 0) == (b >= 0) else -q


def binop(op, lk, a, rk, b):
    """-> (result kind, value) or raises Fail.  `op` in + - * / % < <= > >= == != & | xor << >>"""
    if op in ("<", "<=", ">", ">=", "==", "!="):
        if lk == "float" or rk == "float":
            x, y = float(a), float(b)
        else:
            x, y = a, b
        return "bool", {"<": x < y, "<=": x <= y, ">": x > y, ">=": x >= y, "==": x == y, "!=": x != y}[op]
    k = promote(lk, rk)
    if op in ("&", "|", "xor", "<<", ">>"):
        if k == "float":
            raise TypeError("bitwise on float")
        if op == "&":
            return k, fit(k, a & b)
        if op == "|":
            return k, fit(k, a | b)
        if op == "xor":
            return k, fit(k, a ^ b)
        if not (0 <= b < WIDTH[k]):
            raise Fail("shift amount out of range")
        if op == "<<":
            return k, wrap(k, a << b)
        return k, wrap(k, a >> b)      # arithmetic for signed kinds, logical for byte (a >= 0)
    if k == "float":
        x, y = float(a), float(b)
        if op == "+":
            return k, x + y
        if op == "-":
            return k, x - y
        if op == "*":
            return k, fmul(x, y)
        if y == 0.0:
            raise Fail("zero divisor")
        if op == "/":
            return k, fdiv(x, y)
        return k, math.fmod(x, y) if not (math.isinf(x) or x != x or y != y) else float("nan")
    if op == "+":
        return k, fit(k, a + b)
    if op == "-":
        return k, fit(k, a - b)
    if op == "*":
        return k, fit(k, a * b)
    if b == 0:
        raise Fail("zero divisor")
    if op == "/":
        return k, fit(k, trunc_div(a, b))
    return k, fit(k, a - b * trunc_div(a, b))


def fmul(x, y):
    try:
        return x * y
    except OverflowError:
        return math.copysign(math.inf, x) * math.copysign(1.0, y)


def fdiv(x, y):
    try:
        return x / y
    except OverflowError:
        return math.copysign(math.inf, x) * math.copysign(1.0, y)


def neg(kind, v):
    if kind == "float":
        return kind, -v
    if kind == "byte":
        raise TypeError("negation of a byte")
    return kind, fit(kind, -v)


# boundary sets -------------------------------------------------------------------------------
VALUES = {
    "int": [0, 1, -1, 2, -2, I32_MAX, I32_MIN, 31, 32, 65536, I32_MAX - 1, I32_MIN + 1],
    "bigint": [0, 1, -1, 2 ** 31, -2 ** 31 - 1, 2 ** 63, I128_MAX, I128_MIN, -2 ** 63, 2 ** 126, 127, 128, 3],
    "byte": [0, 1, 255, 2, 7, 8, 127, 128, 254],
    "float": [0.0, 1.5, -1.5, 0.5, -0.0, 1e300, 1e-300, 2.0 ** 53, 1e19, 3.0, 9007199254740993.0, math.inf, -math.inf, math.nan],
}
NONFINITE = (11, 12, 13)      # positions of inf, -inf, NaN in VALUES["float"]


def construct(kind, v, name, tmp):
    """Statements that leave value v of `kind` in variable `name` without relying on literal folding
    of negative numbers: negatives are produced by run-time subtraction from a zero variable."""
    if kind == "int":
        if v >= 0:
            return [f"{name} = {v}"]
        if v == I32_MIN:
            return [f"{tmp} = 0", f"{name} = {tmp} - {I32_MAX}", f"{name} = {name} - 1"]
        return [f"{tmp} = 0", f"{name} = {tmp} - {-v}"]
    if kind == "bigint":
        if v >= 0:
            return [f"{name} = B{v}"]
        if v == I128_MIN:
            return [f"{tmp} = B0", f"{name} = {tmp} - B{I128_MAX}", f"{name} = {name} - B1"]
        return [f"{tmp} = B0", f"{name} = {tmp} - B{-v}"]
    if kind == "byte":
        return [f"{name} = 0b{bin(v)[2:]}"]
    if kind == "float":
        if v != v or v in (math.inf, -math.inf):
            # no literal denotes a non-finite double: they come out of earlier operations (overflowing product, inf - inf)
            ls = [f"{tmp} = {float_literal(1e300)}", f"{name} = {tmp} * {tmp}"]
            if v != v:
                ls.append(f"{name} = {name} - {name}")
            elif v < 0:
                ls += [f"{tmp} = 0.0", f"{name} = {tmp} - {name}"]
            return ls
        if math.copysign(1.0, v) > 0:
            return [f"{name} = {float_literal(v)}"]
        if v == 0.0:
            return [f"{tmp} = 0.0", f"{name} = {tmp} * ({tmp} - 1.0)"]
        return [f"{tmp} = 0.0", f"{name} = {tmp} - {float_literal(-v)}"]
    if kind == "bool":
        return [f"{name} = {'true' if v else 'false'}"]
    raise ValueError(kind)
