"""Programs produced by the generators of the other checks, reused as a corpus by C04, C09, C16, C18.
A name is '<generator>:<index>'; `get(name)` regenerates the program deterministically."""

_REG = {}     # generator name -> (count function(tier), get function(index) -> {file: text})


def register(gen, count_fn, get_fn):
    _REG[gen] = (count_fn, get_fn)


def _load():
    if _REG:
        return
    import importlib
    for mod in ("c01", "c12", "c15", "c17", "c07", "c08", "c13", "c11"):
        try:
            m = importlib.import_module(f"mcheck.props.{mod}")
        except ImportError:
            continue
        if hasattr(m, "register_corpus"):
            m.register_corpus(register)


def names(tier):
    _load()
    out = []
    for gen, (count_fn, _) in sorted(_REG.items()):
        out.extend(f"{gen}:{i}" for i in range(count_fn(tier)))
    return out


def get(name):
    _load()
    gen, idx = name.split(":")
    return _REG[gen][1](int(idx))
