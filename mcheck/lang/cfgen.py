"""Control-flow skeleton generator shared by C01 (semantics) and C09 (structural well-formedness).

A shape is a nested tuple:
  ("plain",) ("call",) ("break",) ("continue",) ("return",) ("fault", fk)
  ("if", c, X) ("ifelse", c, X, Y) ("elif", c1, c2, X, Y, Z)
  ("while", n, X) ("from", bounds, inclusive, step, counter_kind, X)
  ("seq", X, Y)                       two items one after the other in the same block
Parameters: c indexes CONDS; n in WHILE_N; bounds in BOUNDS; step in STEPS; counter kind in COUNTERS;
fk in FAULTS.  `to_ast` turns a shape into refint AST statements framed by probes.
"""
import itertools

CONDS = ["true", "false", "K==1", "K%2==0", "K<2", "p==1", "!(K==1)", "K==1&&p<2", "K==1||p==2", "K>=1", "K!=1", "(\"s\"+K)==\"s1\"", "bf(K)",
         "K==1&&p<2||K==2", "K==2||p<2&&K==1",     # these two: grouping decided by precedence in the minimal-parentheses rendering
         "flg[zi]", "box.on", "!box.on", "flg[zi]&&K==1",
         "g(0)<g(1)", "g(K)-g(0)==K", "bf(2)==bf(K)"]              # both operands of a comparison / an arithmetic operator log their evaluation: the order is visible     # the condition is a bare list element / object field (a reference, not a value)
D_COND = 2
WHILE_N = [0, 1, 2, 3]
D_N = 2
BOUNDS = [(0, 0), (0, 2), (1, 3), (2, 0), ("e", "e"), ("v", "v"), ("v", "v-")]     # ("e","e"): lo = `p - p`, hi = `g(1)` (=2, evaluated once)
# ("v","v") / ("v","v-"): both bounds are PLAIN VARIABLES (lob = 0, hib = 2) that the loop body changes as its first statement (hib grows / shrinks, lob grows):
# the bounds were read once, before the first iteration
D_BOUNDS = (0, 2)
STEPS = [None, 1, 2, "var", "expr", "call"]     # var: `st` (=1); expr: `st + 1`; call: `g(0)` (=1, logs each evaluation)
COUNTERS = ["anon", "fresh", "collide"]
D_COUNTER = "fresh"
FAULTS = ["assert", "div", "idx"]
D_FAULT = "div"

LEAF_KINDS = ("plain", "call", "break", "continue", "return", "fault", "store", "defcall", "tplain", "empty")


def leaves(in_loop, simple=False):
    out = [("plain",), ("return",)]
    if in_loop:
        out += [("break",), ("continue",)]
    if not simple:
        out += [("fault", D_FAULT), ("call",), ("store",), ("defcall",), ("tplain",), ("empty",)]     # empty: a block without any statement (no probes either)
    return out


def shapes(depth, in_loop=False):
    """All shapes of nesting depth <= depth by rule 1 (one arbitrary child, siblings simple leaves)."""
    for lf in leaves(in_loop):
        yield lf
    if depth <= 0:
        return
    subs = list(shapes(depth - 1, in_loop))
    simple = leaves(in_loop, simple=True)
    for x in subs:
        yield ("if", D_COND, x)
    for x in subs:
        for l in simple + [("empty",)]:
            yield ("ifelse", D_COND, x, l)
            if x not in simple and x != ("empty",):
                yield ("ifelse", D_COND, l, x)
    chain_leaves = [("plain",)] + ([("continue",)] if in_loop else [("return",)])
    for x in subs:
        for l1, l2 in itertools.product(chain_leaves, repeat=2):
            yield ("elif", D_COND, 4, x, l1, l2)
            if x not in chain_leaves:
                yield ("elif", D_COND, 4, l1, x, l2)
                yield ("elif", D_COND, 4, l1, l2, x)
    loop_subs = list(shapes(depth - 1, True))
    for x in loop_subs:
        yield ("while", D_N, x)
        yield ("from", D_BOUNDS, False, None, D_COUNTER, x)


def shape_depth(s):
    k = s[0]
    if k in LEAF_KINDS:
        return 0
    if k == "seq":
        return max(shape_depth(s[1]), shape_depth(s[2]))
    return 1 + max(shape_depth(c) for c in s if isinstance(c, tuple) and c and isinstance(c[0], str) and c[0] in _KINDS)


_KINDS = set(LEAF_KINDS) | {"if", "ifelse", "elif", "while", "from", "seq"}


def children_idx(s):
    return [i for i, c in enumerate(s) if i > 0 and isinstance(c, tuple) and c and isinstance(c[0], str) and c[0] in _KINDS]


def deviations(s):
    """All shapes that differ from s in exactly one parameter of one node."""
    k = s[0]
    if k == "fault":
        for fk in FAULTS:
            if fk != s[1]:
                yield ("fault", fk)
    elif k in ("if", "ifelse"):
        for c in range(len(CONDS)):
            if c != s[1]:
                yield (k, c) + s[2:]
    elif k == "elif":
        for c in range(len(CONDS)):
            if c != s[1]:
                yield (k, c) + s[2:]
            if c != s[2]:
                yield (k, s[1], c) + s[3:]
    elif k == "while":
        for n in WHILE_N:
            if n != s[1]:
                yield (k, n) + s[2:]
    elif k == "from":
        _, b, incl, step, ck, x = s
        for b2 in BOUNDS:
            if b2 != b:
                yield (k, b2, incl, step, ck, x)
        yield (k, b, not incl, step, ck, x)
        for st in STEPS:
            if st != step:
                yield (k, b, incl, st, ck, x)
        for c2 in COUNTERS:
            if c2 != ck:
                yield (k, b, incl, step, c2, x)
    for i in children_idx(s):
        for d in deviations(s[i]):
            yield s[:i] + (d,) + s[i + 1:]


def spines(maxlen, in_loop=False):
    """Chains of compounds, each nested in the previous one, ending in a leaf."""
    for lf in leaves(in_loop, simple=False):
        if lf[0] == "call":
            continue
        yield lf
    if maxlen <= 0:
        return
    for x in spines(maxlen - 1, in_loop):
        yield ("if", D_COND, x)
        yield ("ifelse", D_COND, ("plain",), x)
        yield ("elif", D_COND, 4, ("plain",), x, ("plain",))
    for x in spines(maxlen - 1, True):
        yield ("while", D_N, x)
        yield ("from", D_BOUNDS, False, None, D_COUNTER, x)


def pairs(in_loop=False):
    items = list(shapes(1, in_loop))
    for a, b in itertools.product(items, items):
        yield ("seq", a, b)


def loop_sequences():
    """Two loops one after the other at DIFFERENT block depths, every counter kind, both orders: the counters and compiler-made temporaries
    (end bound, step) that one loop leaves behind meet the names the next loop makes for itself one block deeper or shallower."""
    def frm(ck, incl=False, step=None, body=("plain",)):
        return ("from", D_BOUNDS, incl, step, ck, body)
    firsts = ([frm(ck, incl, step) for ck in COUNTERS for incl in (False, True) for step in (None, 2)]
              + [("while", D_N, ("plain",)), frm("collide", body=("break",)), frm("fresh", body=("continue",))])
    seconds = [frm(ck, incl) for ck in COUNTERS for incl in (False, True)] + [("while", D_N, ("plain",))]
    wraps = [lambda x: x, lambda x: ("if", 0, x), lambda x: ("ifelse", 1, ("plain",), x), lambda x: ("elif", 1, 0, ("plain",), x, ("plain",)),
             lambda x: ("while", D_N, x), lambda x: frm("anon", body=x), lambda x: ("if", 0, ("if", 0, x))]
    for a in firsts:
        for w in wraps:
            for b in seconds:
                yield ("seq", a, w(b))
                yield ("seq", w(a), b)


# ---------------------------------------------------------------------------------------------
# shape -> AST


class Ctx:
    def __init__(self):
        self.site = 0
        self.uid = 0
        self.void = False      # inside a function without a return type: `return` carries no value

    def next_site(self):
        self.site += 1
        return self.site

    def next_uid(self):
        self.uid += 1
        return self.uid


def var(n):
    return ("var", n)


def cond_ast(c, K):
    k = var(K)
    p = var("p")
    return [("bool", True), ("bool", False), ("bin", "==", k, ("int", 1)),
            ("bin", "==", ("bin", "%", k, ("int", 2)), ("int", 0)), ("bin", "<", k, ("int", 2)),
            ("bin", "==", p, ("int", 1)),
            ("not", ("bin", "==", k, ("int", 1))),
            ("bin", "&&", ("bin", "==", k, ("int", 1)), ("bin", "<", p, ("int", 2))),
            ("bin", "||", ("bin", "==", k, ("int", 1)), ("bin", "==", p, ("int", 2))),
            ("bin", ">=", k, ("int", 1)), ("bin", "!=", k, ("int", 1)),
            ("bin", "==", ("bin", "+", ("str", "s"), k), ("str", "s1")),
            ("call", var("bf"), [k]),
            ("bin", "||", ("bin", "&&", ("bin", "==", k, ("int", 1)), ("bin", "<", p, ("int", 2))), ("bin", "==", k, ("int", 2))),
            ("bin", "||", ("bin", "==", k, ("int", 2)), ("bin", "&&", ("bin", "<", p, ("int", 2)), ("bin", "==", k, ("int", 1)))),
            ("index", var("flg"), var("zi")), ("field", var("box"), "on"), ("not", ("field", var("box"), "on")),
            ("bin", "&&", ("index", var("flg"), var("zi")), ("bin", "==", k, ("int", 1))),
            ("bin", "<", ("call", var("g"), [("int", 0)]), ("call", var("g"), [("int", 1)])),
            ("bin", "==", ("bin", "-", ("call", var("g"), [k]), ("call", var("g"), [("int", 0)])), k),
            ("bin", "==", ("call", var("bf"), [("int", 2)]), ("call", var("bf"), [k]))][c]


def probe(ctx, counters):
    sid = ctx.next_site()
    e = ("str", f"s{sid}")
    for cn in counters:
        e = ("bin", "+", ("bin", "+", e, ("str", f" {cn}=")), var(cn))
    return ("print", e)


def block(ctx, item, counters, K, depth, can_return=True):
    if item[0] == "empty":
        return []
    if item[0] == "return" and ctx.void and can_return:
        # a value-less `return` is the last statement of its block: the grammar reads whatever follows it as its value
        return [probe(ctx, counters)] + stmts(ctx, item, counters, K, depth, can_return)
    if item[0] == "store":
        # the store is the first statement of its block: no expression has used the block's temporaries yet
        return stmts(ctx, item, counters, K, depth, can_return) + [probe(ctx, counters)]
    return [probe(ctx, counters)] + stmts(ctx, item, counters, K, depth, can_return) + [probe(ctx, counters)]


def stmts(ctx, s, counters, K, depth, can_return=True):
    k = s[0]
    if k == "empty":
        return []
    if k == "plain":
        return [("assign", "acc", ("bin", "+", var("acc"), ("int", 1)), None, ())]
    if k == "tplain":
        # the same update written as a typed assignment (another parser path; it must update the variable of the enclosing block)
        return [("assign", "acc", ("bin", "+", var("acc"), ("int", 2)), "int", ())]
    if k == "call":
        return [("assign", "acc", ("call", var("g"), [var(K)]), None, ())]
    if k == "defcall":
        u = ctx.next_uid()
        # a function defined inside the block (no captures) and called there, recursing once
        h = ("fn", [("a", "int"), ("d", "int")], "int",
             [("if", ("bin", ">", var("d"), ("int", 0)), [("return", ("bin", "+", ("selfcall", [var("a"), ("bin", "-", var("d"), ("int", 1))]), ("int", 10)))], None),
              ("return", ("bin", "*", var("a"), ("int", 2)))])
        return [("assign", f"h{u}", h, None, ()), ("assign", "acc", ("call", var(f"h{u}"), [var(K), ("int", 1)]), None, ())]
    if k == "store":
        # a store through a path (list element) with a simple value: value parked in a temporary of the current block
        return [("setindex", var("lst"), ("int", 0), var(K)), ("setfield", var("box"), "v", var(K)),
                ("print", ("bin", "+", ("bin", "+", ("str", "st "), ("index", var("lst"), ("int", 0))),
                           ("bin", "+", ("str", " "), ("field", var("box"), "v"))))]
    if k == "break":
        return [("break",)]
    if k == "continue":
        return [("continue",)]
    if k == "return":
        if not can_return:
            return [("assign", "acc", ("bin", "+", var("acc"), ("int", 100)), None, ())]
        if ctx.void:
            return [("print", ("str", f"ret{ctx.next_site()}")), ("return", None)]
        return [("return", ("int", 1000 + ctx.next_site()))]
    if k == "fault":
        u = ctx.next_uid()
        if s[1] == "assert":
            return [("assert", ("bin", "!=", var(K), ("int", 1)))]
        if s[1] == "div":
            return [("assign", f"z{u}", ("bin", "/", ("int", 10), ("bin", "-", var(K), ("int", 1))), None, ())]
        return [("assign", f"q{u}", ("index", var("lst"), var(K)), None, ())]
    if k == "seq":
        if s[1][0] == "return" and ctx.void and can_return:
            return stmts(ctx, s[1], counters, K, depth, can_return)      # nothing may follow a value-less return in its block
        return stmts(ctx, s[1], counters, K, depth, can_return) + [probe(ctx, counters)] + \
            stmts(ctx, s[2], counters, K, depth, can_return)
    if k == "if":
        return [("if", cond_ast(s[1], K), block(ctx, s[2], counters, K, depth + 1, can_return), None)]
    if k == "ifelse":
        return [("if", cond_ast(s[1], K), block(ctx, s[2], counters, K, depth + 1, can_return),
                 block(ctx, s[3], counters, K, depth + 1, can_return))]
    if k == "elif":
        return [("if", cond_ast(s[1], K), block(ctx, s[3], counters, K, depth + 1, can_return),
                 ("if", cond_ast(s[2], K), block(ctx, s[4], counters, K, depth + 1, can_return),
                  block(ctx, s[5], counters, K, depth + 1, can_return)))]
    if k == "while":
        u = ctx.next_uid()
        w = f"w{u}"
        body = [("assign", w, ("bin", "+", var(w), ("int", 1)), None, ())] + \
            block(ctx, s[2], counters + [w], w, depth + 1, can_return)
        return [("assign", w, ("int", 0), None, ()), ("while", ("bin", "<", var(w), ("int", s[1])), body)]
    if k == "from":
        _, (lo, hi), incl, step, ck, x = s
        u = ctx.next_uid()
        if ck == "anon":
            name, cs, K2 = None, counters, K
        elif ck == "fresh":
            name = f"k{u}"
            cs, K2 = counters + [name], name
        else:
            name = f"c{min(depth, 5)}"
            cs, K2 = (counters if name in counters else counters + [name]), name
        body = block(ctx, x, cs, K2, depth + 1, can_return)
        if step is None:
            st = None
        elif step == "var":
            st = var("st")
        elif step == "expr":
            st = ("bin", "+", var("st"), ("int", 1))
        elif step == "call":
            st = ("call", var("g"), [("int", 0)])
        else:
            st = ("int", step)
        if lo == "e":
            lo_e, hi_e = ("bin", "-", var("p"), var("p")), ("call", var("g"), [("int", 1)])
        elif lo == "v":
            lb, hb = f"lob{u}", f"hib{u}"
            delta = ("bin", "+", var(hb), ("int", 1)) if hi == "v" else ("bin", "-", var(hb), ("int", 2))
            body = [("assign", hb, delta, None, ()), ("assign", lb, ("bin", "+", var(lb), ("int", 5)), None, ())] + body
            return [("assign", lb, ("int", 0), None, ()), ("assign", hb, ("int", 2), None, ()), ("from", var(lb), var(hb), incl, st, name, body)]
        else:
            lo_e, hi_e = ("int", lo), ("int", hi)
        return [("from", lo_e, hi_e, incl, st, name, body)]
    raise ValueError(s)


def has_kind(s, kinds):
    if s[0] in kinds:
        return True
    return any(has_kind(s[i], kinds) for i in children_idx(s))


HELPER_G = ("assign", "g", ("fn", [("x", "int")], "int",
                            [("print", ("bin", "+", ("str", "g "), ("var", "x"))),
                             ("return", ("bin", "+", ("var", "x"), ("int", 1)))]), None, ())

HELPER_BF = ("assign", "bf", ("fn", [("x", "int")], "bool",
                             [("print", ("bin", "+", ("str", "bf "), ("var", "x"))),
                              ("return", ("bin", "==", ("var", "x"), ("int", 1)))]), None, ())

BOX = ("class", "Bx", [("v", "int"), ("on", "bool")], ([("v", "int")], [("setfield", ("var", "self"), "v", ("var", "v")),
                                                                    ("setfield", ("var", "self"), "on", ("bool", True))]), [])

COLL = ["c0", "c1", "c2", "c3", "c4", "c5"]


def function_program(shape, variant="fn"):
    """-> AST of a whole program embedding the shape.
    variant: 'fn' (called with p = 0, 1, 2), 'module' (module level, p = 1), 'rec' (one level of recursion)."""
    variant = variant.split("~")[0]      # "fn~min": same program, rendered with minimal parentheses by the caller
    ctx = Ctx()
    if variant in ("void", "voidlast"):
        # a function without a return type; `voidlast`: the shape is the function's LAST statement (the body falls off its end)
        ctx.void = True
        pre = [("assign", "box", ("new", "Bx", [("int", 5)]), None, ()),
               ("assign", "lst", ("list", [("int", 10), ("int", 20)]), "[int...]", ()),
           ("assign", "flg", ("list", [("bool", True), ("bool", False)]), "[bool...]", ()), ("assign", "zi", ("int", 0), None, ()),
               ("assign", "acc", ("int", 0), None, ()), ("assign", "st", ("int", 1), None, ())]
        pre += [("assign", c, ("int", 7), None, ()) for c in COLL]
        inner = [probe(ctx, ["p", "acc"])] + stmts(ctx, shape, ["p", "acc"], "p", 0)
        if variant == "void" and shape[0] != "return":
            inner += [probe(ctx, ["p", "acc"]), ("print", ("bin", "+", ("str", "end "), var("acc")))]
        f = ("assign", "f", ("fn", [("p", "int")], None, pre + inner), None, ())
        calls = []
        for pv in (0, 1, 2):
            calls += [("expr", ("call", var("f"), [("int", pv)])), ("print", ("str", f"back {pv}"))]
        return [BOX, HELPER_G, HELPER_BF, f] + calls
    pre = [("assign", "box", ("new", "Bx", [("int", 5)]), None, ()),
           ("assign", "lst", ("list", [("int", 10), ("int", 20)]), "[int...]", ()),
           ("assign", "flg", ("list", [("bool", True), ("bool", False)]), "[bool...]", ()), ("assign", "zi", ("int", 0), None, ()),
           ("assign", "acc", ("int", 0), None, ()), ("assign", "st", ("int", 1), None, ())]
    pre += [("assign", c, ("int", 7), None, ()) for c in COLL]
    counters0 = ["p", "acc"]
    if variant == "module":
        body = block(ctx, shape, counters0, "p", 0, can_return=False)
        tail = [("print", ("bin", "+", ("bin", "+", ("str", "end "), var("acc")),
                           ("bin", "+", ("str", " "), var("c0"))))]
        return [BOX, HELPER_G, HELPER_BF, ("assign", "p", ("int", 1), None, ())] + pre + body + tail
    body = pre + block(ctx, shape, counters0, "p", 0)
    tail = [("print", ("bin", "+", ("bin", "+", ("bin", "+", ("str", "end "), var("acc")), ("str", " ")),
                       ("bin", "+", ("bin", "+", var("c0"), ("str", " ")), var("c1")))),
            ("return", ("int", 0))]
    if variant == "rec":
        rec = ("if", ("bin", ">", var("d"), ("int", 0)),
               [("assign", "r", ("selfcall", [var("p"), ("bin", "-", var("d"), ("int", 1))]), None, ()),
                ("print", ("bin", "+", ("str", "r "), var("r")))], None)
        f = ("assign", "f", ("fn", [("p", "int"), ("d", "int")], "int", [rec] + body + tail), None, ())
        calls = [("print", ("call", var("f"), [("int", pv), ("int", 1)])) for pv in (1, 2)]
        return [BOX, HELPER_G, HELPER_BF, f] + calls
    f = ("assign", "f", ("fn", [("p", "int")], "int", body + tail), None, ())
    calls = [("print", ("call", var("f"), [("int", pv)])) for pv in (0, 1, 2)]
    return [BOX, HELPER_G, HELPER_BF, f] + calls
