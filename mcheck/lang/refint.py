"""Reference model of the MScript subset used by the generators: a small tuple AST, a printer to
concrete syntax, and a direct-style reference interpreter ("the boring model").

Expressions
  ("int", n) ("big", n) ("float", x) ("byte", n) ("bool", b) ("str", s) ("nil",)
  ("var", name) ("bin", op, a, b) ("neg", a) ("not", a)
  ("call", f, [args]) ("selfcall", [args])
  ("index", a, i) ("list", [elems]) ("maplit", ktype, vtype, [(k, v)]) ("method", obj, name, [args]) ("field", obj, name)
  ("get", a) ("or", a, b) ("unwrap", name, e) ("is", a, b)
  ("fn", [(pname, ptype)], rettype|None, [stmts]) ("new", cls, [args])
  ("typeof", a)  (printer only)
Statements
  ("assign", name, expr, type|None, flags-tuple)      flags in {"const", "modify", "export"}
  ("opassign", target_expr, op, expr)                  target: var | index | field
  ("unpack", [names], expr)
  ("setindex", obj_expr, idx_expr, expr) ("setfield", obj_expr, name, expr)
  ("print", expr) ("if", cond, [then], else)           else: None | [stmts] | ("if", ...)
  ("while", cond, [body]) ("from", lo, hi, inclusive, step|None, name|None, [body])
  ("break",) ("continue",) ("return", expr|None) ("assert", expr) ("expr", expr)
  ("class", name, [(field, type)], ([(p, t)], [stmts]) | None, [(mname, [(p, t)], ret, [stmts])])
  ("raw", text)   (printer only; ignored by the interpreter)
"""

I32_MIN, I32_MAX = -2 ** 31, 2 ** 31 - 1


# ---------------------------------------------------------------------------------------------
# printer


def q(s):
    return '"' + s.replace("\\", "\\\\").replace('"', '\\"').replace("\n", "\\n").replace("\t", "\\t") + '"'


PREC_ATOM = 100
# binding strength of the binary operators (PRATT_PARSER of compiler/src/ast/math_expr.rs at the pinned commit, all
# left-associative); used by the minimal-parentheses rendering only
PREC = {"||": 1, "^": 1, "&&": 2, "<": 3, "<=": 3, ">": 3, ">=": 3, "==": 3, "!=": 3, "|": 4, "&": 4, "xor": 5,
        "<<": 6, ">>": 6, "+": 7, "-": 7, "*": 8, "/": 8, "%": 8}
MINPAREN = False      # set through program(..., minparen=True)


def pe(e):
    """Expression -> source text.  Binary operands are always parenthesised when compound, and one
    prefix / one postfix per atom is respected by parenthesising."""
    t = e[0]
    if t == "int":
        return str(e[1]) if e[1] >= 0 else f"(0 - {-e[1]})"
    if t == "big":
        return f"B{e[1]}" if e[1] >= 0 else f"(B0 - B{-e[1]})"
    if t == "byte":
        return "0b" + bin(e[1])[2:]
    if t == "float":
        from . import numeric
        return numeric.float_literal(e[1])
    if t == "bool":
        return "true" if e[1] else "false"
    if t == "str":
        return q(e[1])
    if t == "nil":
        return "nil"
    if t == "var":
        return e[1]
    if t == "bin":
        if MINPAREN and e[1] in PREC:
            return f"{pa(e[2], PREC[e[1]], False)} {e[1]} {pa(e[3], PREC[e[1]], True)}"
        return f"{pa(e[2])} {e[1]} {pa(e[3])}"
    if t == "neg":
        return f"-{pp(e[1])}"
    if t == "not":
        return f"!{pp(e[1])}"
    if t == "get":
        return f"get {pp(e[1])}"
    if t == "typeof":
        return f"typeof {pp(e[1])}"
    if t == "or":
        if MINPAREN and e[2][0] == "bin":
            return f"({pe(e[1])}) or {pe(e[2])}"     # the fallback is a whole expression: `or` takes everything to its right
        return f"({pe(e[1])}) or {pa(e[2])}"
    if t == "unwrap":
        return f"{e[1]} ?= {pa(e[2])}"
    if t == "is":
        return f"{pa(e[1])} is {pa(e[2])}"
    if t == "call":
        return f"{ppost(e[1])}({', '.join(pe(a) for a in e[2])})"
    if t == "selfcall":
        return f"self({', '.join(pe(a) for a in e[1])})"
    if t == "new":
        return f"{e[1]}({', '.join(pe(a) for a in e[2])})"
    if t == "index":
        return f"{ppost(e[1])}[{pe(e[2])}]"
    if t == "list":
        return "[" + ", ".join(pe(x) for x in e[1]) + "]"
    if t == "maplit":
        return f"map[{e[1]}, {e[2]}]{{" + ", ".join(f"{pe(k)}: {pe(v)}" for k, v in e[3]) + "}"
    if t == "method":
        return f"{ppost(e[1], True)}.{e[2]}({', '.join(pe(a) for a in e[3])})"
    if t == "field":
        return f"{ppost(e[1], True)}.{e[2]}"
    if t == "fn":
        params = ", ".join(f"{n}: {ty}" if ty else n for n, ty in e[1])
        ret = f" -> {e[2]}" if e[2] else ""
        body = pblock(e[3], 1)
        return f"fn({params}){ret} {{\n{body}}}"
    raise ValueError(f"pe: {e!r}")


def is_atom(e):
    return e[0] in ("int", "big", "byte", "float", "bool", "str", "nil", "var", "list") and not (
        e[0] in ("int", "big") and e[1] < 0)


def pa(e, parent=None, right=False):
    """operand of a binary operator; with MINPAREN a compound operand keeps its parentheses only where the precedence
    table requires them (left operand: binds at least as tightly; right operand: binds strictly tighter; a prefix
    operator binds tighter than every binary operator)"""
    if is_atom(e) or e[0] in ("call", "selfcall", "new", "index", "method", "field"):
        return pe(e)
    if MINPAREN and parent is not None:
        if e[0] == "bin" and e[1] in PREC and (PREC[e[1]] > parent or (not right and PREC[e[1]] == parent)):
            return pe(e)
        if e[0] in ("not", "neg"):
            return pe(e)
        if e[0] == "or" and right:
            # `(x) or y` is a postfix form that binds tighter than every binary operator; as a RIGHT operand it needs no parentheses
            # (as a left operand it would swallow the operator: its fallback is a whole expression)
            return pe(e)
    return f"({pe(e)})"


def pp(e):
    """operand of a prefix operator: must be a primary without its own prefix"""
    if is_atom(e):
        return pe(e)
    return f"({pe(e)})"


def ppost(e, dot=False):
    """receiver of a postfix (call / index / dot): a primary that has no postfix of its own; a dot chain
    (a.b.c(), a.m().n()) is one postfix and is printed natively when the next postfix is a dot too"""
    if e[0] == "var":
        return e[1]
    if dot and e[0] in ("field", "method") and _chain_base(e):
        return pe(e)
    return f"({pe(e)})"


def _chain_base(e):
    while e[0] in ("field", "method"):
        e = e[1]
    return e[0] == "var"


def pstmt(s, ind=0):
    p = "\t" * ind
    t = s[0]
    if t == "assign":
        _, name, expr, ty, flags = s
        fl = "".join(f + " " for f in flags)
        tt = f": {ty}" if ty else ""
        return f"{p}{fl}{name}{tt} = {pe(expr)}\n"
    if t == "unpack":
        return f"{p}[{', '.join(s[1])}] = {pe(s[2])}\n"
    if t == "opassign":
        return f"{p}{pe(s[1])} {s[2]} {pe(s[3])}\n"
    if t == "setindex":
        return f"{p}{ppost(s[1])}[{pe(s[2])}] = {pe(s[3])}\n"
    if t == "setfield":
        return f"{p}{ppost(s[1], True)}.{s[2]} = {pe(s[3])}\n"
    if t == "print":
        return f"{p}print {pe(s[1])}\n"
    if t == "if":
        out = f"{p}if {pe(s[1])} {{\n{pblock(s[2], ind + 1)}{p}}}"
        el = s[3]
        while el is not None:
            if isinstance(el, tuple) and el and el[0] == "if":
                out += f" else if {pe(el[1])} {{\n{pblock(el[2], ind + 1)}{p}}}"
                el = el[3]
            else:
                out += f" else {{\n{pblock(el, ind + 1)}{p}}}"
                el = None
        return out + "\n"
    if t == "while":
        return f"{p}while {pe(s[1])} {{\n{pblock(s[2], ind + 1)}{p}}}\n"
    if t == "from":
        _, lo, hi, incl, step, name, body = s
        kw = "through" if incl else "to"
        st = f" step {pe(step)}" if step is not None else ""
        nm = f", {name}" if name else ""
        return f"{p}from {pe(lo)} {kw} {pe(hi)}{st}{nm} {{\n{pblock(body, ind + 1)}{p}}}\n"
    if t == "break":
        return f"{p}break\n"
    if t == "continue":
        return f"{p}continue\n"
    if t == "return":
        return f"{p}return {pe(s[1])}\n" if s[1] is not None else f"{p}return\n"
    if t == "assert":
        return f"{p}assert {pe(s[1])}\n"
    if t == "expr":
        return f"{p}{pe(s[1])}\n"
    if t == "raw":
        return "".join(p + l + "\n" for l in s[1].split("\n"))
    if t == "class":
        _, name, fields, ctor, methods = s
        out = f"{p}class {name} {{\n"
        for fn_, ty in fields:
            out += f"{p}\t{fn_}: {ty}\n"
        if ctor is not None:
            params = ", ".join(["self"] + [f"{n}: {ty}" for n, ty in ctor[0]])
            out += f"{p}\tconstructor({params}) {{\n{pblock(ctor[1], ind + 2)}{p}\t}}\n"
        for mname, params, ret, body in methods:
            ps = ", ".join(["self"] + [f"{n}: {ty}" for n, ty in params])
            rt = f" -> {ret}" if ret else ""
            out += f"{p}\tfn {mname}({ps}){rt} {{\n{pblock(body, ind + 2)}{p}\t}}\n"
        return out + f"{p}}}\n"
    raise ValueError(f"pstmt: {s!r}")


def pblock(stmts, ind):
    return "".join(pstmt(s, ind) for s in stmts)


def program(stmts, minparen=False):
    global MINPAREN
    MINPAREN = minparen
    try:
        return pblock(stmts, 0)
    finally:
        MINPAREN = False


# ---------------------------------------------------------------------------------------------
# values


class Cell:
    __slots__ = ("v", "const")

    def __init__(self, v, const=False):
        self.v = v
        self.const = const


class MList:
    __slots__ = ("items",)

    def __init__(self, items):
        self.items = items


class MMap:
    __slots__ = ("d",)

    def __init__(self, d=None):
        self.d = d or {}


class Big(int):
    """bigint values (distinct kind from int)"""


class Byte(int):
    pass


class Closure:
    __slots__ = ("params", "body", "captured", "name", "label")

    def __init__(self, params, body, captured, label=None):
        self.params, self.body, self.captured, self.label = params, body, captured, label
        self.name = None


class BoundMethod:
    __slots__ = ("obj", "mname")

    def __init__(self, obj, mname):
        self.obj, self.mname = obj, mname


class Obj:
    __slots__ = ("cls", "fields")

    def __init__(self, cls):
        self.cls = cls
        self.fields = {}


class ClassDef:
    __slots__ = ("name", "fields", "ctor", "methods", "env")

    def __init__(self, name, fields, ctor, methods, env):
        self.name, self.fields, self.ctor, self.methods, self.env = name, fields, ctor, methods, env


class MsFail(Exception):
    """A failure the language defines (assert, zero divisor, overflow, range, nil)."""

    def __init__(self, kind, trace=None, note=""):
        Exception.__init__(self, kind)
        self.kind = kind
        self.trace = trace
        self.note = note


class _Break(Exception):
    pass


class _Continue(Exception):
    pass


class _Return(Exception):
    def __init__(self, v):
        self.v = v


class StepLimit(Exception):
    pass


def show(v, depth=0):
    if v is None:
        return "nil"
    if v is True:
        return "true"
    if v is False:
        return "false"
    if isinstance(v, Byte):
        return "0b" + bin(v)[2:]
    if isinstance(v, int):
        return str(int(v))
    if isinstance(v, float):
        from . import numeric
        return numeric.fmt_float(v)
    if isinstance(v, str):
        return '"' + v + '"' if depth else v
    if isinstance(v, MList):
        return "[" + ", ".join(show(x, depth + 1) for x in v.items) + "]"
    if isinstance(v, MMap):
        return "{" + ", ".join(f"{show(k, depth + 1)}: {show(x, depth + 1)}" for k, x in v.d.items()) + "}"
    return f"<{type(v).__name__}>"


def free_vars_of_fn(params, body):
    """Names a function body reads (or `modify`-writes) before / without declaring them itself: the model of the
    compiler's net dependencies, which decides which visible cells the function value captures.  A plain
    assignment declares a local (after its right-hand side has been read); declarations are block-scoped."""
    names = set()

    def ex(e, decl):
        t = e[0]
        if t == "var":
            if e[1] not in decl:
                names.add(e[1])
        elif t == "unwrap":
            if e[1] not in decl:
                names.add(e[1])
            ex(e[2], decl)
        elif t == "fn":
            inner = free_vars_of_fn(e[1], e[3])
            names.update(n for n in inner if n not in decl)
        elif t == "call":
            ex(e[1], decl)
            for a in e[2]:
                ex(a, decl)
        elif t == "selfcall":
            for a in e[1]:
                ex(a, decl)
        elif t == "new":
            if e[1] not in decl:
                names.add(e[1])
            for a in e[2]:
                ex(a, decl)
        elif t == "list":
            for a in e[1]:
                ex(a, decl)
        elif t == "maplit":
            for k_, v_ in e[3]:
                ex(k_, decl)
                ex(v_, decl)
        elif t == "method":
            ex(e[1], decl)
            for a in e[3]:
                ex(a, decl)
        elif t == "field":
            ex(e[1], decl)
        else:
            for x in e[1:]:
                if isinstance(x, tuple) and x and isinstance(x[0], str):
                    ex(x, decl)

    def block(stmts, decl):
        decl = set(decl)
        for s in stmts:
            st(s, decl)

    def st(s, decl):
        t = s[0]
        if t == "assign":
            ex(s[2], decl)
            if "modify" in s[4]:
                names.add(s[1])
            else:
                decl.add(s[1])
        elif t == "unpack":
            ex(s[2], decl)
            decl.update(s[1])
        elif t == "opassign":
            ex(s[1], decl)
            ex(s[3], decl)
        elif t == "setindex":
            ex(s[1], decl); ex(s[2], decl); ex(s[3], decl)
        elif t == "setfield":
            ex(s[1], decl); ex(s[3], decl)
        elif t in ("print", "assert", "expr"):
            ex(s[1], decl)
        elif t == "return":
            if s[1] is not None:
                ex(s[1], decl)
        elif t == "if":
            while True:
                ex(s[1], decl)
                block(s[2], decl)
                el = s[3]
                if el is None:
                    break
                if isinstance(el, tuple) and el and el[0] == "if":
                    s = el
                    continue
                block(el, decl)
                break
        elif t == "while":
            ex(s[1], decl)
            block(s[2], decl)
        elif t == "from":
            ex(s[1], decl); ex(s[2], decl)
            inner = set(decl)
            if s[5]:
                if s[5] not in decl:
                    inner.add(s[5])
            if s[4] is not None:
                ex(s[4], inner)
            block(s[6], inner)
        elif t == "class":
            decl.add(s[1])
    block(body, {p for p, _ in params})
    return names


# ---------------------------------------------------------------------------------------------
# interpreter


class Frame:
    """One function activation: a stack of block scopes + the closure's captured cells."""
    __slots__ = ("scopes", "captured", "label", "closure", "selfobj")

    def __init__(self, captured, label, closure=None):
        self.scopes = [{}]
        self.captured = captured
        self.label = label
        self.closure = closure
        self.selfobj = None

    def lookup(self, name):
        for sc in reversed(self.scopes):
            c = sc.get(name)
            if c is not None:
                return c
        return self.captured.get(name)

    def lookup_local(self, name):
        for sc in reversed(self.scopes):
            c = sc.get(name)
            if c is not None:
                return c
        return None

    def visible(self):
        m = dict(self.captured)
        for sc in self.scopes:
            m.update(sc)
        return m


class Interp:
    def __init__(self, step_limit=200000):
        self.out = []
        self.frames = []
        self.steps = 0
        self.step_limit = step_limit
        self.classes = {}
        self.modname = "__module__"

    # -- helpers
    def tick(self):
        self.steps += 1
        if self.steps > self.step_limit:
            raise StepLimit()

    @property
    def fr(self):
        return self.frames[-1]

    def fail(self, kind, note=""):
        raise MsFail(kind, [f.label for f in reversed(self.frames)], note)

    def run(self, stmts):
        """Run a module.  -> (ok, failure or None).  Output lines in self.out."""
        self.frames = [Frame({}, self.modname)]
        try:
            self.block(stmts, new_scope=False)
        except MsFail as e:
            return False, e
        except _Return:
            pass
        return True, None

    # -- statements
    def block(self, stmts, new_scope=True):
        if new_scope:
            self.fr.scopes.append({})
        try:
            for s in stmts:
                self.stmt(s)
        finally:
            if new_scope:
                self.fr.scopes.pop()

    def assign(self, name, v, flags=()):
        fr = self.fr
        if "modify" in flags:
            c = fr.captured.get(name)
            if c is None:
                raise RuntimeError(f"model: modify of non-captured {name}")
            c.v = v
            return
        c = fr.lookup_local(name)
        if c is not None:
            c.v = v
        else:
            fr.scopes[-1][name] = Cell(v, "const" in flags)
        if isinstance(v, Closure) and v.name is None:
            v.name = name

    def stmt(self, s):
        self.tick()
        t = s[0]
        if t == "assign":
            v = self.ev(s[2])
            self.assign(s[1], v, s[4])
        elif t == "unpack":
            v = self.ev(s[2])
            for n_, x_ in zip(s[1], v.items):
                self.assign(n_, x_)
        elif t == "print":
            self.out.append(show(self.ev(s[1])))
        elif t == "if":
            while True:
                if self.truth(self.ev(s[1])):
                    self.block(s[2])
                    return
                el = s[3]
                if el is None:
                    return
                if isinstance(el, tuple) and el and el[0] == "if":
                    s = el
                    continue
                self.block(el)
                return
        elif t == "while":
            while self.truth(self.ev(s[1])):
                self.tick()
                try:
                    self.block(s[2])
                except _Break:
                    break
                except _Continue:
                    continue
        elif t == "from":
            self.from_loop(s)
        elif t == "break":
            raise _Break()
        elif t == "continue":
            raise _Continue()
        elif t == "return":
            raise _Return(self.ev(s[1]) if s[1] is not None else None)
        elif t == "assert":
            if not self.truth(self.ev(s[1])):
                self.fail("assert")
        elif t == "expr":
            self.ev(s[1])
        elif t == "opassign":
            self.opassign(s)
        elif t == "setindex":
            obj = self.ev(s[1])
            idx = self.ev(s[2])
            v = self.ev(s[3])
            self.store_index(obj, idx, v)
        elif t == "setfield":
            obj = self.ev(s[1])
            v = self.ev(s[3])
            if obj is None:
                self.fail("nil")
            obj.fields[s[2]].v = v
        elif t == "class":
            _, name, fields, ctor, methods = s
            cd = ClassDef(name, fields, ctor, {m[0]: m for m in methods}, self.fr.visible())
            self.classes[name] = cd
            self.fr.scopes[-1][name] = Cell(cd, True)
        elif t == "raw":
            pass
        else:
            raise ValueError(f"stmt: {s!r}")

    def from_loop(self, s):
        _, lo, hi, incl, step, name, body = s
        fr = self.fr
        lo_v = self.ev(lo)
        collision = name is not None and fr.lookup_local(name) is not None
        if collision:
            cell = fr.lookup_local(name)
            cell.v = lo_v
        else:
            cell = Cell(lo_v)
            if name is not None:
                fr.scopes[-1][name] = cell
        hi_v = self.ev(hi)
        try:
            while (cell.v <= hi_v) if incl else (cell.v < hi_v):
                self.tick()
                fr.scopes.append({})
                try:
                    try:
                        for st in body:
                            self.stmt(st)
                    except _Continue:
                        pass
                    step_v = self.ev(step) if step is not None else 1
                    cell.v = self.arith("+", cell.v, step_v)
                except _Break:
                    break
                finally:
                    fr.scopes.pop()
        finally:
            if name is not None and not collision:
                fr.scopes[-1].pop(name, None)

    def opassign(self, s):
        _, target, op, e = s
        bop = op[0]
        if target[0] == "var":
            c = self.fr.lookup(target[1])
            rhs = self.ev(e)
            c.v = self.arith(bop, c.v, rhs)
        elif target[0] == "index":
            obj = self.ev(target[1])
            idx = self.ev(target[2])
            cur = self.load_index(obj, idx)
            rhs = self.ev(e)
            self.store_index(obj, idx, self.arith(bop, cur, rhs))
        elif target[0] == "field":
            obj = self.ev(target[1])
            rhs = self.ev(e)
            c = obj.fields[target[2]]
            c.v = self.arith(bop, c.v, rhs)
        else:
            raise ValueError(target)

    # -- expressions
    def truth(self, v):
        return v is True

    def load_index(self, obj, idx):
        if obj is None:
            self.fail("nil")
        if isinstance(obj, MMap):
            return obj.d.get(idx)
        if isinstance(obj, str):
            chars = list(obj)
            if not (0 <= idx < len(chars)):
                self.fail("range")
            return chars[idx]
        if not (0 <= idx < len(obj.items)):
            self.fail("range")
        return obj.items[idx]

    def store_index(self, obj, idx, v):
        if isinstance(obj, MMap):
            obj.d[idx] = v
            return
        if not (0 <= idx < len(obj.items)):
            self.fail("range")
        obj.items[idx] = v

    def arith(self, op, a, b):
        if isinstance(a, str) or isinstance(b, str):
            if op == "+":
                return show(a) + show(b)
            if op == "*":
                s, n = (a, b) if isinstance(a, str) else (b, a)
                return s * n
            raise RuntimeError(f"model: str {op}")
        if a is None or b is None:
            self.fail("nil")
        if isinstance(a, float) or isinstance(b, float):
            from . import numeric
            try:
                k, v = numeric.binop(op, "float", float(a), "float", float(b))
            except numeric.Fail as e:
                self.fail("zero-divisor" if "zero" in str(e) else "overflow")
            return v
        big = isinstance(a, Big) or isinstance(b, Big)
        if op == "+":
            r = a + b
        elif op == "-":
            r = a - b
        elif op == "*":
            r = a * b
        elif op in ("/", "%"):
            if b == 0:
                self.fail("zero-divisor")
            qq = abs(a) // abs(b)
            if (a >= 0) != (b >= 0):
                qq = -qq
            r = qq if op == "/" else a - b * qq
        else:
            raise RuntimeError(f"model: arith {op}")
        if big:
            if not (-2 ** 127 <= r < 2 ** 127):
                self.fail("overflow")
            return Big(r)
        if not (I32_MIN <= r <= I32_MAX):
            self.fail("overflow")
        return int(r)

    def equals(self, a, b):
        if isinstance(a, MList) and isinstance(b, MList):
            return len(a.items) == len(b.items) and all(self.equals(x, y) for x, y in zip(a.items, b.items))
        if isinstance(a, bool) or isinstance(b, bool):
            return a is b
        return a == b

    def ev(self, e):
        self.tick()
        t = e[0]
        if t == "int":
            return e[1]
        if t == "big":
            return Big(e[1])
        if t == "byte":
            return Byte(e[1])
        if t == "float":
            return float(e[1])
        if t in ("bool", "str"):
            return e[1]
        if t == "nil":
            return None
        if t == "var":
            c = self.fr.lookup(e[1])
            if c is None:
                if e[1] in self.classes:
                    return self.classes[e[1]]
                raise RuntimeError(f"model: unbound {e[1]}")
            return c.v
        if t == "bin":
            op = e[1]
            if op == "&&":
                a = self.ev(e[2])
                return self.ev(e[3]) if a is True else False
            if op == "||":
                a = self.ev(e[2])
                return True if a is True else self.ev(e[3])
            a = self.ev(e[2])
            b = self.ev(e[3])
            if op == "==":
                return self.equals(a, b)
            if op == "!=":
                return not self.equals(a, b)
            if op == "^":
                return (a is True) != (b is True)
            if op in ("&", "|", "xor", "<<", ">>"):
                from . import numeric
                ka = "bigint" if isinstance(a, Big) else "byte" if isinstance(a, Byte) else "int"
                kb = "bigint" if isinstance(b, Big) else "byte" if isinstance(b, Byte) else "int"
                try:
                    kk, vv = numeric.binop(op, ka, int(a), kb, int(b))
                except numeric.Fail:
                    self.fail("overflow")
                return Big(vv) if kk == "bigint" else Byte(vv) if kk == "byte" else int(vv)
            if op in ("<", "<=", ">", ">="):
                if a is None or b is None:
                    self.fail("nil")
                return {"<": a < b, "<=": a <= b, ">": a > b, ">=": a >= b}[op]
            return self.arith(op, a, b)
        if t == "neg":
            v = self.ev(e[1])
            if isinstance(v, float):
                return -v
            return self.arith("-", Big(0) if isinstance(v, Big) else 0, v)
        if t == "not":
            return not self.truth(self.ev(e[1]))
        if t == "get":
            v = self.ev(e[1])
            if v is None:
                self.fail("nil", "get")
            return v
        if t == "or":
            v = self.ev(e[1])
            if v is None:
                return self.ev(e[2])
            return v
        if t == "unwrap":
            v = self.ev(e[2])
            self.assign(e[1], v)
            return v is not None
        if t == "is":
            a = self.ev(e[1])
            b = self.ev(e[2])
            return a is b
        if t == "list":
            return MList([self.ev(x) for x in e[1]])
        if t == "maplit":
            m = MMap()
            for k_, v_ in e[3]:
                kk = self.ev(k_)
                m.d[kk] = self.ev(v_)
            return m
        if t == "index":
            obj = self.ev(e[1])
            idx = self.ev(e[2])
            return self.load_index(obj, idx)
        if t == "fn":
            fr = self.fr
            vis = fr.visible()
            fv = free_vars_of_fn(e[1], e[3])
            captured = {n: c for n, c in vis.items() if n in fv}
            return Closure(e[1], e[3], captured)
        if t == "call":
            f = self.ev(e[1])
            args = [self.ev(a) for a in e[2]]
            return self.call(f, args)
        if t == "selfcall":
            args = [self.ev(a) for a in e[1]]
            return self.call(self.fr.closure, args)
        if t == "new":
            cd = self.classes[e[1]]
            args = [self.ev(a) for a in e[2]]
            return self.construct(cd, args)
        if t == "field":
            obj = self.ev(e[1])
            if obj is None:
                self.fail("nil")
            return obj.fields[e[2]].v
        if t == "method":
            obj = self.ev(e[1])
            args = [self.ev(a) for a in e[3]]
            return self.call_method(obj, e[2], args)
        raise ValueError(f"ev: {e!r}")

    def call(self, f, args, label=None):
        if isinstance(f, BoundMethod):
            return self.call_method(f.obj, f.mname, args)
        if not isinstance(f, Closure):
            raise RuntimeError(f"model: call of {f!r}")
        if len(self.frames) > 180:
            self.fail("stack")
        fr = Frame(f.captured, label or f.label or f.name or "fn", f)
        for (pn, _), a in zip(f.params, args):
            fr.scopes[0][pn] = Cell(a)
        self.frames.append(fr)
        try:
            self.block(f.body, new_scope=False)
            return None
        except _Return as r:
            return r.v
        finally:
            self.frames.pop()

    def construct(self, cd, args):
        obj = Obj(cd)
        for fn_, _ in cd.fields:
            obj.fields[fn_] = Cell(None)
        if cd.ctor is not None:
            self.run_method(obj, cd, "constructor", cd.ctor[0], cd.ctor[1], args)
        return obj

    def run_method(self, obj, cd, mname, params, body, args):
        captured = dict(cd.env)
        fr = Frame(captured, f"{cd.name}::{mname}")
        fr.selfobj = obj
        fr.scopes[0]["self"] = Cell(obj)
        for (pn, _), a in zip(params, args):
            fr.scopes[0][pn] = Cell(a)
        self.frames.append(fr)
        try:
            self.block(body, new_scope=False)
            return None
        except _Return as r:
            return r.v
        finally:
            self.frames.pop()

    def call_method(self, obj, mname, args):
        if obj is None:
            self.fail("nil")
        if isinstance(obj, Obj):
            if mname in obj.cls.methods:
                _, params, ret, body = obj.cls.methods[mname]
                return self.run_method(obj, obj.cls, mname, params, body, args)
            f = obj.fields[mname].v
            return self.call(f, args)
        return self.builtin(obj, mname, args)

    def builtin(self, obj, mname, args):
        if isinstance(obj, MList):
            it = obj.items
            if mname == "len":
                return len(it)
            if mname == "push":
                it.extend(args)
                return None
            if mname == "clone":
                return MList(list(it))
            if mname == "reverse":
                it.reverse()
                return None
            if mname == "clear":
                del it[:]
                return None
            if mname == "remove":
                if not (0 <= args[0] < len(it)):
                    self.fail("range")
                return it.pop(args[0])
            if mname == "index_of":
                for i, x in enumerate(it):
                    if self.equals(x, args[0]):
                        return i
                return None
            if mname == "map":
                return MList([self.call(args[0], [x], label="map-callback") for x in list(it)])
            if mname == "filter":
                return MList([x for x in list(it) if self.call(args[0], [x], label="filter-callback") is True])
            if mname == "join":
                other = args[0]
                it.extend(other.items)
                return None
        if isinstance(obj, MMap):
            if mname == "len":
                return len(obj.d)
        if isinstance(obj, str):
            if mname == "len":
                return len(obj.encode("utf-8"))
        if isinstance(obj, Closure) and mname == "is_closure":
            return bool(obj.captured)
        raise RuntimeError(f"model: builtin {type(obj).__name__}.{mname}")
