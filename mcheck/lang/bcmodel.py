"""E-cfg: an abstract machine whose transition relation is the bytecode the real compiler emitted.

State = (ip, stack of open block frames, set of possible operand-stack depths).  Both outcomes of
every conditional instruction are explored.  Invariants are evaluated on every state; real
per-instruction traces (hook H1) are validated against the explored model."""

MAXD = 64


class Violation(Exception):
    def __init__(self, kind, ip, msg):
        Exception.__init__(self, msg)
        self.kind, self.ip, self.msg = kind, ip, msg


def _need(D, pred):
    return frozenset(d for d in D if pred(d))


def step(name, args, ip, D, n_instr):
    """Abstract semantics of one instruction.
    -> list of (next ip or None for function exit, frame action, D') ; frame action in
       None | ('push', kind) | ('pop', k).  Raises Violation when no operand shape satisfies it."""
    def req(pred, what):
        D2 = _need(D, pred)
        if not D2:
            raise Violation("operand-shape", ip, f"{name}: {what}; possible depths {sorted(D)}")
        return D2

    def tgt(off):
        t = ip + off
        if not (0 <= t < n_instr):
            raise Violation("jump-target", ip, f"{name} {off}: target {t} outside the function (0..{n_instr - 1})")
        return t

    nxt = ip + 1
    push1 = ("make_bool", "make_str", "make_bigint", "make_int", "make_float", "make_byte", "make_function",
             "make_map", "reserve_primitive", "load", "load_fast", "load_callback", "load_self_export", "arg",
             "stack_size", "delete_name_reference_scoped", "ld_self", "make_object")
    same = ("printn", "export_name", "delete_name_scoped", "breakpoint", "stack_dump", "nop")
    if name in push1:
        return [(nxt, None, frozenset(min(d + 1, MAXD) for d in D))]
    if name == "make_vector":
        if args:
            return [(nxt, None, frozenset(min(d + 1, MAXD) for d in D))]
        return [(nxt, None, frozenset([1]))]
    if name in same:
        return [(nxt, None, D)]
    if name == "pop":
        return [(nxt, None, frozenset(max(d - 1, 0) for d in D))]
    if name == "void":
        return [(nxt, None, frozenset([0]))]
    if name == "bin_op":
        req(lambda d: d >= 2, "needs two operands")
        return [(nxt, None, frozenset([1]))]
    if name in ("equ", "neq"):
        req(lambda d: d == 2, "needs exactly two operands")
        return [(nxt, None, frozenset([1]))]
    if name in ("not", "neg", "unwrap", "unwrap_into", "split_lookup_store"):
        return [(nxt, None, req(lambda d: d >= 1, "needs an operand"))]
    if name == "vec_op":
        op = args[0] if args else ""
        if op.startswith("+"):
            req(lambda d: d == 1, "push needs exactly one operand")
            return [(nxt, None, frozenset([0]))]
        if op.startswith("["):
            return [(nxt, None, req(lambda d: d >= 1, "index needs an operand"))]
        if op == "mut":
            req(lambda d: d == 2, "mut needs exactly two operands")
            return [(nxt, None, frozenset([1]))]
        return [(nxt, None, req(lambda d: d >= 1, "needs an operand"))]
    if name == "map_op":
        return [(nxt, None, req(lambda d: d >= 1, "needs an index operand"))]
    if name == "fast_map_insert":
        D2 = req(lambda d: d >= 1, "needs a value operand")
        return [(nxt, None, frozenset(d - 1 for d in D2))]
    if name in ("store", "store_fast", "store_object", "export_special", "assert"):
        req(lambda d: d == 1, "needs exactly one operand")
        return [(nxt, None, frozenset([0]))]
    if name == "lookup":
        req(lambda d: d == 1, "needs exactly one operand")
        return [(nxt, None, frozenset([1]))]
    if name == "mutate":
        req(lambda d: d == 2, "needs exactly two operands")
        return [(nxt, None, frozenset([1]))]
    if name == "fast_rev2":
        req(lambda d: d == 2, "needs exactly two operands")
        return [(nxt, None, frozenset([2]))]
    if name == "ptr_mut":
        D2 = req(lambda d: d >= 2, "needs [pointer, value]")
        return [(nxt, None, frozenset(d - 2 for d in D2))]
    if name == "bin_op_assign":
        if len(args) >= 2:
            return [(nxt, None, req(lambda d: d >= 1, "needs a value operand"))]
        D2 = req(lambda d: d >= 2, "needs [pointer, value]")
        return [(nxt, None, frozenset(d - 1 for d in D2))]
    if name in ("call", "call_object", "call_self", "call_lib", "module_entry"):
        if name == "call" and not args:
            req(lambda d: d >= 1, "needs the callee on the stack")
        if name == "call_object":
            req(lambda d: d >= 1, "needs the receiver on the stack")
        return [(nxt, None, frozenset([0, 1]))]
    if name in ("if_stmt", "while_loop"):
        req(lambda d: d >= 1, "needs a condition operand")
        off = int(args[0])
        kind = "if" if name == "if_stmt" else "while"
        return [(nxt, ("push", kind), frozenset([0])), (tgt(off), None, frozenset([0]))]
    if name == "else_stmt":
        return [(nxt, ("push", "else"), D)]
    if name == "done":
        return [(nxt, ("pop", 1), D)]
    if name == "jmp":
        return [(tgt(int(args[0])), None, D)]
    if name == "jmp_pop":
        k = int(args[1]) if len(args) > 1 else 1
        return [(tgt(int(args[0])), ("pop", k), D)]
    if name == "jmp_not_nil":
        D2 = req(lambda d: d >= 1, "needs an operand")
        return [(nxt, None, frozenset(d - 1 for d in D2)), (tgt(int(args[0])), None, D2)]
    if name == "store_skip":
        req(lambda d: d == 1, "needs exactly one operand")
        off = int(args[2])
        if off < 0:
            raise Violation("jump-target", ip, "store_skip can only skip forwards")
        return [(nxt, None, frozenset([0])), (tgt(off), None, frozenset([1]))]
    if name == "ret":
        req(lambda d: d <= 1, "can return at most one operand")
        return [(None, None, D)]
    if name == "ret_mod":
        req(lambda d: d == 0, "needs a clean operand stack")
        return [(None, "ret_mod", D)]
    raise KeyError(name)


class FnModel:
    """Explored model of one function: frames[ip] (unique by invariant), D[ip], succ[ip]."""

    def __init__(self, fname, instrs):
        self.fname = fname
        self.instrs = instrs
        self.frames = {}
        self.D = {}
        self.succ = {}
        self.states = 0
        self.transitions = 0
        self.violations = []

    def explore(self):
        n = len(self.instrs)
        if n == 0:
            return
        work = [(0, (), frozenset([0]))]
        while work:
            ip, frames, D = work.pop()
            if ip >= n:
                # fall-through at the end of the function
                if frames:
                    self.violations.append(("frames-at-exit", ip, f"falls off the end with open block frames {frames}"))
                continue
            known = self.frames.get(ip)
            if known is None:
                self.frames[ip] = frames
                self.D[ip] = D
                self.states += 1
            else:
                if known != frames:
                    kind = "frame-growth" if len(frames) > len(known) and frames[:len(known)] == known else "frame-mismatch"
                    self.violations.append((kind, ip, f"instruction {ip} ({self.instrs[ip][0]}) is reached with block frames "
                                                      f"{list(known)} on one path and {list(frames)} on another"))
                    continue
                if D <= self.D[ip]:
                    continue
                self.D[ip] = self.D[ip] | D
                D = self.D[ip]
            name, args = self.instrs[ip]
            try:
                outs = step(name, args, ip, D, n)
            except Violation as v:
                self.violations.append((v.kind, v.ip, v.msg))
                continue
            except (ValueError, IndexError) as e:
                self.violations.append(("malformed-instruction", ip, f"{name} {args}: {e}"))
                continue
            for nip, act, D2 in outs:
                fr2 = frames
                if act == "ret_mod":
                    if frames:
                        self.violations.append(("frames-at-exit", ip, f"ret_mod reached with open block frames {list(frames)}"))
                    act = None
                if act is not None:
                    if act[0] == "push":
                        fr2 = frames + (act[1],)
                    else:
                        k = act[1]
                        if k > len(frames):
                            self.violations.append(("frame-underflow", ip, f"{name} {' '.join(args)} pops {k} block frame(s) but only "
                                                                          f"{len(frames)} are open: it would pop the function's own frame"))
                            continue
                        fr2 = frames[:len(frames) - k]
                self.succ.setdefault(ip, set()).add(nip)
                self.transitions += 1
                if nip is not None:
                    work.append((nip, fr2, D2))
        return self


def validate_trace(models, records, call_ops):
    """records: list of (function, ip, opcode-name, frames, operands).  Checks that every consecutive
    pair inside an activation is a transition of the model and the recorded depths lie in the model's
    state.  -> (n validated, list of problems)."""
    problems = []
    acts = []     # [function, base, last_ip]
    validated = 0
    for (fn, ip, op, frames, opnd) in records:
        m = models.get(fn)
        if m is None:
            problems.append(f"trace mentions unknown function {fn}")
            break
        placed = False
        while acts:
            a = acts[-1]
            am = models[a[0]]
            if a[0] == fn and frames >= a[1] and a[2] in am.succ and ip in am.succ[a[2]] and \
                    frames - a[1] == len(am.frames.get(ip, ())):
                placed = True
                break
            # not a successor in the top activation: a call out of it, or a return from it
            last_name = am.instrs[a[2]][0]
            if ip == 0 and last_name in call_ops and frames > a[1]:
                break
            acts.pop()
        if placed:
            acts[-1][2] = ip
        else:
            if ip != 0:
                problems.append(f"{fn}@{ip} ({op}): not a model successor of any open activation "
                                f"(frames={frames}, open={[(x[0], x[2]) for x in acts][-3:]})")
                if len(problems) > 3:
                    break
                acts.append([fn, frames - len(m.frames.get(ip, ())), ip])
            else:
                acts.append([fn, frames, 0])
        if ip in m.D:
            if opnd not in m.D[ip] and not (opnd > MAXD):
                problems.append(f"{fn}@{ip} ({op}): operand depth {opnd} not in the model's {sorted(m.D[ip])}")
                if len(problems) > 3:
                    break
        else:
            problems.append(f"{fn}@{ip} ({op}): instruction executed but never reached in the model")
            if len(problems) > 3:
                break
        validated += 1
    return validated, problems
