"""The three execution pipelines of the CLI and helpers to compare their observations."""
import os
import re

from ..core import driver

MAKE_FUNCTION = 12


def pipeline_run(d, entry, env=None, dump=None):
    e = dict(env or {})
    if dump:
        e["MSCRIPT_VERIF_DUMP"] = dump
    return driver.run(["run", entry, "-q"], d, env=e)


def pipeline_exec(d, entry, env=None, dump=None):
    """compile (binary) + execute.  -> (compile result, execute result or None)"""
    c = driver.run(["compile", entry, "--quick"], d, env=env)
    if c.exit != 0:
        return c, None
    e = dict(env or {})
    if dump:
        e["MSCRIPT_VERIF_DUMP"] = dump
    mmm = os.path.splitext(entry)[0] + ".mmm"
    return c, driver.run(["execute", mmm], d, env=e)


def pipeline_transpile(d, entry, env=None, dump=None):
    """compile raw-text -> rename -> transpile -> execute.
    -> (stage that failed or None, result of that stage / of execute)"""
    c = driver.run(["compile", entry, "--quick", "--output-format", "raw-text"], d, env=env)
    if c.exit != 0:
        return "compile", c
    base = os.path.splitext(entry)[0]
    os.replace(os.path.join(d, base + ".mmm"), os.path.join(d, base + ".transpiled.mmm"))
    t = driver.run(["transpile", base + ".transpiled.mmm"], d, env=env)
    if t.exit != 0:
        return "transpile", t
    e = dict(env or {})
    if dump:
        e["MSCRIPT_VERIF_DUMP"] = dump
    return None, driver.run(["execute", base + ".mmm"], d, env=e)


def read_dump(path):
    """-> {file: {function: [(opcode, (args...))]}}; make_function captures sorted (set order varies)."""
    out = {}
    if not os.path.exists(path):
        return None
    with open(path, encoding="utf-8", errors="replace") as f:
        for line in f:
            parts = line.rstrip("\n").split("\t")
            if len(parts) != 5:
                continue
            file, fn, idx, op, args = parts
            a = tuple(bytes.fromhex(x).decode("utf-8", "replace") for x in args.split(",")) if args else ()
            op = int(op)
            if op == MAKE_FUNCTION and len(a) > 1:
                a = (a[0],) + tuple(sorted(a[1:]))
            out.setdefault(os.path.basename(file), {}).setdefault(fn, []).append((op, a))
    return out


def diff_dumps(a, b, only_files=None):
    """First difference between two dumps, or None."""
    if a is None or b is None:
        return None
    for file in sorted(set(a) | set(b)):
        if only_files is not None and file not in only_files:
            continue
        fa, fb = a.get(file), b.get(file)
        if fa is None or fb is None:
            continue   # a module not loaded on one path because execution stopped earlier
        for fn in sorted(set(fa) | set(fb)):
            ia, ib = fa.get(fn), fb.get(fn)
            if ia is None or ib is None:
                return f"{file}#{fn}: function present on one path only"
            if len(ia) != len(ib):
                return f"{file}#{fn}: {len(ia)} vs {len(ib)} instructions"
            for k, (x, y) in enumerate(zip(ia, ib)):
                if x != y:
                    return f"{file}#{fn}[{k}]: {x!r} vs {y!r}"
    return None


_ADDR = re.compile(r"0x[0-9a-fA-F]{6,}")
_BRACE = re.compile(r"[{},]\s*")


def iterates_a_map(cwd):
    """True when a source file under cwd takes keys() / values() / pairs() of a map: the ORDER of what such a program prints per element is
    the HashMap's iteration order, which differs between two processes of the same binary."""
    import re
    for root, _, fs in os.walk(cwd):
        for f in fs:
            if f.endswith(".ms"):
                try:
                    if re.search(r"\.(pairs|keys|values)\s*\(", open(os.path.join(root, f), encoding="utf-8").read()):
                        return True
                except (OSError, UnicodeDecodeError):
                    pass
    return False


def mentions_map_iteration(texts):
    return any(re.search(r"\.(pairs|keys|values)\s*\(", t) for t in texts)


def canon_stdout(out, unordered_lines=False):
    """Canonical form of stdout for differential comparison: lines that print a map are
    compared as sorted token multisets (HashMap iteration order differs between processes);
    with unordered_lines (program iterates over a map) the lines themselves are compared as a multiset."""
    if unordered_lines:
        # the program takes keys() / values() / pairs() of a map or iterates over one: the ORDER of what it prints from there on is not defined, neither
        # between lines nor inside a printed list; such programs are compared as a multiset of lines, each line a multiset of tokens
        ls = []
        for line in canon_stdout(out).split("\n"):
            if "[" in line and "]" in line and not line.startswith("{map}"):
                line = "[list]" + "|".join(sorted(t for t in re.split(r"[\[\],]\s*", line) if t))
            ls.append(line)
        return "\n".join(sorted(ls))
    lines = []
    out = _ADDR.sub("0xN", out)
    for line in out.split("\n"):
        if "{" in line and "}" in line:
            toks = sorted(t for t in _BRACE.split(line) if t)
            lines.append("{map}" + "|".join(toks))
        else:
            lines.append(line)
    return "\n".join(lines)
