#!/usr/bin/env python3
"""Regenerates MANIFEST.json from the table below (keeps it valid at all times)."""
import json, os, subprocess
HERE = os.path.dirname(os.path.abspath(__file__))
ALL = [f"C{i:02d}" for i in range(1, 21)]
CHECKS = {}   # id -> dict(category, text, note, technique, design_ref)
exec(open(os.path.join(HERE, "manifest_table.py")).read())
checks = []
SERVED.extend(sorted(CHECKS))
for pid in ALL:
    c = CHECKS.get(pid)
    if not c:
        continue
    checks.append({
        "property_id": pid,
        "quick_cmd": f"./check {pid} quick",
        "thorough_cmd": f"./check {pid} thorough",
        "evidence_file": f"/verif/evidence/{pid}.json",
        "replay_cmd_template": "./check replay {path}",
        "engine": c.get("engine", "mcheck"),
        "level_claimed": {"category": c["category"], "text": c["text"], "design_ref": c.get("design_ref", "DESIGN.md section 4")},
        "level_note": c["note"],
        "technique": c["technique"],
    })
man = {
    "version": 1,
    "setup_cmd": "./setup.sh",
    "hooks": {
        "guard": "--cfg mscript_verif",
        "enable": "RUSTFLAGS='--cfg mscript_verif' CARGO_TARGET_DIR=/verif/.build/repo cargo build --offline --bin mscript (done by every check; hooks stay inert unless MSCRIPT_VERIF_* env vars are set)",
        "baseline_off_cmd": "cd /repo && cargo test --workspace --no-fail-fast --offline",
        "source_commits": HOOK_COMMITS,
        "add_only": True,
    },
    "engines": ENGINES,
    "checks": checks,
    "notes": NOTES,
    "not_applicable": [{"property_id": p, "reason": NOT_CLAIMED.get(p, "check not built yet (construction order in DESIGN.md section 9); not claimed")} for p in ALL if p not in CHECKS],
}
json.dump(man, open(os.path.join(HERE, "MANIFEST.json"), "w"), indent=1)
print("MANIFEST.json written:", len(checks), "checks")
